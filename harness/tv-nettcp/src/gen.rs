//! Case generators per property.

use std::net::IpAddr;

use crate::ops::{host_v4, host_v6, parse_ip, Cfg, Op};
use crate::prng::Rng;
use crate::scenario::{drain, epilogue_reclaim, run_xfer, Chooser, PathChooser, RandChooser, Side, Xfer};
use crate::world::World;
use crate::Out;

pub struct Scale {
    pub tier: String,
    /// Number of random-walk cases per family.
    pub walks: u64,
    /// Depth of exhaustive wire exploration.
    pub depth: usize,
    pub thorough: bool,
}

impl Scale {
    pub fn new(tier: &str, cases: Option<u64>, depth: Option<usize>) -> Scale {
        let thorough = tier != "quick";
        Scale {
            tier: tier.to_string(),
            walks: cases.unwrap_or(if thorough { 6000 } else { 300 }),
            depth: depth.unwrap_or(if thorough { 9 } else { 6 }),
            thorough,
        }
    }
}

/// Loss / delay budget under which no *legitimate* retransmit exhaustion can occur: a segment is
/// sent at passes 0, thr, …, max·thr and the connection aborts at pass (max+1)·thr; the pass counter
/// is not reset when the handshake completes, which can cost the first segment up to thr−1 passes.
/// The answer to a segment held `h` rounds (and itself held `h` rounds) is processed 2h + 2 passes
/// later; a SYN is one pass old when it first leaves. With `d` drops: `2h + max(2, thr) < (max + 1 − d)·thr`.
pub fn budget(r: &mut Rng, cfg: &Cfg) -> (usize, u32) {
    let (thr, max) = (cfg.retxthr as usize, cfg.retxmax as usize);
    let d = r.range(0, max.saturating_sub(1) as u64) as usize;
    // need 2h + max(2, thr) < (max + 1 − d)·thr   (mirrors `Spec.withinBudget`)
    let room = (max + 1 - d) * thr;
    let fixed = thr.max(2);
    let hmax = if room > fixed { (room - fixed - 1) / 2 } else { 0 };
    let h = r.range(0, hmax.min(3) as u64) as u32;
    (d, h)
}

pub fn bytes(n: usize, salt: u32) -> Vec<u8> {
    (0..n).map(|i| ((i as u32).wrapping_mul(31).wrapping_add(salt * 17 + 1) % 251) as u8).collect()
}

fn side(data: Vec<u8>, wchunk: usize, rchunk: usize, shutdown: bool) -> Side {
    Side {
        data,
        wchunk,
        rchunk,
        reads_per_round: 2,
        writes_per_round: 2,
        shutdown,
        read_from_round: 0,
    }
}

fn ip(tok: &str) -> IpAddr {
    parse_ip(tok).unwrap()
}

/// Finish a `live=1` case: loss-free rounds with greedy readers were already run by `run_xfer`
/// (it stops at quiescence); record a final `stat`.
fn finish_live(w: &mut World) {
    w.apply(Op::Stat);
}

// ------------------------------------------------------------------------------------------
// C06
// ------------------------------------------------------------------------------------------

fn exhaustive(o: &mut Out, family: &str, seed: u64, base: &Xfer, depth: usize, cap: u64) -> u64 {
    let mut path: Vec<u8> = Vec::new();
    let mut n = 0u64;
    loop {
        let mut ch = PathChooser::new(path.clone(), depth);
        let mut cfg = base.cfg.clone();
        cfg.live = true;
        let mut x = base.clone();
        x.cfg = cfg.clone();
        o.case(family, seed, &cfg, |w| {
            run_xfer(w, &x, &mut ch);
            finish_live(w);
        });
        n += 1;
        match ch.next_path() {
            Some(p) if n < cap => path = p,
            _ => break,
        }
    }
    n
}

pub fn c06(o: &mut Out, seed: u64, sc: &Scale) {
    let mut rng = Rng::new(seed);
    // --- exhaustive: two-segment transfer + half close, choices start with the handshake ACK.
    let small = Cfg { mtu: 44, sendcap: 64, recvcap: 64, ..Cfg::default() };
    let base = Xfer {
        cfg: small.clone(),
        ch: 0,
        sh: 1,
        listen_ip: host_v4(1),
        connect_ip: host_v4(1),
        port: 9000,
        sides: [side(bytes(8, 1), 8, 16, true), side(bytes(0, 2), 4, 16, true)],
        stat_every_op: false,
        max_drops: 2,
        max_hold: 1,
        allow_dup: false,
        free_rounds: 2,
        max_rounds: 90,
    };
    let cap = if sc.thorough { 40_000 } else { 3_000 };
    exhaustive(o, "exh_data", seed, &base, sc.depth, cap);
    // --- exhaustive from the first SYN: one segment each way, no close.
    let mut hs = base.clone();
    hs.sides = [side(bytes(3, 3), 3, 8, false), side(bytes(3, 4), 3, 8, false)];
    hs.free_rounds = 0;
    exhaustive(o, "exh_hs", seed, &hs, sc.depth, cap);
    // --- exhaustive with a receive window of one segment and one-byte reads (window dynamics).
    let mut zw = base.clone();
    zw.cfg = Cfg { mtu: 44, sendcap: 64, recvcap: 4, ..Cfg::default() };
    zw.sides = [side(bytes(10, 5), 10, 1, true), side(bytes(0, 6), 4, 4, false)];
    zw.max_drops = 1;
    exhaustive(o, "exh_win", seed, &zw, sc.depth.saturating_sub(1), cap);

    // --- random walks: random configs / sizes / both directions / half close, bounded loss.
    for i in 0..sc.walks {
        let mut r = rng.fork();
        let s = r.next();
        let x = random_xfer(&mut r, false);
        let mut cfg = x.cfg.clone();
        cfg.live = true;
        let mut x = x;
        x.cfg = cfg.clone();
        let mut ch = RandChooser { rng: r.fork(), p_hold: 150, p_drop: 120, p_dup: 0, p_shuffle: 250 };
        o.case(if i % 2 == 0 { "walk" } else { "walk_b" }, s, &cfg, |w| {
            run_xfer(w, &x, &mut ch);
            finish_live(w);
        });
    }
    // --- end to end through fixture::ClientServer / fixture::lo with rule-driven loss and latency.
    crate::fixture::run(o, seed, (sc.walks / 10).max(30));
    // --- safety-only walks: unbounded loss, duplication, long holds.
    for _ in 0..sc.walks / 2 {
        let mut r = rng.fork();
        let s = r.next();
        let mut x = random_xfer(&mut r, false);
        x.max_drops = usize::MAX;
        x.max_hold = 6;
        x.allow_dup = true;
        x.max_rounds = 60;
        let cfg = x.cfg.clone();
        let mut ch = RandChooser { rng: r.fork(), p_hold: 200, p_drop: 200, p_dup: 150, p_shuffle: 400 };
        o.case("walk_dup", s, &cfg, |w| {
            run_xfer(w, &x, &mut ch);
            w.apply(Op::Stat);
        });
    }
}

/// A random transfer: config, path (cross-host / loopback, v4 / v6), sizes, chunkings.
pub fn random_xfer(r: &mut Rng, stat: bool) -> Xfer {
    let v6 = r.chance(1, 4);
    let lo = r.chance(1, 5);
    let hdr = if v6 { 60 } else { 40 };
    // MSS classes: 1, tiny, small, default
    let mss = *r.pick(&[1u32, 2, 3, 5, 8, 16, 100, 1460]);
    let (mtu, lomtu) = if lo { (1500, hdr + mss) } else { (hdr + mss, 65536) };
    let capclass = |r: &mut Rng| -> usize {
        *r.pick(&[1usize, 2, 3, 4, 7, 8, 16, 33, 64, 200, 65536])
    };
    let cfg = Cfg {
        mtu,
        lomtu,
        sendcap: capclass(r),
        recvcap: capclass(r),
        backlog: 4,
        retxthr: *r.pick(&[1u32, 2, 3, 3]),
        retxmax: *r.pick(&[2u32, 3, 5]),
        live: false,
        reclaim: false,
    };
    let len = |r: &mut Rng| -> usize { *r.pick(&[0usize, 1, 2, 5, 9, 17, 40, 120]) };
    let chunk = |r: &mut Rng| -> usize { *r.pick(&[1usize, 2, 3, 7, 16, 64, 4096]) };
    let (ch, sh) = if lo { (0, 0) } else if r.chance(1, 2) { (0, 1) } else { (1, 0) };
    let target = if lo {
        if v6 { ip("lo6") } else { ip("lo4") }
    } else if v6 {
        host_v6(sh)
    } else {
        host_v4(sh)
    };
    let listen_ip = match r.below(3) {
        0 => {
            if v6 { ip("any6") } else { ip("any4") }
        }
        _ => target,
    };
    let mut mk = |r: &mut Rng, salt: u32| -> Side {
        let mut sd = side(bytes(len(r), salt), chunk(r), chunk(r), r.chance(2, 3));
        sd.reads_per_round = r.range(1, 3) as usize;
        sd.writes_per_round = r.range(1, 3) as usize;
        sd.read_from_round = if r.chance(1, 4) { r.range(3, 12) as usize } else { 0 };
        sd
    };
    let a = mk(r, 7);
    let b = mk(r, 11);
    let (max_drops, max_hold) = budget(r, &cfg);
    Xfer {
        max_drops,
        cfg,
        ch,
        sh,
        listen_ip,
        connect_ip: target,
        port: 9000 + r.below(3) as u16,
        sides: [a, b],
        stat_every_op: stat,
        max_hold,
        allow_dup: false,
        free_rounds: 0,
        max_rounds: 400,
    }
}

// ------------------------------------------------------------------------------------------
// C16
// ------------------------------------------------------------------------------------------

pub fn c16(o: &mut Out, seed: u64, sc: &Scale) {
    let mut rng = Rng::new(seed ^ 0x16);
    // --- config grid: MSS × send cap × recv cap, cross-host v4, deterministic schedule with the
    // ACKs of every second round held (windows shrink and grow), stat after every op.
    let msss = [1u32, 3, 8, 1460];
    let caps = [1usize, 2, 5, 8, 64];
    for &mss in &msss {
        for &sc_ in &caps {
            for &rc in &caps {
                for variant in 0..(if sc.thorough { 6 } else { 2 }) {
                    let mut r = rng.fork();
                    let s = r.next();
                    let v6 = variant % 2 == 1;
                    let lo = variant == 4;
                    let hdr = if v6 { 60 } else { 40 };
                    let cfg = Cfg {
                        mtu: if lo { 1500 } else { hdr + mss },
                        lomtu: if lo { hdr + mss } else { 65536 },
                        sendcap: sc_,
                        recvcap: rc,
                        backlog: 4,
                        ..Cfg::default()
                    };
                    let (chh, shh) = if lo { (1, 1) } else { (0, 1) };
                    let tgt = if lo {
                        if v6 { ip("lo6") } else { ip("lo4") }
                    } else if v6 {
                        host_v6(1)
                    } else {
                        host_v4(1)
                    };
                    let mut a = side(bytes(3 * sc_.max(rc).min(40) + 3, 1), sc_ + 2, (rc / 2).max(1), true);
                    a.writes_per_round = 2;
                    let mut b = side(bytes(rc.min(20) + 1, 2), 3, 4096, variant % 3 == 0);
                    b.read_from_round = 4 + variant as usize;
                    let x = Xfer {
                        cfg: cfg.clone(),
                        ch: chh,
                        sh: shh,
                        listen_ip: tgt,
                        connect_ip: tgt,
                        port: 9100,
                        sides: [a, b],
                        stat_every_op: true,
                        max_drops: 2,
                        max_hold: 2,
                        allow_dup: false,
                        free_rounds: 0,
                        max_rounds: 120,
                    };
                    let mut ch = RandChooser { rng: r.fork(), p_hold: 250, p_drop: 60, p_dup: 0, p_shuffle: 200 };
                    o.case("grid", s, &cfg, |w| {
                        run_xfer(w, &x, &mut ch);
                        w.apply(Op::Stat);
                    });
                }
            }
        }
    }
    // --- random configs and schedules.
    for _ in 0..sc.walks {
        let mut r = rng.fork();
        let s = r.next();
        let mut x = random_xfer(&mut r, true);
        x.max_rounds = 150;
        x.max_drops = 3;
        let cfg = x.cfg.clone();
        let mut ch = RandChooser { rng: r.fork(), p_hold: 200, p_drop: 80, p_dup: 0, p_shuffle: 300 };
        o.case("walk", s, &cfg, |w| {
            run_xfer(w, &x, &mut ch);
            w.apply(Op::Stat);
        });
    }
    // --- UDP payload limit around MTU − headers, v4/v6, cross-host and loopback.
    for &mtu in &[28u32, 29, 48, 49, 100, 1500] {
        for &lomtu in &[48u32, 60, 65536] {
            let cfg = Cfg { mtu, lomtu, ..Cfg::default() };
            let s = rng.next();
            o.case("udp", s, &cfg, |w| {
                w.apply(Op::UdpBind { h: 0, u: 0, ip: host_v4(0), port: 7000 });
                w.apply(Op::UdpBind { h: 0, u: 1, ip: host_v6(0), port: 7001 });
                w.apply(Op::UdpBind { h: 0, u: 2, ip: ip("any4"), port: 0 });
                w.apply(Op::UdpBind { h: 0, u: 3, ip: ip("lo6"), port: 0 });
                for (u, dst, m) in [
                    (0u32, host_v4(1), mtu),
                    (1, host_v6(1), mtu),
                    (2, host_v4(1), mtu),
                    (2, ip("lo4"), lomtu),
                    (3, ip("lo6"), lomtu),
                ] {
                    let hdr = if dst.is_ipv6() { 48 } else { 28 };
                    let lim = (m as usize).saturating_sub(hdr);
                    let mut lens = vec![0usize, 1, lim.saturating_sub(1), lim, lim + 1, lim + 7];
                    if lim > 4000 {
                        lens = vec![0, 1, lim, lim + 1];
                    }
                    for len in lens {
                        w.apply(Op::UdpSend { u, len, ip: dst, port: 7777 });
                        w.apply(Op::Egress);
                    }
                }
                w.apply(Op::Stat);
            });
        }
    }
    // --- UDP paths: the limit is that of the DESTINATION's path (loopback_mtu iff the destination
    // is loopback; header size of the destination's family), whatever the socket is bound to.
    // Bind forms {wildcard, loopback, concrete external} x destinations {remote host, loopback, own
    // external address} x {v4, v6}, payloads straddling both limits, mtu != loopback_mtu both ways.
    for &(mtu, lomtu) in &[(1500u32, 600u32), (600, 1500), (1500, 65536), (90, 200), (200, 90), (48, 49), (49, 48)] {
        let cfg = Cfg { mtu, lomtu, ..Cfg::default() };
        let s = rng.next();
        o.case("udp_paths", s, &cfg, |w| {
            let binds: [(u32, IpAddr); 6] = [
                (0, ip("any4")),
                (1, ip("lo4")),
                (2, host_v4(0)),
                (3, ip("any6")),
                (4, ip("lo6")),
                (5, host_v6(0)),
            ];
            for (u, b) in binds {
                w.apply(Op::UdpBind { h: 0, u, ip: b, port: 0 });
            }
            for (u, b) in binds {
                let v6 = b.is_ipv6();
                let dsts = if v6 { [host_v6(1), ip("lo6"), host_v6(0)] } else { [host_v4(1), ip("lo4"), host_v4(0)] };
                let hdr = if v6 { 48usize } else { 28 };
                let la = (mtu as usize).saturating_sub(hdr);
                let lb = (lomtu as usize).saturating_sub(hdr);
                let mut lens = vec![0usize, 1];
                for l in [la, lb] {
                    if l < 5000 {
                        lens.extend([l.saturating_sub(1), l, l + 1]);
                    } else {
                        lens.extend([l, l + 1]);
                    }
                }
                lens.push((la + lb) / 2);
                lens.sort();
                lens.dedup();
                for dst in dsts {
                    for &len in &lens {
                        w.apply(Op::UdpSend { u, len, ip: dst, port: 7777 });
                    }
                    w.apply(Op::Egress);
                }
            }
            w.apply(Op::Stat);
        });
    }
}

// ------------------------------------------------------------------------------------------
// C13
// ------------------------------------------------------------------------------------------

fn eg(w: &mut World) {
    w.apply(Op::Egress);
}
fn deliver_all(w: &mut World) {
    let ids: Vec<u64> = w.wire.iter().map(|p| p.id).collect();
    for id in ids {
        w.apply(Op::Deliver { id });
    }
}
fn drop_all(w: &mut World) {
    let ids: Vec<u64> = w.wire.iter().map(|p| p.id).collect();
    for id in ids {
        w.apply(Op::Drop { id });
    }
}

/// The life of one connection as a list of steps; parking after step `p` leaves the two ends in a
/// known pair of handshake / close states (see NOTES.md for the table).
fn lifecycle(variant: u32, unread: bool) -> Vec<Box<dyn Fn(&mut World)>> {
    let mut v: Vec<Box<dyn Fn(&mut World)>> = Vec::new();
    v.push(Box::new(|w| {
        w.apply(Op::Listen { h: 1, l: 0, ip: host_v4(1), port: 9000 });
        w.apply(Op::Connect { h: 0, c: 0, s: 0, ip: host_v4(1), port: 9000 });
    }));
    v.push(Box::new(eg)); // SYN on the wire
    v.push(Box::new(deliver_all)); // child SynReceived
    v.push(Box::new(eg)); // SYN-ACK on the wire
    v.push(Box::new(|w| {
        deliver_all(w);
        w.apply(Op::CPoll { c: 0, s: 0 });
    })); // client Established
    v.push(Box::new(eg)); // handshake ACK on the wire
    v.push(Box::new(deliver_all)); // child Established, queued on the listener
    v.push(Box::new(|w| {
        w.apply(Op::Accept { l: 0, s: 1 });
    }));
    v.push(Box::new(|w| {
        w.apply(Op::Write { s: 0, data: bytes(5, 1) });
        eg(w);
        deliver_all(w);
    })); // data unread at the server
    v.push(Box::new(|w| {
        eg(w);
        deliver_all(w);
    }));
    if !unread {
        v.push(Box::new(|w| {
            w.apply(Op::Read { s: 1, n: 64 });
        }));
    }
    let (first, second) = if variant == 1 { (1u32, 0u32) } else { (0, 1) };
    if variant == 2 {
        // simultaneous close: both FINs on the wire before either is delivered
        v.push(Box::new(|w| {
            w.apply(Op::Shutdown { s: 0 });
            w.apply(Op::Shutdown { s: 1 });
            eg(w);
        }));
        v.push(Box::new(deliver_all)); // both Closing
        v.push(Box::new(|w| {
            eg(w);
            deliver_all(w);
        }));
    } else {
        v.push(Box::new(move |w| {
            w.apply(Op::Shutdown { s: first });
            eg(w);
        })); // FinWait1, FIN on the wire
        v.push(Box::new(deliver_all)); // peer CloseWait
        v.push(Box::new(|w| {
            eg(w);
            deliver_all(w);
        })); // FinWait2
        v.push(Box::new(move |w| {
            w.apply(Op::Shutdown { s: second });
            eg(w);
        })); // LastAck, FIN on the wire
        v.push(Box::new(deliver_all)); // first end Closed
        v.push(Box::new(|w| {
            eg(w);
            deliver_all(w);
        }));
    }
    v
}

fn act(w: &mut World, a: char) {
    match a {
        'C' => {
            if w.connecting.contains_key(&0) {
                w.apply(Op::CCancel { c: 0 });
            } else if w.streams.contains_key(&0) {
                w.apply(Op::SDrop { s: 0 });
            }
        }
        'S' => {
            if w.streams.contains_key(&1) {
                w.apply(Op::SDrop { s: 1 });
            }
        }
        'L' => {
            if w.listeners.contains_key(&0) {
                w.apply(Op::LDrop { l: 0 });
            }
        }
        'A' => {
            if w.listeners.contains_key(&0) && !w.streams.contains_key(&1) {
                w.apply(Op::Accept { l: 0, s: 1 });
            }
        }
        'e' => {
            eg(w);
            deliver_all(w);
        }
        'x' => {
            eg(w);
            drop_all(w);
        }
        _ => {}
    }
}

/// After the reclamation epilogue: later binds and connects on the same ports must behave as on a
/// fresh table.
fn probes(w: &mut World, cfg: &Cfg) {
    let r = w.apply(Op::Listen { h: 1, l: 50, ip: host_v4(1), port: 9000 })[0].clone();
    if r.starts_with("ok") {
        w.apply(Op::Connect { h: 0, c: 50, s: 50, ip: host_v4(1), port: 9000 });
        for _ in 0..3 {
            eg(w);
            deliver_all(w);
        }
        w.apply(Op::CPoll { c: 50, s: 50 });
        w.apply(Op::Accept { l: 50, s: 51 });
        for s in [50u32, 51] {
            if w.streams.contains_key(&s) {
                w.apply(Op::SDrop { s });
            }
        }
        if w.connecting.contains_key(&50) {
            w.apply(Op::CCancel { c: 50 });
        }
        w.apply(Op::LDrop { l: 50 });
        drain(w, cfg);
    }
    w.apply(Op::Stat);
}

pub fn c13(o: &mut Out, seed: u64, sc: &Scale) {
    let mut rng = Rng::new(seed ^ 0x13);
    let cfg = Cfg { backlog: 2, reclaim: true, ..Cfg::default() };
    // --- directed: park point × fate of the packets in flight × close actions.
    let seqs: &[&str] = &[
        "C", "S", "L", "CeS", "CSL", "LCS", "SeCeL", "LeC", "CL", "SC", "AeCS", "CxSxL", "LxCS", "CeLeS",
    ];
    for variant in 0..3u32 {
        for unread in [false, true] {
            let steps = lifecycle(variant, unread).len();
            for park in 1..=steps {
                for fate in 0..3u32 {
                    for (si, seq) in seqs.iter().enumerate() {
                        if !sc.thorough && (si + park + fate as usize) % 3 != 0 {
                            continue;
                        }
                        let s = rng.next();
                        o.case("directed", s, &cfg, |w| {
                            let lc = lifecycle(variant, unread);
                            for st in lc.iter().take(park) {
                                st(w);
                            }
                            match fate {
                                0 => deliver_all(w),
                                1 => drop_all(w),
                                _ => {}
                            }
                            for a in seq.chars() {
                                act(w, a);
                            }
                            epilogue_reclaim(w, &cfg, s);
                            probes(w, &cfg);
                        });
                    }
                }
            }
        }
    }
    // --- random walks over several concurrent connections.
    for _ in 0..sc.walks {
        let mut r = rng.fork();
        let s = r.next();
        let cfg = Cfg {
            backlog: r.range(1, 3) as usize,
            recvcap: *r.pick(&[4usize, 16, 65536]),
            sendcap: *r.pick(&[8usize, 65536]),
            mtu: *r.pick(&[44u32, 1500]),
            retxthr: *r.pick(&[1u32, 2, 3]),
            retxmax: *r.pick(&[2u32, 5]),
            reclaim: true,
            ..Cfg::default()
        };
        o.case("walk", s, &cfg, |w| {
            c13_walk(w, &cfg, &mut r);
            epilogue_reclaim(w, &cfg, s);
            probes(w, &cfg);
        });
    }
    // --- accept queue: several clients complete their handshakes (in a random order) before the
    // server accepts; more clients than the backlog; FIFO order and the backlog bound are checked.
    for i in 0..(sc.walks / 5).max(20) {
        let mut r = rng.fork();
        let s = r.next();
        let backlog = r.range(1, 4) as usize;
        let cfg = Cfg { backlog, reclaim: true, ..Cfg::default() };
        let n = backlog as u32 + r.range(0, 2) as u32;
        let lip = if i % 2 == 0 { host_v4(1) } else { ip("any4") };
        o.case("queue", s, &cfg, |w| {
            w.apply(Op::Listen { h: 1, l: 0, ip: lip, port: 9000 });
            for c in 0..n {
                w.apply(Op::Connect { h: 0, c, s: c, ip: host_v4(1), port: 9000 });
            }
            // handshake, delivering each round's packets in a random order
            for _ in 0..4 {
                eg(w);
                let mut ids: Vec<u64> = w.wire.iter().map(|p| p.id).collect();
                for i in (1..ids.len()).rev() {
                    let j = r.below(i as u64 + 1) as usize;
                    ids.swap(i, j);
                }
                for id in ids {
                    w.apply(Op::Deliver { id });
                }
                w.apply(Op::Stat);
            }
            for c in 0..n {
                if w.connecting.contains_key(&c) {
                    w.apply(Op::CPoll { c, s: c });
                }
            }
            // accept everything that is ready, then let the late-comers (SYN retransmits) in
            let mut next = 100u32;
            for _ in 0..3 {
                for _ in 0..(n + 1) {
                    if w.apply(Op::Accept { l: 0, s: next })[0].starts_with("ok") {
                        next += 1;
                    }
                }
                for _ in 0..4 {
                    eg(w);
                    deliver_all(w);
                }
                w.apply(Op::Stat);
                for c in 0..n {
                    if w.connecting.contains_key(&c) {
                        w.apply(Op::CPoll { c, s: c });
                    }
                }
            }
            epilogue_reclaim(w, &cfg, s);
            probes(w, &cfg);
        });
    }
    // --- orphans behind a closed window whose peer falls silent: small receive caps, more written
    // than the window takes, partial reads, every close order, then the network turns into a black
    // hole (after 0..2 loss-free rounds). Every timer of a closed socket must expire on its own.
    for recvcap in [1usize, 2, 4] {
        for (thr, max) in [(1u32, 1u32), (2, 1), (3, 2)] {
            for extra in [1usize, 5] {
                for reads in [0usize, 1] {
                    for order in 0..4u64 {
                        for free in 0..3u64 {
                            let cfg = Cfg { recvcap, retxthr: thr, retxmax: max, reclaim: true, ..Cfg::default() };
                            let s = order + 4 * 2 + 12 * free; // epilogue: close order, black hole, free rounds
                            o.case("orphan_zerowin", s, &cfg, |w| {
                                w.apply(Op::Listen { h: 1, l: 0, ip: host_v4(1), port: 9000 });
                                w.apply(Op::Connect { h: 0, c: 0, s: 0, ip: host_v4(1), port: 9000 });
                                for _ in 0..3 {
                                    eg(w);
                                    deliver_all(w);
                                }
                                w.apply(Op::CPoll { c: 0, s: 0 });
                                w.apply(Op::Accept { l: 0, s: 1 });
                                w.apply(Op::Write { s: 0, data: (0..(recvcap + extra) as u8).collect() });
                                for _ in 0..3 {
                                    eg(w);
                                    deliver_all(w);
                                }
                                if reads > 0 {
                                    w.apply(Op::Read { s: 1, n: reads });
                                }
                                w.apply(Op::Stat);
                                epilogue_reclaim(w, &cfg, s);
                            });
                        }
                    }
                }
            }
        }
    }
    // --- both wildcard listeners on one port (`0.0.0.0:p`, `[::]:p`); one of them is dropped at some
    // point of a handshake that belongs to the other one.
    for client_v6 in [false, true] {
        for drop_v6 in [false, true] {
            for when in 0..4u32 {
                let cfg = Cfg { reclaim: true, ..Cfg::default() };
                let s = (client_v6 as u64) + 2 * (drop_v6 as u64) + 4 * when as u64;
                o.case("dual_family", s, &cfg, |w| {
                    w.apply(Op::Listen { h: 1, l: 0, ip: ip("any4"), port: 9000 });
                    w.apply(Op::Listen { h: 1, l: 1, ip: ip("any6"), port: 9000 });
                    let dst = if client_v6 { host_v6(1) } else { host_v4(1) };
                    let dropped = if drop_v6 { 1 } else { 0 };
                    if when == 0 {
                        w.apply(Op::LDrop { l: dropped });
                    }
                    w.apply(Op::Connect { h: 0, c: 0, s: 0, ip: dst, port: 9000 });
                    eg(w);
                    deliver_all(w); // SYN
                    w.apply(Op::Stat);
                    if when == 1 {
                        w.apply(Op::LDrop { l: dropped });
                    }
                    for _ in 0..2 {
                        eg(w);
                        deliver_all(w);
                    }
                    w.apply(Op::Stat);
                    if when == 2 {
                        w.apply(Op::LDrop { l: dropped });
                    }
                    if w.connecting.contains_key(&0) {
                        let r = w.apply(Op::CPoll { c: 0, s: 0 });
                        // lossless handshake, the listener of the client's family is alive with room:
                        // the connect must not be refused (F-C13-5); a refusal is an extra OBS line
                        let mine = if client_v6 { 1 } else { 0 };
                        if r[0] == "err refused" && w.listeners.contains_key(&mine) {
                            w.lines.push("OBS xcheck refused-while-listening".into());
                        }
                    }
                    for l in 0..2u32 {
                        if w.listeners.contains_key(&l) {
                            w.apply(Op::Accept { l, s: 10 + l });
                        }
                    }
                    if when == 3 {
                        w.apply(Op::LDrop { l: dropped });
                    }
                    epilogue_reclaim(w, &cfg, s);
                });
            }
        }
    }
    // --- many sequential connections: ports and 4-tuples get reused.
    let n_seq = if sc.thorough { 20 } else { 4 };
    for k in 0..n_seq {
        let s = rng.next();
        let mut r = Rng::new(s);
        let cfg = Cfg { backlog: 1 + (k % 2) as usize, reclaim: true, ..Cfg::default() };
        let conns = if sc.thorough { 400 } else { 60 };
        o.case("reuse", s, &cfg, |w| {
            w.apply(Op::Listen { h: 1, l: 0, ip: if k % 2 == 0 { host_v4(1) } else { ip("any4") }, port: 9000 });
            for i in 0..conns {
                let (c, a, b) = (i as u32, 2 * i as u32 + 100, 2 * i as u32 + 101);
                w.apply(Op::Connect { h: 0, c, s: a, ip: host_v4(1), port: 9000 });
                for _ in 0..3 {
                    eg(w);
                    deliver_all(w);
                }
                w.apply(Op::CPoll { c, s: 0 });
                let acc = w.apply(Op::Accept { l: 0, s: b })[0].starts_with("ok");
                let mode = r.below(5);
                if w.streams.contains_key(&a) {
                    w.apply(Op::Write { s: a, data: bytes(3, i as u32) });
                    eg(w);
                    deliver_all(w);
                    match mode {
                        0 => {
                            // graceful, client first
                            w.apply(Op::Shutdown { s: a });
                        }
                        1 => {
                            if acc {
                                w.apply(Op::Read { s: b, n: 16 });
                                w.apply(Op::Shutdown { s: b });
                            }
                        }
                        _ => {}
                    }
                    eg(w);
                    deliver_all(w);
                    if mode == 3 && acc {
                        // server drops with unread data → RST
                        w.apply(Op::SDrop { s: b });
                        w.apply(Op::SDrop { s: a });
                    } else {
                        w.apply(Op::SDrop { s: a });
                        if acc {
                            if mode != 2 {
                                w.apply(Op::Read { s: b, n: 16 });
                            }
                            w.apply(Op::SDrop { s: b });
                        }
                    }
                } else if w.connecting.contains_key(&c) {
                    w.apply(Op::CCancel { c });
                }
                for _ in 0..4 {
                    eg(w);
                    deliver_all(w);
                }
                if i % 10 == 9 {
                    w.apply(Op::Stat);
                }
            }
            epilogue_reclaim(w, &cfg, s);
            probes(w, &cfg);
        });
    }
}

fn c13_walk(w: &mut World, cfg: &Cfg, r: &mut Rng) {
    let nl = r.range(1, 2) as u32;
    for l in 0..nl {
        let lip = if r.chance(1, 3) { ip("any4") } else { host_v4(1) };
        w.apply(Op::Listen { h: 1, l, ip: lip, port: 9000 + l as u16 });
    }
    let mut next_c = 0u32;
    let mut next_s = 100u32;
    let mut drops = 0usize;
    let steps = r.range(10, 60);
    for _ in 0..steps {
        let k = r.below(100);
        if k < 12 {
            // connect (sometimes to a port nobody listens on)
            let port = 9000 + r.below(3) as u16;
            let c = next_c;
            next_c += 1;
            w.apply(Op::Connect { h: 0, c, s: c, ip: host_v4(1), port });
        } else if k < 20 {
            let cs: Vec<u32> = w.connecting.keys().copied().collect();
            if !cs.is_empty() {
                let c = *r.pick(&cs);
                w.apply(Op::CPoll { c, s: 0 });
            }
        } else if k < 25 {
            let cs: Vec<u32> = w.connecting.keys().copied().collect();
            if !cs.is_empty() {
                let c = *r.pick(&cs);
                w.apply(Op::CCancel { c });
            }
        } else if k < 35 {
            let ls: Vec<u32> = w.listeners.keys().copied().collect();
            if !ls.is_empty() {
                let l = *r.pick(&ls);
                let s = next_s;
                if w.apply(Op::Accept { l, s })[0].starts_with("ok") {
                    next_s += 1;
                }
            }
        } else if k < 60 {
            let ss: Vec<u32> = w.streams.keys().copied().collect();
            if !ss.is_empty() {
                let s = *r.pick(&ss);
                match r.below(10) {
                    0..=2 => {
                        let n = r.range(1, 12) as usize;
                        w.apply(Op::Write { s, data: bytes(n, s) });
                    }
                    3..=5 => {
                        let n = r.range(1, 16) as usize;
                        if n % 2 == 1 {
                            w.apply(Op::Peek { s, n: n + 1 });
                        }
                        w.apply(Op::Read { s, n });
                    }
                    6..=7 => {
                        w.apply(Op::Shutdown { s });
                    }
                    _ => {
                        w.apply(Op::SDrop { s });
                    }
                }
            }
        } else if k < 63 {
            let ls: Vec<u32> = w.listeners.keys().copied().collect();
            if !ls.is_empty() {
                let l = *r.pick(&ls);
                w.apply(Op::LDrop { l });
            }
        } else if k < 77 {
            eg(w);
        } else if k < 80 {
            w.apply(Op::Stat);
        } else {
            // wire action on a random in-flight packet
            if !w.wire.is_empty() {
                let i = r.below(w.wire.len() as u64) as usize;
                let id = w.wire[i].id;
                if r.chance(1, 5) && drops < cfg.retxmax as usize {
                    drops += 1;
                    w.apply(Op::Drop { id });
                } else {
                    w.apply(Op::Deliver { id });
                }
            } else {
                eg(w);
            }
        }
    }
}

#[allow(dead_code)]
pub fn unused(_: &dyn Chooser) {}
