//! End-to-end runs through the crate's own fixtures (`fixture::ClientServer`, `fixture::lo`): real
//! tokio tasks, the crate's `Scheduler`, rule-driven loss and latency. The model does not replay
//! these (no K: `nok=1`); the C06 oracles (prefix, EOF honesty, liveness) are evaluated on the
//! application-level observations.

use std::cell::RefCell;
use std::rc::Rc;
use std::time::Duration;

use tokio::io::{AsyncReadExt, AsyncWriteExt};
use tokio::time::timeout;
use turmoil_net::fixture::{self, ClientServer};
use turmoil_net::shim::tokio::net::{TcpListener, TcpStream};
use turmoil_net::{KernelConfig, Packet, Transport, Verdict};

use crate::gen::bytes;
use crate::ops::{hex, host_v4, sa_token, Cfg};
use crate::prng::Rng;
use crate::Out;

type Log = Rc<RefCell<Vec<String>>>;

#[derive(Clone)]
struct Plan {
    a2b: Vec<u8>,
    b2a: Vec<u8>,
    wchunk: [usize; 2],
    rchunk: [usize; 2],
    shut: [bool; 2],
    /// per-operation patience in simulated milliseconds (= scheduler ticks)
    patience: u64,
}

fn err_kind(e: &std::io::Error) -> String {
    use std::io::ErrorKind as K;
    match e.kind() {
        K::ConnectionReset => "reset".into(),
        K::TimedOut => "timedout".into(),
        K::ConnectionRefused => "refused".into(),
        K::BrokenPipe => "brokenpipe".into(),
        K::NotConnected => "notconnected".into(),
        other => format!("other:{other:?}").to_lowercase(),
    }
}

/// Write everything, shut down if asked, read until EOF — every step with a patience limit; a step
/// that runs out of patience is logged as `pending` and ends the side's script.
async fn side(log: Log, host: &str, slot: u32, mut st: TcpStream, plan: Plan, me: usize) {
    let data = if me == 0 { plan.a2b.clone() } else { plan.b2a.clone() };
    let pat = Duration::from_millis(plan.patience);
    let mut off = 0;
    let mut write_ok = true;
    while off < data.len() {
        let end = (off + plan.wchunk[me].max(1)).min(data.len());
        let chunk = data[off..end].to_vec();
        // OP and OBS are logged together when the call completes: tasks interleave.
        let opl = format!("OP {host} write s{slot} {}", hex(&chunk));
        match timeout(pat, st.write(&chunk)).await {
            Ok(Ok(n)) => {
                log.borrow_mut().extend([opl, format!("OBS ok n={n}")]);
                off += n;
            }
            Ok(Err(e)) => {
                log.borrow_mut().extend([opl, format!("OBS err {}", err_kind(&e))]);
                write_ok = false;
                break;
            }
            Err(_) => {
                log.borrow_mut().extend([opl, "OBS pending".to_string()]);
                write_ok = false;
                break;
            }
        }
    }
    if write_ok && plan.shut[me] {
        let opl = format!("OP {host} shutdown s{slot}");
        match st.shutdown().await {
            Ok(()) => log.borrow_mut().extend([opl, "OBS ok".to_string()]),
            Err(e) => log.borrow_mut().extend([opl, format!("OBS err {}", err_kind(&e))]),
        }
    }
    // read until EOF (only expected if the peer shuts down), an error, or patience runs out
    let mut buf = vec![0u8; plan.rchunk[me].max(1)];
    loop {
        let opl = format!("OP {host} read s{slot} {}", buf.len());
        match timeout(pat, st.read(&mut buf)).await {
            Ok(Ok(0)) => {
                log.borrow_mut().extend([opl, "OBS ok data=-".to_string()]);
                break;
            }
            Ok(Ok(n)) => log.borrow_mut().extend([opl, format!("OBS ok data={}", hex(&buf[..n]))]),
            Ok(Err(e)) => {
                log.borrow_mut().extend([opl, format!("OBS err {}", err_kind(&e))]);
                break;
            }
            Err(_) => {
                log.borrow_mut().extend([opl, "OBS pending".to_string()]);
                break;
            }
        }
    }
    // keep the stream open: the other side may still be reading
    std::future::pending::<()>().await;
    drop(st);
}

async fn server(log: Log, plan: Plan, addr: std::net::SocketAddr, host: &'static str) {
    let opl = format!("OP {host} listen l0 {} {}", crate::ops::ip_token(addr.ip()), addr.port());
    let l = match TcpListener::bind(addr).await {
        Ok(l) => {
            log.borrow_mut().extend([opl, format!("OBS ok port={}", addr.port())]);
            l
        }
        Err(e) => {
            log.borrow_mut().extend([opl, format!("OBS err {}", err_kind(&e))]);
            return;
        }
    };
    let (st, peer) = match l.accept().await {
        Ok(x) => x,
        Err(_) => return,
    };
    let lo = st.local_addr().map(sa_token).unwrap_or_default();
    log.borrow_mut().extend([format!("OP {host} accept l0 s1"), format!("OBS ok local={lo} peer={}", sa_token(peer))]);
    side(log, host, 1, st, plan, 1).await;
    drop(l);
}

async fn client(log: Log, plan: Plan, addr: std::net::SocketAddr, host: &'static str) -> bool {
    let opl = format!("OP {host} connect c0 s0 {} {}", crate::ops::ip_token(addr.ip()), addr.port());
    let st = match timeout(Duration::from_millis(plan.patience), TcpStream::connect(addr)).await {
        Ok(Ok(st)) => st,
        Ok(Err(e)) => {
            log.borrow_mut().extend([opl, format!("OBS err {}", err_kind(&e))]);
            return false;
        }
        Err(_) => {
            log.borrow_mut().extend([opl, "OBS pending".to_string()]);
            return false;
        }
    };
    let lo = st.local_addr().map(sa_token).unwrap_or_default();
    let pe = st.peer_addr().map(sa_token).unwrap_or_default();
    log.borrow_mut().extend([opl, format!("OBS ok local={lo} peer={pe}")]);
    // the client's script ends when its reads end; give the server the same patience afterwards
    let l2 = log.clone();
    let p2 = plan.clone();
    let _ = timeout(Duration::from_millis(4 * plan.patience + 50), side(l2, host, 0, st, p2, 0)).await;
    true
}

fn kcfg(cfg: &Cfg) -> KernelConfig {
    KernelConfig::default()
        .mtu(cfg.mtu)
        .loopback_mtu(cfg.lomtu)
        .send_buf_cap(cfg.sendcap)
        .recv_buf_cap(cfg.recvcap)
        .default_backlog(cfg.backlog)
        .retx_threshold(cfg.retxthr)
        .retx_max(cfg.retxmax)
}

fn occupies(p: &Packet) -> bool {
    match &p.payload {
        Transport::Tcp(s) => !s.payload.is_empty() || s.flags.syn || s.flags.fin,
        _ => false,
    }
}

pub fn run(o: &mut Out, seed: u64, cases: u64) {
    let mut rng = Rng::new(seed ^ 0xf1);
    for i in 0..cases {
        let mut r = rng.fork();
        let s = r.next();
        let lo = i % 4 == 3;
        let mss = *r.pick(&[4u32, 16, 100, 1460]);
        let cfg = Cfg {
            mtu: if lo { 1500 } else { 40 + mss },
            lomtu: if lo { 40 + mss } else { 65536 },
            ..Cfg::default()
        };
        let max_drops = r.range(0, 3) as usize; // < retx_max (5), leaves room for holds
        let max_hold = r.range(0, 2); // ms = scheduler ticks; 2·2 < (5−3)·3
        let plan = Plan {
            a2b: bytes(*r.pick(&[0usize, 1, 9, 40, 200, 3000]), 3),
            b2a: bytes(*r.pick(&[0usize, 1, 17, 120, 2000]), 5),
            wchunk: [*r.pick(&[1usize, 7, 64, 4096]), *r.pick(&[3usize, 64, 4096])],
            rchunk: [*r.pick(&[1usize, 16, 4096]), *r.pick(&[2usize, 64, 4096])],
            shut: [true, r.chance(3, 4)],
            patience: 400,
        };
        let log: Log = Rc::new(RefCell::new(Vec::new()));
        let (lg1, lg2, p1, p2) = (log.clone(), log.clone(), plan.clone(), plan.clone());
        let mut rr = r.fork();
        let drops = Rc::new(RefCell::new(0usize));
        let d2 = drops.clone();
        let res = std::panic::catch_unwind(std::panic::AssertUnwindSafe(|| {
            if lo {
                let addr = std::net::SocketAddr::new("127.0.0.1".parse().unwrap(), 9000);
                fixture::lo_with_config(kcfg(&cfg), async move {
                    tokio::task::spawn_local(server(lg1, p1, addr, "h0"));
                    client(lg2, p2, addr, "h0").await
                })
            } else {
                let addr = std::net::SocketAddr::new(host_v4(1), 9000);
                ClientServer::with_config(kcfg(&cfg))
                    .server(vec![host_v4(1)], server(lg1, p1, addr, "h1"))
                    .run(vec![host_v4(0)], async move {
                        // loss only on packets that occupy sequence space (they are retransmitted):
                        // pure ACK loss is the known finding F-C06-1 and is exercised elsewhere
                        turmoil_net::rule(move |p: &Packet| {
                            if occupies(p) && *d2.borrow() < max_drops && rr.chance(1, 6) {
                                *d2.borrow_mut() += 1;
                                return Verdict::Drop;
                            }
                            let h = rr.below(max_hold + 1);
                            if h == 0 {
                                Verdict::Pass
                            } else {
                                Verdict::Deliver(Duration::from_millis(h))
                            }
                        })
                        .forget();
                        client(lg2, p2, addr, "h0").await
                    })
            }
        }));
        let cfg_line = format!(
            "{} nok=1 fixture=1 drops={} hold={}",
            cfg.line().replace("live=0", "live=1"),
            drops.borrow(),
            max_hold
        );
        let panic = res.err().map(|_| "fixture".to_string());
        let lines = log.borrow().clone();
        o.raw_case(if lo { "fixture_lo" } else { "fixture_cs" }, s, &cfg_line, &lines, panic);
    }
}
