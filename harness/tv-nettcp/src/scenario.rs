//! Scripted transfers with "greedy" applications and an adversarial wire.
//!
//! A transfer is one connection (client on `ch`, server on `sh`, possibly the same host over
//! loopback). Every round each application does what it can (poll connect / accept, write the next
//! chunk, shut down once everything is written, read in chunks), then `wire egress` runs and a
//! [`Chooser`] decides per in-flight packet: deliver now / hold / drop (/ duplicate).

use std::net::IpAddr;

use crate::ops::{Cfg, Op};
use crate::prng::Rng;
use crate::world::World;

/// Wire decisions: 0 deliver now, 1 hold one more round, 2 drop, 3 duplicate (deliver a copy, keep it).
pub trait Chooser {
    /// Pick one of the available option codes (`opts[0] == 0`, "deliver now").
    fn choose(&mut self, opts: &[u8]) -> u8;
    /// Shuffle delivery order? (random walks only)
    fn shuffle(&mut self, _ids: &mut Vec<u64>) {}
}

/// Replays a fixed decision prefix, then always answers 0. Records arities so the caller can
/// enumerate the decision tree depth-first by re-execution.
pub struct PathChooser {
    pub path: Vec<u8>,
    pub arity: Vec<u8>,
    pub pos: usize,
    pub depth: usize,
}

impl PathChooser {
    pub fn new(path: Vec<u8>, depth: usize) -> Self {
        PathChooser { path, arity: Vec::new(), pos: 0, depth }
    }
    /// Next path in DFS order, or `None` when the tree is exhausted.
    pub fn next_path(&self) -> Option<Vec<u8>> {
        let mut p: Vec<u8> = (0..self.arity.len())
            .map(|i| self.path.get(i).copied().unwrap_or(0))
            .collect();
        while let Some(last) = p.pop() {
            let i = p.len();
            if last + 1 < self.arity[i] {
                p.push(last + 1);
                return Some(p);
            }
        }
        None
    }
}

impl Chooser for PathChooser {
    fn choose(&mut self, opts: &[u8]) -> u8 {
        if self.pos >= self.depth {
            return 0;
        }
        let c = self.path.get(self.pos).copied().unwrap_or(0);
        self.arity.push(opts.len() as u8);
        self.pos += 1;
        opts[(c as usize).min(opts.len() - 1)]
    }
}

pub struct RandChooser {
    pub rng: Rng,
    /// Per-mille probabilities of hold / drop / dup (the rest: deliver).
    pub p_hold: u64,
    pub p_drop: u64,
    pub p_dup: u64,
    pub p_shuffle: u64,
}

impl Chooser for RandChooser {
    fn choose(&mut self, opts: &[u8]) -> u8 {
        let r = self.rng.below(1000);
        let c = if r < self.p_hold {
            1
        } else if r < self.p_hold + self.p_drop {
            2
        } else if r < self.p_hold + self.p_drop + self.p_dup {
            3
        } else {
            0
        };
        if opts.contains(&c) {
            c
        } else {
            0
        }
    }
    fn shuffle(&mut self, ids: &mut Vec<u64>) {
        if self.rng.below(1000) < self.p_shuffle {
            for i in (1..ids.len()).rev() {
                let j = self.rng.below(i as u64 + 1) as usize;
                ids.swap(i, j);
            }
        }
    }
}

#[derive(Debug, Clone)]
pub struct Side {
    pub data: Vec<u8>,
    pub wchunk: usize,
    pub rchunk: usize,
    pub reads_per_round: usize,
    pub writes_per_round: usize,
    pub shutdown: bool,
    /// Round from which this side starts reading (models a slow reader).
    pub read_from_round: usize,
}

#[derive(Debug, Clone)]
pub struct Xfer {
    pub cfg: Cfg,
    pub ch: usize,
    pub sh: usize,
    pub listen_ip: IpAddr,
    pub connect_ip: IpAddr,
    pub port: u16,
    pub sides: [Side; 2],
    pub stat_every_op: bool,
    /// Wire policy.
    pub max_drops: usize,
    pub max_hold: u32,
    pub allow_dup: bool,
    /// Rounds in which the chooser is *not* consulted (everything delivered): the handshake of
    /// the `exh_data` family.
    pub free_rounds: usize,
    pub max_rounds: usize,
}

#[derive(Debug, Default, Clone)]
pub struct SideState {
    pub written: usize,
    pub shut_done: bool,
    pub eof: bool,
    pub failed: bool,
    pub read: usize,
}

pub struct XferResult {
    pub drops: usize,
    pub rounds: usize,
    pub quiescent: bool,
    pub st: [SideState; 2],
    pub connected: bool,
    pub accepted: bool,
}

fn app(w: &mut World, x: &Xfer, i: usize, slot: u32, st: &mut SideState, round: usize) -> bool {
    let sd = &x.sides[i];
    let mut progress = false;
    let stat = |w: &mut World| {
        if x.stat_every_op {
            w.apply(Op::Stat);
        }
    };
    if !st.failed {
        let mut k = 0;
        while st.written < sd.data.len() && k < sd.writes_per_round {
            let end = (st.written + sd.wchunk.max(1)).min(sd.data.len());
            let r = w.apply(Op::Write { s: slot, data: sd.data[st.written..end].to_vec() })[0].clone();
            stat(w);
            if let Some(n) = r.strip_prefix("ok n=") {
                st.written += n.parse::<usize>().unwrap_or(0);
                progress = true;
            } else if r == "pending" {
                break;
            } else {
                st.failed = true;
                break;
            }
            k += 1;
        }
        if !st.failed && st.written == sd.data.len() && sd.shutdown && !st.shut_done {
            let r = w.apply(Op::Shutdown { s: slot })[0].clone();
            stat(w);
            st.shut_done = true;
            progress = true;
            if r != "ok" {
                st.failed = true;
            }
        }
    }
    if !st.eof && !st.failed && round >= sd.read_from_round {
        for i in 0..sd.reads_per_round {
            // a look-ahead that must not consume (and must report the same abort / EOF as the read)
            if (round + slot as usize + i) % 3 == 0 {
                w.apply(Op::Peek { s: slot, n: sd.rchunk.max(1) + (round % 2) });
            }
            let r = w.apply(Op::Read { s: slot, n: sd.rchunk.max(1) })[0].clone();
            stat(w);
            if r == "ok data=-" {
                st.eof = true;
                progress = true;
                break;
            } else if let Some(d) = r.strip_prefix("ok data=") {
                st.read += d.len() / 2;
                progress = true;
            } else if r == "pending" {
                break;
            } else {
                st.failed = true;
                break;
            }
        }
    }
    progress
}

/// Run one transfer. Slots: listener `l0`, connect future `c0`, client stream `s0`, server
/// stream `s1`. Handles are left open for the caller (epilogue / further ops).
pub fn run_xfer(w: &mut World, x: &Xfer, ch: &mut dyn Chooser) -> XferResult {
    let quiet_needed = x.cfg.retxthr as usize + 2;
    let mut res = XferResult {
        drops: 0,
        rounds: 0,
        quiescent: false,
        st: [SideState::default(), SideState::default()],
        connected: false,
        accepted: false,
    };
    w.apply(Op::Listen { h: x.sh, l: 0, ip: x.listen_ip, port: x.port });
    let r = w.apply(Op::Connect { h: x.ch, c: 0, s: 0, ip: x.connect_ip, port: x.port })[0].clone();
    let mut connect_failed = false;
    if r.starts_with("ok") {
        res.connected = true;
    } else if r != "pending" {
        connect_failed = true;
    }
    let mut quiet = 0usize;
    for round in 0..x.max_rounds {
        res.rounds = round + 1;
        let mut progress = false;
        // client
        if !res.connected && !connect_failed {
            let r = w.apply(Op::CPoll { c: 0, s: 0 })[0].clone();
            if r.starts_with("ok") {
                res.connected = true;
                progress = true;
            } else if r != "pending" {
                connect_failed = true;
                progress = true;
            }
        }
        if res.connected {
            let mut st = res.st[0].clone();
            progress |= app(w, x, 0, 0, &mut st, round);
            res.st[0] = st;
        }
        // server
        if !res.accepted {
            let r = w.apply(Op::Accept { l: 0, s: 1 })[0].clone();
            if r.starts_with("ok") {
                res.accepted = true;
                progress = true;
            }
        }
        if res.accepted {
            let mut st = res.st[1].clone();
            progress |= app(w, x, 1, 1, &mut st, round);
            res.st[1] = st;
        }
        // wire
        let emitted = w.apply(Op::Egress)[0].clone() != "none";
        let mut ids: Vec<u64> = w.wire.iter().map(|p| p.id).collect();
        let free = round < x.free_rounds;
        if !free {
            ch.shuffle(&mut ids);
        }
        for id in ids {
            let held = w.wire.iter().find(|p| p.id == id).map(|p| p.held).unwrap_or(0);
            let mut opts = vec![0u8]; // deliver
            if !free {
                if held < x.max_hold {
                    opts.push(1);
                }
                if res.drops < x.max_drops {
                    opts.push(2);
                }
                if x.allow_dup {
                    opts.push(3);
                }
            }
            let c = if opts.len() == 1 { 0 } else { ch.choose(&opts) };
            match c {
                0 => {
                    w.apply(Op::Deliver { id });
                }
                1 => {
                    if let Some(p) = w.wire.iter_mut().find(|p| p.id == id) {
                        p.held += 1;
                    }
                }
                2 => {
                    w.apply(Op::Drop { id });
                    res.drops += 1;
                }
                _ => {
                    w.apply(Op::Dup { id });
                }
            }
            if x.stat_every_op {
                w.apply(Op::Stat);
            }
        }
        let late = x.sides.iter().map(|s| s.read_from_round).max().unwrap_or(0);
        if emitted || progress || !w.wire.is_empty() || round < late {
            quiet = 0;
        } else {
            quiet += 1;
            if quiet >= quiet_needed {
                res.quiescent = true;
                break;
            }
        }
    }
    res
}

/// Reclamation epilogue (C13): drop every handle, then run loss-free rounds until nothing moves
/// for `quiet` consecutive rounds (bounded by `max_rounds`), then `stat`.
pub fn epilogue_reclaim(w: &mut World, cfg: &Cfg, order: u64) {
    let cs: Vec<u32> = w.connecting.keys().copied().collect();
    let ss: Vec<u32> = w.streams.keys().copied().collect();
    let ls: Vec<u32> = w.listeners.keys().copied().collect();
    let drop_l = |w: &mut World| {
        for l in &ls {
            w.apply(Op::LDrop { l: *l });
        }
    };
    if order % 2 == 0 {
        drop_l(w);
    }
    for c in cs {
        w.apply(Op::CCancel { c });
    }
    if order % 4 < 2 {
        for s in ss {
            w.apply(Op::SDrop { s });
        }
    } else {
        for s in ss.into_iter().rev() {
            w.apply(Op::SDrop { s });
        }
    }
    if order % 2 == 1 {
        drop_l(w);
    }
    if (order / 4) % 3 == 2 {
        blackhole(w, cfg, (order / 12) % 3);
    } else {
        drain(w, cfg);
    }
    w.apply(Op::Stat);
}

/// The other way a network goes quiet: after `free` loss-free rounds every packet is lost, for ever.
/// `6 * reclaim_bound` rounds after the last handle was closed the tables must be empty all the same
/// (the second disjunct of the reclamation oracle): every timer of an application-closed socket has to
/// expire without help from the peer.
pub fn blackhole(w: &mut World, cfg: &Cfg, free: u64) {
    for i in 0..(6 * reclaim_bound(cfg) + 2) {
        w.apply(Op::Egress);
        let ids: Vec<u64> = w.wire.iter().map(|p| p.id).collect();
        for id in ids {
            if (i as u64) < free {
                w.apply(Op::Deliver { id });
            } else {
                w.apply(Op::Drop { id });
            }
        }
    }
}

/// Bound on egress rounds after which every entry of a fully closed connection must be gone
/// (mirrors `Spec.reclaimBound`).
pub fn reclaim_bound(cfg: &Cfg) -> usize {
    (cfg.retxthr as usize + 1) * (cfg.retxmax as usize + 2) + 4
}

/// Loss-free rounds (egress, deliver everything in order) until the network has been silent — nothing
/// emitted, nothing on the wire — for `reclaim_bound` consecutive rounds: longer than any retransmit
/// or orphan timer can stay quiet.
pub fn drain(w: &mut World, cfg: &Cfg) {
    let quiet_needed = reclaim_bound(cfg);
    let mut quiet = 0;
    for _ in 0..(8 * quiet_needed) {
        let emitted = w.apply(Op::Egress)[0].clone() != "none";
        let ids: Vec<u64> = w.wire.iter().map(|p| p.id).collect();
        let had = !ids.is_empty();
        for id in ids {
            w.apply(Op::Deliver { id });
        }
        if emitted || had {
            quiet = 0;
        } else {
            quiet += 1;
            if quiet >= quiet_needed {
                break;
            }
        }
    }
}
