//! Binding of the op alphabet to the real `turmoil-net` crate. Everything is driven synchronously
//! through the public API: shim futures are polled once with a no-op waker, and the harness is the
//! wire (`egress_all` / `deliver`).

use std::collections::BTreeMap;
use std::future::Future;
use std::io;
use std::net::{IpAddr, SocketAddr};
use std::pin::Pin;
use std::task::{Context, Poll, Waker};

use tokio::io::{AsyncRead, AsyncWrite, ReadBuf};
use turmoil_net::shim::tokio::net::tcp::OwnedReadHalf;
use turmoil_net::shim::tokio::net::{TcpListener, TcpStream, UdpSocket};
use turmoil_net::{EnterGuard, HostId, KernelConfig, Net, NetstatState, Packet, Proto, Transport};

use crate::ops::{hex, host_name, host_v4, host_v6, ip_token, sa_token, Cfg, Op, HOSTS};

/// The same address handed over in one of the forms `ToSocketAddrs` takes: SocketAddr | "ip:port" |
/// (IpAddr, u16) | (&str, u16) | String | SocketAddrV4/V6 | (Ipv4Addr/Ipv6Addr, u16).
macro_rules! with_addr_form {
    ($rule:expr, $ip:expr, $port:expr, |$a:ident| $body:expr) => {{
        let (ip, port): (IpAddr, u16) = ($ip, $port);
        let sa = SocketAddr::new(ip, port);
        let form = $rule % 7;
        ep(["addr:SocketAddr", "addr:String", "addr:(IpAddr,u16)", "addr:(String,u16)", "addr:&str", "addr:SocketAddrV4/V6", "addr:(Ipv4Addr/Ipv6Addr,u16)"][form as usize]);
        match form {
            0 => { let $a = sa; $body }
            1 => { let $a = format!("{}:{port}", host_str(ip, $rule / 7, true)); $body }
            2 => { let $a = (ip, port); $body }
            3 => { let $a = (host_str(ip, $rule / 7, false), port); $body }
            4 => {
                let $a: &'static str = Box::leak(format!("{}:{port}", host_str(ip, $rule / 7, true)).into_boxed_str());
                $body
            }
            5 => match sa {
                SocketAddr::V4(v) => { let $a = v; $body }
                SocketAddr::V6(v) => { let $a = v; $body }
            },
            _ => match ip {
                IpAddr::V4(v) => { let $a = (v, port); $body }
                IpAddr::V6(v) => { let $a = (v, port); $body }
            },
        }
    }};
}

/// The host part of a string address: the DNS name when there is one and `pick` is odd, else the
/// literal (v6 literals in brackets).
fn host_str(ip: IpAddr, pick: u64, bracket: bool) -> String {
    match crate::ops::name_of(ip) {
        Some(n) if pick % 2 == 1 => {
            ep("addr:by-name");
            n
        }
        _ => match ip {
            IpAddr::V4(v) => v.to_string(),
            IpAddr::V6(v) if bracket => format!("[{v}]"),
            IpAddr::V6(v) => v.to_string(),
        },
    }
}

type ConnFut = Pin<Box<dyn Future<Output = io::Result<TcpStream>>>>;

/// A stream handle as the application holds it. `ReadOnly` is what is left after the owned write
/// half was dropped (which shuts the write side down): every op still reaches the socket through
/// `AsRef<TcpStream>`.
pub enum Handle {
    Whole(TcpStream),
    ReadOnly(OwnedReadHalf),
}

thread_local! {
    static EP: std::cell::RefCell<BTreeMap<&'static str, u64>> = const { std::cell::RefCell::new(BTreeMap::new()) };
}

fn ep(name: &'static str) {
    EP.with(|m| *m.borrow_mut().entry(name).or_insert(0) += 1);
}

/// Entry-point counters collected since the last call.
pub fn take_ep() -> BTreeMap<&'static str, u64> {
    EP.with(|m| std::mem::take(&mut *m.borrow_mut()))
}

/// Poll a future exactly once; a pending future is dropped (cancelled).
fn poll_once<T>(fut: impl Future<Output = T>) -> Poll<T> {
    let mut fut = Box::pin(fut);
    fut.as_mut().poll(&mut cx())
}

fn io_res<T>(p: Poll<io::Result<T>>) -> io::Result<T> {
    match p {
        Poll::Ready(r) => r,
        Poll::Pending => Err(io::ErrorKind::WouldBlock.into()),
    }
}

/// A packet on the wire, with the few fields generators look at.
#[derive(Debug, Clone)]
pub struct WirePkt {
    pub id: u64,
    pub pkt: Packet,
    pub held: u32,
}

impl WirePkt {
    pub fn is_pure_ack(&self) -> bool {
        match &self.pkt.payload {
            Transport::Tcp(s) => {
                s.flags.ack && !s.flags.syn && !s.flags.fin && !s.flags.rst && s.payload.is_empty()
            }
            _ => false,
        }
    }
}

pub struct World {
    guard: Option<EnterGuard>,
    hosts: Vec<HostId>,
    pub listeners: BTreeMap<u32, (usize, TcpListener)>,
    pub streams: BTreeMap<u32, (usize, Handle)>,
    /// Counts ops per kind: part of the deterministic rule that picks among equivalent entry points.
    nth: u64,
    pub connecting: BTreeMap<u32, (usize, u32, ConnFut)>,
    pub udps: BTreeMap<u32, (usize, UdpSocket)>,
    pub wire: Vec<WirePkt>,
    next_pkt: u64,
    /// Trace lines (OP / OBS) of the current case.
    pub lines: Vec<String>,
    /// Observations of the most recent op.
    pub last: Vec<String>,
    pub nops: usize,
}

fn err_kind(e: &io::Error) -> String {
    use io::ErrorKind as K;
    if e.raw_os_error() == Some(90) {
        return "msgsize".into();
    }
    match e.kind() {
        K::NotFound => "notfound".into(),
        K::NotConnected => "notconnected".into(),
        K::BrokenPipe => "brokenpipe".into(),
        K::ConnectionReset => "reset".into(),
        K::TimedOut => "timedout".into(),
        K::ConnectionRefused => "refused".into(),
        K::AddrInUse => "addrinuse".into(),
        K::AddrNotAvailable => "addrnotavailable".into(),
        K::InvalidInput => "invalidinput".into(),
        K::WouldBlock => "pending".into(),
        other => format!("other:{other:?}").to_lowercase(),
    }
}

fn res_err(e: &io::Error) -> String {
    let k = err_kind(e);
    if k == "pending" {
        k
    } else {
        format!("err {k}")
    }
}

fn cx() -> Context<'static> {
    Context::from_waker(Waker::noop())
}

fn ns_state(s: NetstatState) -> &'static str {
    match s {
        NetstatState::Listen => "LISTEN",
        NetstatState::SynSent => "SYN_SENT",
        NetstatState::SynReceived => "SYN_RCVD",
        NetstatState::Established => "ESTABLISHED",
        NetstatState::FinWait1 => "FIN_WAIT1",
        NetstatState::FinWait2 => "FIN_WAIT2",
        NetstatState::CloseWait => "CLOSE_WAIT",
        NetstatState::LastAck => "LAST_ACK",
        NetstatState::Closing => "CLOSING",
        NetstatState::Closed => "CLOSED",
    }
}

pub fn pkt_obs(id: u64, p: &Packet) -> String {
    match &p.payload {
        Transport::Tcp(s) => {
            let mut fl = String::new();
            if s.flags.syn {
                fl.push('S');
            }
            if s.flags.ack {
                fl.push('A');
            }
            if s.flags.fin {
                fl.push('F');
            }
            if s.flags.rst {
                fl.push('R');
            }
            if s.flags.psh {
                fl.push('P');
            }
            if s.flags.urg {
                fl.push('U');
            }
            if fl.is_empty() {
                fl.push('-');
            }
            format!(
                "pkt {id} {}:{}>{}:{} seq={} ack={} fl={fl} win={} len={} data={}",
                ip_token(p.src),
                s.src_port,
                ip_token(p.dst),
                s.dst_port,
                s.seq,
                s.ack,
                s.window,
                s.payload.len(),
                hex(&s.payload)
            )
        }
        Transport::Udp(d) => format!(
            "udp {id} {}:{}>{}:{} len={}",
            ip_token(p.src),
            d.src_port,
            ip_token(p.dst),
            d.dst_port,
            d.payload.len()
        ),
    }
}

impl World {
    pub fn new(cfg: &Cfg) -> World {
        let kc = KernelConfig::default()
            .mtu(cfg.mtu)
            .loopback_mtu(cfg.lomtu)
            .send_buf_cap(cfg.sendcap)
            .recv_buf_cap(cfg.recvcap)
            .default_backlog(cfg.backlog)
            .retx_threshold(cfg.retxthr)
            .retx_max(cfg.retxmax);
        let mut net = Net::with_config(kc);
        let mut hosts = Vec::new();
        for h in 0..HOSTS {
            // by name (v4: allocated by the crate's DNS, must be the address the trace calls h<h>v4)
            // and by literal (v6)
            hosts.push(net.add_host(vec![host_name(h), host_v6(h).to_string()]));
            assert_eq!(net.lookup(&host_name(h)), host_v4(h), "DNS allocation order");
        }
        let guard = net.enter();
        World {
            guard: Some(guard),
            hosts,
            listeners: BTreeMap::new(),
            streams: BTreeMap::new(),
            // start from a hash of the configuration so that cases with the same op skeleton still
            // spread over the entry points (deterministic: the replay of a case picks the same ones)
            nth: cfg.line().bytes().fold(0xcbf29ce484222325u64, |h, b| (h ^ b as u64).wrapping_mul(0x100000001b3)) % 9973,
            connecting: BTreeMap::new(),
            udps: BTreeMap::new(),
            wire: Vec::new(),
            next_pkt: 0,
            lines: Vec::new(),
            last: Vec::new(),
            nops: 0,
        }
    }

    fn cur(&self, h: usize) {
        turmoil_net::set_current(self.hosts[h]);
    }

    pub fn actor(&self, op: &Op) -> String {
        let h = match op {
            Op::Listen { h, .. } | Op::Connect { h, .. } | Op::UdpBind { h, .. } => Some(*h),
            Op::LDrop { l } | Op::Accept { l, .. } => self.listeners.get(l).map(|x| x.0),
            Op::CPoll { c, .. } | Op::CCancel { c } => self.connecting.get(c).map(|x| x.0),
            Op::Write { s, .. }
            | Op::Read { s, .. }
            | Op::Peek { s, .. }
            | Op::Shutdown { s }
            | Op::SDrop { s } => self.streams.get(s).map(|x| x.0),
            Op::UdpSend { u, .. } => self.udps.get(u).map(|x| x.0),
            Op::Egress | Op::Deliver { .. } | Op::Drop { .. } | Op::Dup { .. } => {
                return "wire".into()
            }
            Op::Stat => return "ctl".into(),
        };
        match h {
            Some(h) => format!("h{h}"),
            None => "h?".into(),
        }
    }

    /// Apply one op to the implementation, log `OP` + `OBS` lines, return the observations.
    pub fn apply(&mut self, op: Op) -> &[String] {
        // `cpoll` names the stream slot the pending connect resolves to.
        let op = match op {
            Op::CPoll { c, .. } => Op::CPoll { c, s: self.connecting.get(&c).map(|x| x.1).unwrap_or(0) },
            o => o,
        };
        let line = format!("OP {} {}", self.actor(&op), op.body());
        self.lines.push(line);
        self.nops += 1;
        let obs = self.exec(op);
        for o in &obs {
            self.lines.push(format!("OBS {o}"));
        }
        self.last = obs;
        &self.last
    }

    fn settle(&mut self, c: u32, h: usize, s: u32, mut fut: ConnFut) -> Vec<String> {
        self.cur(h);
        match fut.as_mut().poll(&mut cx()) {
            Poll::Pending => {
                self.connecting.insert(c, (h, s, fut));
                vec!["pending".into()]
            }
            Poll::Ready(Ok(mut st)) => {
                let l = st.local_addr().map(sa_token).unwrap_or_else(|e| res_err(&e));
                let p = st.peer_addr().map(sa_token).unwrap_or_else(|e| res_err(&e));
                let mut obs = vec![format!("ok local={l} peer={p}")];
                obs.extend(Self::xcheck_stream(&mut st, s));
                self.streams.insert(s, (h, Handle::Whole(st)));
                obs
            }
            Poll::Ready(Err(e)) => vec![res_err(&e)],
        }
    }

    fn exec(&mut self, op: Op) -> Vec<String> {
        match op {
            Op::Listen { h, l, ip, port } => {
                self.cur(h);
                self.nth += 1;
                let r = with_addr_form!(l as u64 + self.nth, ip, port, |a| poll_once(TcpListener::bind(a)));
                match r {
                    Poll::Ready(Ok(li)) => {
                        let p = li.local_addr().map(|a| a.port()).unwrap_or(0);
                        let mut obs = vec![format!("ok port={p}")];
                        if l % 2 == 1 {
                            let ttl = 3 + l % 7;
                            if li.set_ttl(ttl).is_err() || li.ttl().ok() != Some(ttl) {
                                obs.push("xcheck listener-ttl".into());
                            }
                            if li.set_ttl(300).is_ok() {
                                obs.push("xcheck listener-ttl-range".into());
                            }
                        }
                        self.listeners.insert(l, (h, li));
                        obs
                    }
                    Poll::Ready(Err(e)) => vec![res_err(&e)],
                    Poll::Pending => vec!["pending".into()],
                }
            }
            Op::LDrop { l } => match self.listeners.remove(&l) {
                Some((h, li)) => {
                    self.cur(h);
                    drop(li);
                    vec!["ok".into()]
                }
                None => vec!["badop".into()],
            },
            Op::Connect { h, c, s, ip, port } => {
                self.cur(h);
                self.nth += 1;
                let fut: ConnFut = with_addr_form!(c as u64 + self.nth, ip, port, |a| Box::pin(async move {
                    TcpStream::connect(a).await
                }));
                self.settle(c, h, s, fut)
            }
            Op::CPoll { c, .. } => match self.connecting.remove(&c) {
                Some((h, s, fut)) => self.settle(c, h, s, fut),
                None => vec!["badop".into()],
            },
            Op::CCancel { c } => match self.connecting.remove(&c) {
                Some((h, _, fut)) => {
                    self.cur(h);
                    drop(fut);
                    vec!["ok".into()]
                }
                None => vec!["badop".into()],
            },
            Op::Accept { l, s } => {
                let Some((h, li)) = self.listeners.get(&l) else {
                    return vec!["badop".into()];
                };
                let h = *h;
                self.cur(h);
                // equivalent entry points: poll_accept | accept() polled once
                self.nth += 1;
                let r = if (s as u64 + self.nth) % 2 == 0 {
                    ep("TcpListener::poll_accept");
                    li.poll_accept(&mut cx())
                } else {
                    ep("TcpListener::accept");
                    poll_once(li.accept())
                };
                match r {
                    Poll::Ready(Ok((mut st, peer))) => {
                        let lo = st.local_addr().map(sa_token).unwrap_or_else(|e| res_err(&e));
                        let mut obs = vec![format!("ok local={lo} peer={}", sa_token(peer))];
                        if st.peer_addr().ok() != Some(peer) {
                            obs.push("xcheck accept-peer".into());
                        }
                        obs.extend(Self::xcheck_stream(&mut st, s));
                        self.streams.insert(s, (h, Handle::Whole(st)));
                        obs
                    }
                    Poll::Ready(Err(e)) => vec![res_err(&e)],
                    Poll::Pending => vec!["pending".into()],
                }
            }
            Op::Write { s, data } => {
                let Some((h, hd)) = self.streams.remove(&s) else {
                    return vec!["badop".into()];
                };
                self.cur(h);
                self.nth += 1;
                let (hd, r) = Self::do_write(hd, &data, (data.len() as u64 + s as u64 + self.nth) % 5);
                self.streams.insert(s, (h, hd));
                match r {
                    Ok(n) => vec![format!("ok n={n}")],
                    Err(e) => vec![res_err(&e)],
                }
            }
            Op::Read { s, n } => {
                let Some((h, hd)) = self.streams.remove(&s) else {
                    return vec!["badop".into()];
                };
                self.cur(h);
                self.nth += 1;
                let mut buf = vec![0u8; n];
                let (hd, r) = Self::do_read(hd, &mut buf, (n as u64 + s as u64 + self.nth) % 5);
                self.streams.insert(s, (h, hd));
                match r {
                    Ok(k) => vec![format!("ok data={}", hex(&buf[..k]))],
                    Err(e) => vec![res_err(&e)],
                }
            }
            Op::Peek { s, n } => {
                let Some((h, hd)) = self.streams.remove(&s) else {
                    return vec!["badop".into()];
                };
                self.cur(h);
                self.nth += 1;
                let mut buf = vec![0u8; n];
                let (hd, r) = Self::do_peek(hd, &mut buf, (n as u64 + s as u64 + self.nth) % 4);
                self.streams.insert(s, (h, hd));
                match r {
                    Ok(k) => vec![format!("ok data={}", hex(&buf[..k]))],
                    Err(e) => vec![res_err(&e)],
                }
            }
            Op::Shutdown { s } => {
                let Some((h, hd)) = self.streams.remove(&s) else {
                    return vec!["badop".into()];
                };
                self.cur(h);
                self.nth += 1;
                let (hd, r) = Self::do_shutdown(hd, (s as u64 + self.nth) % 4);
                self.streams.insert(s, (h, hd));
                match r {
                    Ok(()) => vec!["ok".into()],
                    Err(e) => vec![res_err(&e)],
                }
            }
            Op::SDrop { s } => match self.streams.remove(&s) {
                Some((h, hd)) => {
                    self.cur(h);
                    self.nth += 1;
                    match hd {
                        // equivalent: plain drop | into_split, forget the write half (no shutdown),
                        // drop the read half — in either order
                        Handle::Whole(st) => match (s as u64 + self.nth) % 3 {
                            0 => {
                                ep("drop TcpStream");
                                drop(st)
                            }
                            1 => {
                                ep("into_split+forget+drop(read)");
                                let (r, w) = st.into_split();
                                w.forget();
                                drop(r);
                            }
                            _ => {
                                ep("into_split+drop(read)+forget");
                                let (r, w) = st.into_split();
                                drop(r);
                                w.forget();
                            }
                        },
                        Handle::ReadOnly(r) => {
                            ep("drop OwnedReadHalf");
                            drop(r)
                        }
                    }
                    vec!["ok".into()]
                }
                None => vec!["badop".into()],
            },
            Op::UdpBind { h, u, ip, port } => {
                self.cur(h);
                self.nth += 1;
                let r = with_addr_form!(u as u64 + self.nth, ip, port, |a| poll_once(UdpSocket::bind(a)));
                match r {
                    Poll::Ready(Ok(so)) => {
                        let p = so.local_addr().map(|a| a.port()).unwrap_or(0);
                        let mut obs = vec![format!("ok port={p}")];
                        if u % 2 == 1 {
                            let ttl = 9 + u % 4;
                            if so.set_ttl(ttl).is_err() || so.ttl().ok() != Some(ttl) {
                                obs.push("xcheck udp-ttl".into());
                            }
                            if so.set_ttl(256).is_ok() {
                                obs.push("xcheck udp-ttl-range".into());
                            }
                            // SO_BROADCAST only gates broadcast destinations, which no family sends to
                            if so.broadcast().ok() != Some(false)
                                || so.set_broadcast(true).is_err()
                                || so.broadcast().ok() != Some(true)
                                || so.set_broadcast(false).is_err()
                            {
                                obs.push("xcheck udp-broadcast".into());
                            }
                        }
                        if so.peer_addr().is_ok() {
                            obs.push("xcheck udp-peer-unconnected".into());
                        }
                        self.udps.insert(u, (h, so));
                        obs
                    }
                    Poll::Ready(Err(e)) => vec![res_err(&e)],
                    Poll::Pending => vec!["pending".into()],
                }
            }
            Op::UdpSend { u, len, ip, port } => {
                let Some((h, so)) = self.udps.get(&u) else {
                    return vec!["badop".into()];
                };
                self.cur(*h);
                self.nth += 1;
                let buf = vec![0x5au8; len];
                let dst = SocketAddr::new(ip, port);
                // sendto(2) through equivalent entry points: try_send_to | send_to() polled once (in
                // the address forms) | connect() + try_send | connect() + send() polled once. A
                // harness-made connect only records the peer (checked by peer_addr; netstat keeps showing
                // `*` for UDP rows, and no family delivers UDP datagrams, so the peer filter is idle).
                let mut obs = Vec::new();
                let r = match (len as u64 + u as u64 + self.nth) % 4 {
                    0 => {
                        ep("UdpSocket::try_send_to");
                        so.try_send_to(&buf, dst)
                    }
                    1 => {
                        ep("UdpSocket::send_to");
                        with_addr_form!(self.nth / 4, ip, port, |a| io_res(poll_once(so.send_to(&buf, a))))
                    }
                    k => {
                        let c = with_addr_form!(self.nth / 4, ip, port, |a| io_res(poll_once(so.connect(a))));
                        match c {
                            Ok(()) => {
                                if so.peer_addr().ok() != Some(dst) {
                                    obs.push("xcheck udp-peer".into());
                                }
                                if k == 2 {
                                    ep("UdpSocket::connect+try_send");
                                    so.try_send(&buf)
                                } else {
                                    ep("UdpSocket::connect+send");
                                    io_res(poll_once(so.send(&buf)))
                                }
                            }
                            Err(e) => Err(e),
                        }
                    }
                };
                obs.insert(0, match r {
                    Ok(n) => format!("ok n={n}"),
                    Err(e) => res_err(&e),
                });
                obs
            }
            Op::Egress => {
                let mut out = Vec::new();
                self.guard.as_ref().unwrap().egress_all(&mut out);
                let mut obs = Vec::new();
                for p in out {
                    let id = self.next_pkt;
                    self.next_pkt += 1;
                    obs.push(pkt_obs(id, &p));
                    if p.ttl != 64 {
                        obs.push("xcheck pkt-ttl".into());
                    }
                    if matches!(p.payload, Transport::Tcp(_)) {
                        self.wire.push(WirePkt { id, pkt: p, held: 0 });
                    }
                }
                if obs.is_empty() {
                    obs.push("none".into());
                }
                obs
            }
            Op::Deliver { id } => match self.wire.iter().position(|w| w.id == id) {
                Some(i) => {
                    let w = self.wire.remove(i);
                    self.guard.as_ref().unwrap().deliver(w.pkt);
                    vec!["ok".into()]
                }
                None => vec!["badop".into()],
            },
            Op::Dup { id } => match self.wire.iter().position(|w| w.id == id) {
                Some(i) => {
                    let p = self.wire[i].pkt.clone();
                    self.guard.as_ref().unwrap().deliver(p);
                    vec!["ok".into()]
                }
                None => vec!["badop".into()],
            },
            Op::Drop { id } => match self.wire.iter().position(|w| w.id == id) {
                Some(i) => {
                    self.wire.remove(i);
                    vec!["ok".into()]
                }
                None => vec!["badop".into()],
            },
            Op::Stat => {
                let mut obs = Vec::new();
                for h in 0..HOSTS {
                    let (a, b, c, d, e) = turmoil_net::verif_tcp_counts(self.hosts[h]);
                    obs.push(format!(
                        "cnt h{h} socks={a} bkeys={b} bfds={c} conns={d} dangling={e}"
                    ));
                    let ns = turmoil_net::netstat(host_v4(h));
                    for en in ns.entries {
                        let proto = match en.proto {
                            Proto::Tcp => "tcp",
                            Proto::Udp => "udp",
                        };
                        obs.push(format!(
                            "ns h{h} {proto} {} {} {} {} {}",
                            en.recv_q,
                            en.send_q,
                            sa_token(en.local),
                            en.peer.map(sa_token).unwrap_or_else(|| "*".into()),
                            en.state.map(ns_state).unwrap_or("-")
                        ));
                    }
                }
                obs
            }
        }
    }

    /// Getter / setter round trips (stored-only options must not change behaviour) and address
    /// getters through the borrowed halves. Any disagreement becomes an extra OBS line.
    fn xcheck_stream(st: &mut TcpStream, slot: u32) -> Vec<String> {
        let mut obs = Vec::new();
        if slot % 2 == 1 {
            let ttl = 7 + slot % 5;
            if st.set_nodelay(true).is_err() || st.nodelay().ok() != Some(true) {
                obs.push("xcheck nodelay".into());
            }
            if st.set_ttl(ttl).is_err() || st.ttl().ok() != Some(ttl) {
                obs.push("xcheck ttl".into());
            }
            if st.set_ttl(256).is_ok() {
                obs.push("xcheck ttl-range".into());
            }
        }
        let (l, p) = (st.local_addr().ok(), st.peer_addr().ok());
        let (r, w) = st.split();
        if r.local_addr().ok() != l || w.local_addr().ok() != l || r.peer_addr().ok() != p || w.peer_addr().ok() != p {
            obs.push("xcheck half-addr".into());
        }
        obs
    }

    /// `send(2)` through one of the equivalent entry points: try_write | AsyncWrite::poll_write |
    /// borrowed WriteHalf::try_write | borrowed WriteHalf poll_write | owned half (into_split …
    /// reunite).
    fn do_write(hd: Handle, data: &[u8], rule: u64) -> (Handle, io::Result<usize>) {
        match hd {
            Handle::Whole(mut st) => match rule {
                0 => {
                    ep("TcpStream::try_write");
                    let r = st.try_write(data);
                    (Handle::Whole(st), r)
                }
                1 => {
                    ep("TcpStream::poll_write");
                    let r = io_res(Pin::new(&mut st).poll_write(&mut cx(), data));
                    (Handle::Whole(st), r)
                }
                2 => {
                    ep("WriteHalf::try_write");
                    let r = {
                        let (_r, w) = st.split();
                        w.try_write(data)
                    };
                    (Handle::Whole(st), r)
                }
                3 => {
                    ep("WriteHalf::poll_write");
                    let r = {
                        let (_r, mut w) = st.split();
                        io_res(Pin::new(&mut w).poll_write(&mut cx(), data))
                    };
                    (Handle::Whole(st), r)
                }
                _ => {
                    let (rh, mut wh) = st.into_split();
                    let r = if data.len() % 2 == 0 {
                        ep("OwnedWriteHalf::try_write+reunite");
                        wh.try_write(data)
                    } else {
                        ep("OwnedWriteHalf::poll_write+reunite");
                        io_res(Pin::new(&mut wh).poll_write(&mut cx(), data))
                    };
                    let st = rh.reunite(wh).expect("halves of one stream reunite");
                    (Handle::Whole(st), r)
                }
            },
            Handle::ReadOnly(rh) => {
                ep("OwnedReadHalf::as_ref().try_write");
                let r = rh.as_ref().try_write(data);
                (Handle::ReadOnly(rh), r)
            }
        }
    }

    /// `recv(2)`: try_read | AsyncRead::poll_read | borrowed ReadHalf::try_read | borrowed ReadHalf
    /// poll_read | owned half.
    fn do_read(hd: Handle, buf: &mut [u8], rule: u64) -> (Handle, io::Result<usize>) {
        fn via_poll<R: AsyncRead + Unpin>(r: &mut R, buf: &mut [u8]) -> io::Result<usize> {
            let mut rb = ReadBuf::new(buf);
            match Pin::new(r).poll_read(&mut cx(), &mut rb) {
                Poll::Ready(Ok(())) => Ok(rb.filled().len()),
                Poll::Ready(Err(e)) => Err(e),
                Poll::Pending => Err(io::ErrorKind::WouldBlock.into()),
            }
        }
        match hd {
            Handle::Whole(mut st) => match rule {
                0 => {
                    ep("TcpStream::try_read");
                    let r = st.try_read(buf);
                    (Handle::Whole(st), r)
                }
                1 => {
                    ep("TcpStream::poll_read");
                    let r = via_poll(&mut st, buf);
                    (Handle::Whole(st), r)
                }
                2 => {
                    ep("ReadHalf::try_read");
                    let r = {
                        let (r, _w) = st.split();
                        r.try_read(buf)
                    };
                    (Handle::Whole(st), r)
                }
                3 => {
                    ep("ReadHalf::poll_read");
                    let r = {
                        let (mut r, _w) = st.split();
                        via_poll(&mut r, buf)
                    };
                    (Handle::Whole(st), r)
                }
                _ => {
                    let (mut rh, wh) = st.into_split();
                    let r = if buf.len() % 2 == 0 {
                        ep("OwnedReadHalf::try_read+reunite");
                        rh.try_read(buf)
                    } else {
                        ep("OwnedReadHalf::poll_read+reunite");
                        via_poll(&mut rh, buf)
                    };
                    let st = rh.reunite(wh).expect("halves of one stream reunite");
                    (Handle::Whole(st), r)
                }
            },
            Handle::ReadOnly(mut rh) => {
                ep("OwnedReadHalf::read (write half dropped)");
                let r = if rule % 2 == 0 { rh.try_read(buf) } else { via_poll(&mut rh, buf) };
                (Handle::ReadOnly(rh), r)
            }
        }
    }

    /// `recv(MSG_PEEK)`: poll_peek | peek() polled once | borrowed ReadHalf | owned half.
    fn do_peek(hd: Handle, buf: &mut [u8], rule: u64) -> (Handle, io::Result<usize>) {
        match hd {
            Handle::Whole(mut st) => match rule {
                0 => {
                    ep("TcpStream::poll_peek");
                    let mut rb = ReadBuf::new(buf);
                    let r = io_res(st.poll_peek(&mut cx(), &mut rb));
                    (Handle::Whole(st), r)
                }
                1 => {
                    ep("TcpStream::peek");
                    let r = io_res(poll_once(st.peek(buf)));
                    (Handle::Whole(st), r)
                }
                2 => {
                    let r = {
                        let (mut r, _w) = st.split();
                        if buf.len() % 2 == 0 {
                            ep("ReadHalf::poll_peek");
                            let mut rb = ReadBuf::new(buf);
                            io_res(r.poll_peek(&mut cx(), &mut rb))
                        } else {
                            ep("ReadHalf::peek");
                            io_res(poll_once(r.peek(buf)))
                        }
                    };
                    (Handle::Whole(st), r)
                }
                _ => {
                    let (mut rh, wh) = st.into_split();
                    let r = if buf.len() % 2 == 0 {
                        ep("OwnedReadHalf::poll_peek+reunite");
                        let mut rb = ReadBuf::new(buf);
                        io_res(rh.poll_peek(&mut cx(), &mut rb))
                    } else {
                        ep("OwnedReadHalf::peek+reunite");
                        io_res(poll_once(rh.peek(buf)))
                    };
                    let st = rh.reunite(wh).expect("halves of one stream reunite");
                    (Handle::Whole(st), r)
                }
            },
            Handle::ReadOnly(mut rh) => {
                let mut rb = ReadBuf::new(buf);
                let r = io_res(rh.poll_peek(&mut cx(), &mut rb));
                (Handle::ReadOnly(rh), r)
            }
        }
    }

    /// `shutdown(SHUT_WR)`: AsyncWrite::poll_shutdown on the stream | on the borrowed write half | on
    /// the owned write half (then reunite) | dropping the owned write half (shutdown_on_drop). The
    /// last one cannot return its result: it is taken from the abort error a zero-length peek shows
    /// beforehand (shutdown fails exactly when the connection is aborted), and the handle stays a
    /// read half from then on.
    fn do_shutdown(hd: Handle, rule: u64) -> (Handle, io::Result<()>) {
        match hd {
            Handle::Whole(mut st) => match rule {
                0 => {
                    ep("TcpStream::poll_shutdown");
                    let r = io_res(Pin::new(&mut st).poll_shutdown(&mut cx()));
                    (Handle::Whole(st), r)
                }
                1 => {
                    ep("WriteHalf::poll_shutdown");
                    let r = {
                        let (_r, mut w) = st.split();
                        io_res(Pin::new(&mut w).poll_shutdown(&mut cx()))
                    };
                    (Handle::Whole(st), r)
                }
                2 => {
                    ep("OwnedWriteHalf::poll_shutdown+reunite");
                    let (rh, mut wh) = st.into_split();
                    let r = io_res(Pin::new(&mut wh).poll_shutdown(&mut cx()));
                    let st = rh.reunite(wh).expect("halves of one stream reunite");
                    (Handle::Whole(st), r)
                }
                _ => {
                    let mut empty = [0u8; 0];
                    let mut rb = ReadBuf::new(&mut empty);
                    let pre = match st.poll_peek(&mut cx(), &mut rb) {
                        Poll::Ready(Err(e))
                            if matches!(e.kind(), io::ErrorKind::ConnectionReset | io::ErrorKind::TimedOut) =>
                        {
                            Err(e)
                        }
                        _ => Ok(()),
                    };
                    ep("drop OwnedWriteHalf (shutdown on drop)");
                    let (rh, wh) = st.into_split();
                    drop(wh);
                    (Handle::ReadOnly(rh), pre)
                }
            },
            Handle::ReadOnly(rh) => {
                // write side already shut by the dropped half: shutdown is idempotent (Ok) unless aborted
                let mut empty = [0u8; 0];
                let mut rb = ReadBuf::new(&mut empty);
                let mut rh = rh;
                let pre = match rh.poll_peek(&mut cx(), &mut rb) {
                    Poll::Ready(Err(e))
                        if matches!(e.kind(), io::ErrorKind::ConnectionReset | io::ErrorKind::TimedOut) =>
                    {
                        Err(e)
                    }
                    _ => Ok(()),
                };
                (Handle::ReadOnly(rh), pre)
            }
        }
    }

    pub fn is_local_ip(h: usize, ip: IpAddr) -> bool {
        ip.is_loopback() || ip == host_v4(h) || ip == host_v6(h)
    }

    /// After a panic inside the crate the handles must not run their destructors against a
    /// possibly inconsistent kernel: forget them, then uninstall the `Net`.
    pub fn abandon(mut self) {
        for (_, v) in std::mem::take(&mut self.listeners) {
            std::mem::forget(v);
        }
        for (_, v) in std::mem::take(&mut self.streams) {
            std::mem::forget(v);
        }
        for (_, v) in std::mem::take(&mut self.connecting) {
            std::mem::forget(v);
        }
        for (_, v) in std::mem::take(&mut self.udps) {
            std::mem::forget(v);
        }
        self.guard.take();
    }
}

impl Drop for World {
    fn drop(&mut self) {
        if self.guard.is_none() {
            return;
        }
        // Handles call `sys()` in their destructors: pin the owning host first, and keep the guard
        // alive until they are all gone.
        for (_, (h, v)) in std::mem::take(&mut self.listeners) {
            turmoil_net::set_current(self.hosts[h]);
            drop(v);
        }
        for (_, (h, v)) in std::mem::take(&mut self.streams) {
            turmoil_net::set_current(self.hosts[h]);
            drop(v);
        }
        for (_, (h, _, v)) in std::mem::take(&mut self.connecting) {
            turmoil_net::set_current(self.hosts[h]);
            drop(v);
        }
        for (_, (h, v)) in std::mem::take(&mut self.udps) {
            turmoil_net::set_current(self.hosts[h]);
            drop(v);
        }
        self.guard.take();
    }
}
