//! Binding of the op alphabet to the real `turmoil-net` crate. Everything is driven synchronously
//! through the public API: shim futures are polled once with a no-op waker, and the harness is the
//! wire (`egress_all` / `deliver`).

use std::collections::BTreeMap;
use std::future::Future;
use std::io;
use std::net::{IpAddr, SocketAddr};
use std::pin::Pin;
use std::task::{Context, Poll, Waker};

use tokio::io::{AsyncWrite, ReadBuf};
use turmoil_net::shim::tokio::net::{TcpListener, TcpStream, UdpSocket};
use turmoil_net::{EnterGuard, HostId, KernelConfig, Net, NetstatState, Packet, Proto, Transport};

use crate::ops::{hex, host_v4, host_v6, ip_token, sa_token, Cfg, Op, HOSTS};

type ConnFut = Pin<Box<dyn Future<Output = io::Result<TcpStream>>>>;

/// A packet on the wire, with the few fields generators look at.
#[derive(Debug, Clone)]
pub struct WirePkt {
    pub id: u64,
    pub pkt: Packet,
    pub held: u32,
}

impl WirePkt {
    pub fn is_pure_ack(&self) -> bool {
        match &self.pkt.payload {
            Transport::Tcp(s) => {
                s.flags.ack && !s.flags.syn && !s.flags.fin && !s.flags.rst && s.payload.is_empty()
            }
            _ => false,
        }
    }
}

pub struct World {
    guard: Option<EnterGuard>,
    hosts: Vec<HostId>,
    pub listeners: BTreeMap<u32, (usize, TcpListener)>,
    pub streams: BTreeMap<u32, (usize, TcpStream)>,
    pub connecting: BTreeMap<u32, (usize, u32, ConnFut)>,
    pub udps: BTreeMap<u32, (usize, UdpSocket)>,
    pub wire: Vec<WirePkt>,
    next_pkt: u64,
    /// Trace lines (OP / OBS) of the current case.
    pub lines: Vec<String>,
    /// Observations of the most recent op.
    pub last: Vec<String>,
    pub nops: usize,
}

fn err_kind(e: &io::Error) -> String {
    use io::ErrorKind as K;
    if e.raw_os_error() == Some(90) {
        return "msgsize".into();
    }
    match e.kind() {
        K::NotFound => "notfound".into(),
        K::NotConnected => "notconnected".into(),
        K::BrokenPipe => "brokenpipe".into(),
        K::ConnectionReset => "reset".into(),
        K::TimedOut => "timedout".into(),
        K::ConnectionRefused => "refused".into(),
        K::AddrInUse => "addrinuse".into(),
        K::AddrNotAvailable => "addrnotavailable".into(),
        K::InvalidInput => "invalidinput".into(),
        K::WouldBlock => "pending".into(),
        other => format!("other:{other:?}").to_lowercase(),
    }
}

fn res_err(e: &io::Error) -> String {
    let k = err_kind(e);
    if k == "pending" {
        k
    } else {
        format!("err {k}")
    }
}

fn cx() -> Context<'static> {
    Context::from_waker(Waker::noop())
}

fn ns_state(s: NetstatState) -> &'static str {
    match s {
        NetstatState::Listen => "LISTEN",
        NetstatState::SynSent => "SYN_SENT",
        NetstatState::SynReceived => "SYN_RCVD",
        NetstatState::Established => "ESTABLISHED",
        NetstatState::FinWait1 => "FIN_WAIT1",
        NetstatState::FinWait2 => "FIN_WAIT2",
        NetstatState::CloseWait => "CLOSE_WAIT",
        NetstatState::LastAck => "LAST_ACK",
        NetstatState::Closing => "CLOSING",
        NetstatState::Closed => "CLOSED",
    }
}

pub fn pkt_obs(id: u64, p: &Packet) -> String {
    match &p.payload {
        Transport::Tcp(s) => {
            let mut fl = String::new();
            if s.flags.syn {
                fl.push('S');
            }
            if s.flags.ack {
                fl.push('A');
            }
            if s.flags.fin {
                fl.push('F');
            }
            if s.flags.rst {
                fl.push('R');
            }
            if s.flags.psh {
                fl.push('P');
            }
            if s.flags.urg {
                fl.push('U');
            }
            if fl.is_empty() {
                fl.push('-');
            }
            format!(
                "pkt {id} {}:{}>{}:{} seq={} ack={} fl={fl} win={} len={} data={}",
                ip_token(p.src),
                s.src_port,
                ip_token(p.dst),
                s.dst_port,
                s.seq,
                s.ack,
                s.window,
                s.payload.len(),
                hex(&s.payload)
            )
        }
        Transport::Udp(d) => format!(
            "udp {id} {}:{}>{}:{} len={}",
            ip_token(p.src),
            d.src_port,
            ip_token(p.dst),
            d.dst_port,
            d.payload.len()
        ),
    }
}

impl World {
    pub fn new(cfg: &Cfg) -> World {
        let kc = KernelConfig::default()
            .mtu(cfg.mtu)
            .loopback_mtu(cfg.lomtu)
            .send_buf_cap(cfg.sendcap)
            .recv_buf_cap(cfg.recvcap)
            .default_backlog(cfg.backlog)
            .retx_threshold(cfg.retxthr)
            .retx_max(cfg.retxmax);
        let mut net = Net::with_config(kc);
        let mut hosts = Vec::new();
        for h in 0..HOSTS {
            hosts.push(net.add_host(vec![host_v4(h), host_v6(h)]));
        }
        let guard = net.enter();
        World {
            guard: Some(guard),
            hosts,
            listeners: BTreeMap::new(),
            streams: BTreeMap::new(),
            connecting: BTreeMap::new(),
            udps: BTreeMap::new(),
            wire: Vec::new(),
            next_pkt: 0,
            lines: Vec::new(),
            last: Vec::new(),
            nops: 0,
        }
    }

    fn cur(&self, h: usize) {
        turmoil_net::set_current(self.hosts[h]);
    }

    pub fn actor(&self, op: &Op) -> String {
        let h = match op {
            Op::Listen { h, .. } | Op::Connect { h, .. } | Op::UdpBind { h, .. } => Some(*h),
            Op::LDrop { l } | Op::Accept { l, .. } => self.listeners.get(l).map(|x| x.0),
            Op::CPoll { c, .. } | Op::CCancel { c } => self.connecting.get(c).map(|x| x.0),
            Op::Write { s, .. }
            | Op::Read { s, .. }
            | Op::Peek { s, .. }
            | Op::Shutdown { s }
            | Op::SDrop { s } => self.streams.get(s).map(|x| x.0),
            Op::UdpSend { u, .. } => self.udps.get(u).map(|x| x.0),
            Op::Egress | Op::Deliver { .. } | Op::Drop { .. } | Op::Dup { .. } => {
                return "wire".into()
            }
            Op::Stat => return "ctl".into(),
        };
        match h {
            Some(h) => format!("h{h}"),
            None => "h?".into(),
        }
    }

    /// Apply one op to the implementation, log `OP` + `OBS` lines, return the observations.
    pub fn apply(&mut self, op: Op) -> &[String] {
        // `cpoll` names the stream slot the pending connect resolves to.
        let op = match op {
            Op::CPoll { c, .. } => Op::CPoll { c, s: self.connecting.get(&c).map(|x| x.1).unwrap_or(0) },
            o => o,
        };
        let line = format!("OP {} {}", self.actor(&op), op.body());
        self.lines.push(line);
        self.nops += 1;
        let obs = self.exec(op);
        for o in &obs {
            self.lines.push(format!("OBS {o}"));
        }
        self.last = obs;
        &self.last
    }

    fn settle(&mut self, c: u32, h: usize, s: u32, mut fut: ConnFut) -> Vec<String> {
        self.cur(h);
        match fut.as_mut().poll(&mut cx()) {
            Poll::Pending => {
                self.connecting.insert(c, (h, s, fut));
                vec!["pending".into()]
            }
            Poll::Ready(Ok(st)) => {
                let l = st.local_addr().map(sa_token).unwrap_or_else(|e| res_err(&e));
                let p = st.peer_addr().map(sa_token).unwrap_or_else(|e| res_err(&e));
                self.streams.insert(s, (h, st));
                vec![format!("ok local={l} peer={p}")]
            }
            Poll::Ready(Err(e)) => vec![res_err(&e)],
        }
    }

    fn exec(&mut self, op: Op) -> Vec<String> {
        match op {
            Op::Listen { h, l, ip, port } => {
                self.cur(h);
                let mut fut = Box::pin(TcpListener::bind(SocketAddr::new(ip, port)));
                match fut.as_mut().poll(&mut cx()) {
                    Poll::Ready(Ok(li)) => {
                        let p = li.local_addr().map(|a| a.port()).unwrap_or(0);
                        self.listeners.insert(l, (h, li));
                        vec![format!("ok port={p}")]
                    }
                    Poll::Ready(Err(e)) => vec![res_err(&e)],
                    Poll::Pending => vec!["pending".into()],
                }
            }
            Op::LDrop { l } => match self.listeners.remove(&l) {
                Some((h, li)) => {
                    self.cur(h);
                    drop(li);
                    vec!["ok".into()]
                }
                None => vec!["badop".into()],
            },
            Op::Connect { h, c, s, ip, port } => {
                self.cur(h);
                let fut: ConnFut = Box::pin(TcpStream::connect(SocketAddr::new(ip, port)));
                self.settle(c, h, s, fut)
            }
            Op::CPoll { c, .. } => match self.connecting.remove(&c) {
                Some((h, s, fut)) => self.settle(c, h, s, fut),
                None => vec!["badop".into()],
            },
            Op::CCancel { c } => match self.connecting.remove(&c) {
                Some((h, _, fut)) => {
                    self.cur(h);
                    drop(fut);
                    vec!["ok".into()]
                }
                None => vec!["badop".into()],
            },
            Op::Accept { l, s } => {
                let Some((h, li)) = self.listeners.get(&l) else {
                    return vec!["badop".into()];
                };
                let h = *h;
                self.cur(h);
                match li.poll_accept(&mut cx()) {
                    Poll::Ready(Ok((st, peer))) => {
                        let lo = st.local_addr().map(sa_token).unwrap_or_else(|e| res_err(&e));
                        self.streams.insert(s, (h, st));
                        vec![format!("ok local={lo} peer={}", sa_token(peer))]
                    }
                    Poll::Ready(Err(e)) => vec![res_err(&e)],
                    Poll::Pending => vec!["pending".into()],
                }
            }
            Op::Write { s, data } => {
                let Some((h, st)) = self.streams.get(&s) else {
                    return vec!["badop".into()];
                };
                self.cur(*h);
                match st.try_write(&data) {
                    Ok(n) => vec![format!("ok n={n}")],
                    Err(e) => vec![res_err(&e)],
                }
            }
            Op::Read { s, n } => {
                let Some((h, st)) = self.streams.get(&s) else {
                    return vec!["badop".into()];
                };
                self.cur(*h);
                let mut buf = vec![0u8; n];
                match st.try_read(&mut buf) {
                    Ok(k) => vec![format!("ok data={}", hex(&buf[..k]))],
                    Err(e) => vec![res_err(&e)],
                }
            }
            Op::Peek { s, n } => {
                let Some((h, st)) = self.streams.get(&s) else {
                    return vec!["badop".into()];
                };
                self.cur(*h);
                let mut buf = vec![0u8; n];
                let mut rb = ReadBuf::new(&mut buf);
                match st.poll_peek(&mut cx(), &mut rb) {
                    Poll::Ready(Ok(k)) => vec![format!("ok data={}", hex(&rb.filled()[..k]))],
                    Poll::Ready(Err(e)) => vec![res_err(&e)],
                    Poll::Pending => vec!["pending".into()],
                }
            }
            Op::Shutdown { s } => {
                let Some((h, st)) = self.streams.get_mut(&s) else {
                    return vec!["badop".into()];
                };
                let h = *h;
                turmoil_net::set_current(self.hosts[h]);
                match Pin::new(st).poll_shutdown(&mut cx()) {
                    Poll::Ready(Ok(())) => vec!["ok".into()],
                    Poll::Ready(Err(e)) => vec![res_err(&e)],
                    Poll::Pending => vec!["pending".into()],
                }
            }
            Op::SDrop { s } => match self.streams.remove(&s) {
                Some((h, st)) => {
                    self.cur(h);
                    drop(st);
                    vec!["ok".into()]
                }
                None => vec!["badop".into()],
            },
            Op::UdpBind { h, u, ip, port } => {
                self.cur(h);
                let mut fut = Box::pin(UdpSocket::bind(SocketAddr::new(ip, port)));
                match fut.as_mut().poll(&mut cx()) {
                    Poll::Ready(Ok(so)) => {
                        let p = so.local_addr().map(|a| a.port()).unwrap_or(0);
                        self.udps.insert(u, (h, so));
                        vec![format!("ok port={p}")]
                    }
                    Poll::Ready(Err(e)) => vec![res_err(&e)],
                    Poll::Pending => vec!["pending".into()],
                }
            }
            Op::UdpSend { u, len, ip, port } => {
                let Some((h, so)) = self.udps.get(&u) else {
                    return vec!["badop".into()];
                };
                self.cur(*h);
                let buf = vec![0x5au8; len];
                match so.try_send_to(&buf, SocketAddr::new(ip, port)) {
                    Ok(n) => vec![format!("ok n={n}")],
                    Err(e) => vec![res_err(&e)],
                }
            }
            Op::Egress => {
                let mut out = Vec::new();
                self.guard.as_ref().unwrap().egress_all(&mut out);
                let mut obs = Vec::new();
                for p in out {
                    let id = self.next_pkt;
                    self.next_pkt += 1;
                    obs.push(pkt_obs(id, &p));
                    if matches!(p.payload, Transport::Tcp(_)) {
                        self.wire.push(WirePkt { id, pkt: p, held: 0 });
                    }
                }
                if obs.is_empty() {
                    obs.push("none".into());
                }
                obs
            }
            Op::Deliver { id } => match self.wire.iter().position(|w| w.id == id) {
                Some(i) => {
                    let w = self.wire.remove(i);
                    self.guard.as_ref().unwrap().deliver(w.pkt);
                    vec!["ok".into()]
                }
                None => vec!["badop".into()],
            },
            Op::Dup { id } => match self.wire.iter().position(|w| w.id == id) {
                Some(i) => {
                    let p = self.wire[i].pkt.clone();
                    self.guard.as_ref().unwrap().deliver(p);
                    vec!["ok".into()]
                }
                None => vec!["badop".into()],
            },
            Op::Drop { id } => match self.wire.iter().position(|w| w.id == id) {
                Some(i) => {
                    self.wire.remove(i);
                    vec!["ok".into()]
                }
                None => vec!["badop".into()],
            },
            Op::Stat => {
                let mut obs = Vec::new();
                for h in 0..HOSTS {
                    let (a, b, c, d, e) = turmoil_net::verif_tcp_counts(self.hosts[h]);
                    obs.push(format!(
                        "cnt h{h} socks={a} bkeys={b} bfds={c} conns={d} dangling={e}"
                    ));
                    let ns = turmoil_net::netstat(host_v4(h));
                    for en in ns.entries {
                        let proto = match en.proto {
                            Proto::Tcp => "tcp",
                            Proto::Udp => "udp",
                        };
                        obs.push(format!(
                            "ns h{h} {proto} {} {} {} {} {}",
                            en.recv_q,
                            en.send_q,
                            sa_token(en.local),
                            en.peer.map(sa_token).unwrap_or_else(|| "*".into()),
                            en.state.map(ns_state).unwrap_or("-")
                        ));
                    }
                }
                obs
            }
        }
    }

    pub fn is_local_ip(h: usize, ip: IpAddr) -> bool {
        ip.is_loopback() || ip == host_v4(h) || ip == host_v6(h)
    }

    /// After a panic inside the crate the handles must not run their destructors against a
    /// possibly inconsistent kernel: forget them, then uninstall the `Net`.
    pub fn abandon(mut self) {
        for (_, v) in std::mem::take(&mut self.listeners) {
            std::mem::forget(v);
        }
        for (_, v) in std::mem::take(&mut self.streams) {
            std::mem::forget(v);
        }
        for (_, v) in std::mem::take(&mut self.connecting) {
            std::mem::forget(v);
        }
        for (_, v) in std::mem::take(&mut self.udps) {
            std::mem::forget(v);
        }
        self.guard.take();
    }
}

impl Drop for World {
    fn drop(&mut self) {
        if self.guard.is_none() {
            return;
        }
        // Handles call `sys()` in their destructors: pin the owning host first, and keep the guard
        // alive until they are all gone.
        for (_, (h, v)) in std::mem::take(&mut self.listeners) {
            turmoil_net::set_current(self.hosts[h]);
            drop(v);
        }
        for (_, (h, v)) in std::mem::take(&mut self.streams) {
            turmoil_net::set_current(self.hosts[h]);
            drop(v);
        }
        for (_, (h, _, v)) in std::mem::take(&mut self.connecting) {
            turmoil_net::set_current(self.hosts[h]);
            drop(v);
        }
        for (_, (h, v)) in std::mem::take(&mut self.udps) {
            turmoil_net::set_current(self.hosts[h]);
            drop(v);
        }
        self.guard.take();
    }
}
