//! splitmix64 — the only source of randomness in the harness.

#[derive(Debug, Clone)]
pub struct Rng(pub u64);

impl Rng {
    pub fn new(seed: u64) -> Rng {
        Rng(seed ^ 0x9e37_79b9_7f4a_7c15)
    }
    pub fn next(&mut self) -> u64 {
        self.0 = self.0.wrapping_add(0x9e37_79b9_7f4a_7c15);
        let mut z = self.0;
        z = (z ^ (z >> 30)).wrapping_mul(0xbf58_476d_1ce4_e5b9);
        z = (z ^ (z >> 27)).wrapping_mul(0x94d0_49bb_1331_11eb);
        z ^ (z >> 31)
    }
    /// Uniform in `0..n` (`n ≥ 1`).
    pub fn below(&mut self, n: u64) -> u64 {
        self.next() % n.max(1)
    }
    pub fn range(&mut self, lo: u64, hi: u64) -> u64 {
        lo + self.below(hi - lo + 1)
    }
    pub fn chance(&mut self, num: u64, den: u64) -> bool {
        self.below(den) < num
    }
    pub fn pick<'a, T>(&mut self, xs: &'a [T]) -> &'a T {
        &xs[self.below(xs.len() as u64) as usize]
    }
    pub fn fork(&mut self) -> Rng {
        Rng(self.next())
    }
}
