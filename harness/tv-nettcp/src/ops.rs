//! Operation alphabet of the nettcp traces, with printing and parsing of `OP` lines.

use std::fmt::Write as _;
use std::net::{IpAddr, Ipv4Addr, Ipv6Addr, SocketAddr};

pub const HOSTS: usize = 2;

/// Symbolic addresses used in traces: `h<i>v4`, `h<i>v6`, `lo4`, `lo6`, `any4`, `any6`.
pub fn host_v4(h: usize) -> IpAddr {
    // what the crate's DNS hands to the (h+1)-th name it sees: hosts are registered by name so
    // that "host<h>:port" reaches the same address as the literal
    IpAddr::V4(Ipv4Addr::new(192, 168, 0, 1 + h as u8))
}
pub fn host_name(h: usize) -> String {
    format!("host{h}")
}
/// A DNS name for `ip` when it has one ("host<h>" for a host's v4 address, "localhost").
pub fn name_of(ip: IpAddr) -> Option<String> {
    if ip == IpAddr::V4(Ipv4Addr::LOCALHOST) {
        return Some("localhost".into());
    }
    (0..8).find(|h| ip == host_v4(*h)).map(host_name)
}
pub fn host_v6(h: usize) -> IpAddr {
    IpAddr::V6(Ipv6Addr::new(0xfd00, 0, 0, 0, 0, 0, 0, 1 + h as u16))
}

pub fn ip_token(ip: IpAddr) -> String {
    for h in 0..8 {
        if ip == host_v4(h) {
            return format!("h{h}v4");
        }
        if ip == host_v6(h) {
            return format!("h{h}v6");
        }
    }
    match ip {
        IpAddr::V4(a) if a.is_loopback() => "lo4".into(),
        IpAddr::V6(a) if a.is_loopback() => "lo6".into(),
        IpAddr::V4(a) if a.is_unspecified() => "any4".into(),
        IpAddr::V6(a) if a.is_unspecified() => "any6".into(),
        other => format!("ip?{other}"),
    }
}

pub fn parse_ip(tok: &str) -> Option<IpAddr> {
    match tok {
        "lo4" => return Some(IpAddr::V4(Ipv4Addr::LOCALHOST)),
        "lo6" => return Some(IpAddr::V6(Ipv6Addr::LOCALHOST)),
        "any4" => return Some(IpAddr::V4(Ipv4Addr::UNSPECIFIED)),
        "any6" => return Some(IpAddr::V6(Ipv6Addr::UNSPECIFIED)),
        _ => {}
    }
    let rest = tok.strip_prefix('h')?;
    let (n, fam) = rest.split_at(rest.find('v')?);
    let h: usize = n.parse().ok()?;
    match fam {
        "v4" => Some(host_v4(h)),
        "v6" => Some(host_v6(h)),
        _ => None,
    }
}

pub fn sa_token(sa: SocketAddr) -> String {
    format!("{}:{}", ip_token(sa.ip()), sa.port())
}

pub fn hex(b: &[u8]) -> String {
    if b.is_empty() {
        return "-".into();
    }
    let mut s = String::with_capacity(b.len() * 2);
    for x in b {
        let _ = write!(s, "{x:02x}");
    }
    s
}

pub fn unhex(s: &str) -> Option<Vec<u8>> {
    if s == "-" {
        return Some(Vec::new());
    }
    if s.len() % 2 != 0 {
        return None;
    }
    (0..s.len() / 2)
        .map(|i| u8::from_str_radix(&s[2 * i..2 * i + 2], 16).ok())
        .collect()
}

#[derive(Debug, Clone, PartialEq, Eq)]
pub enum Op {
    Listen { h: usize, l: u32, ip: IpAddr, port: u16 },
    LDrop { l: u32 },
    Connect { h: usize, c: u32, s: u32, ip: IpAddr, port: u16 },
    CPoll { c: u32, s: u32 },
    CCancel { c: u32 },
    Accept { l: u32, s: u32 },
    Write { s: u32, data: Vec<u8> },
    Read { s: u32, n: usize },
    Peek { s: u32, n: usize },
    Shutdown { s: u32 },
    SDrop { s: u32 },
    UdpBind { h: usize, u: u32, ip: IpAddr, port: u16 },
    UdpSend { u: u32, len: usize, ip: IpAddr, port: u16 },
    Egress,
    Deliver { id: u64 },
    Drop { id: u64 },
    Dup { id: u64 },
    Stat,
}

impl Op {
    /// Text after `OP <actor> `. The actor is supplied by the world (it knows slot owners).
    pub fn body(&self) -> String {
        match self {
            Op::Listen { l, ip, port, .. } => format!("listen l{l} {} {port}", ip_token(*ip)),
            Op::LDrop { l } => format!("ldrop l{l}"),
            Op::Connect { c, s, ip, port, .. } => {
                format!("connect c{c} s{s} {} {port}", ip_token(*ip))
            }
            Op::CPoll { c, s } => format!("cpoll c{c} s{s}"),
            Op::CCancel { c } => format!("ccancel c{c}"),
            Op::Accept { l, s } => format!("accept l{l} s{s}"),
            Op::Write { s, data } => format!("write s{s} {}", hex(data)),
            Op::Read { s, n } => format!("read s{s} {n}"),
            Op::Peek { s, n } => format!("peek s{s} {n}"),
            Op::Shutdown { s } => format!("shutdown s{s}"),
            Op::SDrop { s } => format!("drop s{s}"),
            Op::UdpBind { u, ip, port, .. } => format!("udpbind u{u} {} {port}", ip_token(*ip)),
            Op::UdpSend { u, len, ip, port } => {
                format!("udpsend u{u} {len} {} {port}", ip_token(*ip))
            }
            Op::Egress => "egress".into(),
            Op::Deliver { id } => format!("deliver {id}"),
            Op::Drop { id } => format!("drop {id}"),
            Op::Dup { id } => format!("dup {id}"),
            Op::Stat => "stat".into(),
        }
    }

    /// Parse `OP <actor> <body>` (the full line).
    pub fn parse_line(line: &str) -> Option<Op> {
        let mut it = line.split_whitespace();
        if it.next()? != "OP" {
            return None;
        }
        let actor = it.next()?;
        let name = it.next()?;
        let args: Vec<&str> = it.collect();
        let host = || -> Option<usize> { actor.strip_prefix('h')?.parse().ok() };
        let slot = |i: usize, p: char| -> Option<u32> { args.get(i)?.strip_prefix(p)?.parse().ok() };
        Some(match (actor, name) {
            ("wire", "egress") => Op::Egress,
            ("wire", "deliver") => Op::Deliver { id: args.first()?.parse().ok()? },
            ("wire", "drop") => Op::Drop { id: args.first()?.parse().ok()? },
            ("wire", "dup") => Op::Dup { id: args.first()?.parse().ok()? },
            ("ctl", "stat") => Op::Stat,
            (_, "listen") => Op::Listen {
                h: host()?,
                l: slot(0, 'l')?,
                ip: parse_ip(args.get(1)?)?,
                port: args.get(2)?.parse().ok()?,
            },
            (_, "ldrop") => Op::LDrop { l: slot(0, 'l')? },
            (_, "connect") => Op::Connect {
                h: host()?,
                c: slot(0, 'c')?,
                s: slot(1, 's')?,
                ip: parse_ip(args.get(2)?)?,
                port: args.get(3)?.parse().ok()?,
            },
            (_, "cpoll") => Op::CPoll { c: slot(0, 'c')?, s: slot(1, 's').unwrap_or(0) },
            (_, "ccancel") => Op::CCancel { c: slot(0, 'c')? },
            (_, "accept") => Op::Accept { l: slot(0, 'l')?, s: slot(1, 's')? },
            (_, "write") => Op::Write { s: slot(0, 's')?, data: unhex(args.get(1)?)? },
            (_, "read") => Op::Read { s: slot(0, 's')?, n: args.get(1)?.parse().ok()? },
            (_, "peek") => Op::Peek { s: slot(0, 's')?, n: args.get(1)?.parse().ok()? },
            (_, "shutdown") => Op::Shutdown { s: slot(0, 's')? },
            (_, "drop") => Op::SDrop { s: slot(0, 's')? },
            (_, "udpbind") => Op::UdpBind {
                h: host()?,
                u: slot(0, 'u')?,
                ip: parse_ip(args.get(1)?)?,
                port: args.get(2)?.parse().ok()?,
            },
            (_, "udpsend") => Op::UdpSend {
                u: slot(0, 'u')?,
                len: args.get(1)?.parse().ok()?,
                ip: parse_ip(args.get(2)?)?,
                port: args.get(3)?.parse().ok()?,
            },
            _ => return None,
        })
    }
}

/// Kernel configuration of a case (`CFG` line).
#[derive(Debug, Clone, PartialEq, Eq)]
pub struct Cfg {
    pub mtu: u32,
    pub lomtu: u32,
    pub sendcap: usize,
    pub recvcap: usize,
    pub backlog: usize,
    pub retxthr: u32,
    pub retxmax: u32,
    /// The case ends with a loss-free drain to quiescence with greedy readers: the liveness
    /// oracle of C06 applies.
    pub live: bool,
    /// The case ends with every handle dropped and a loss-free drain: the reclamation oracle of
    /// C13 applies.
    pub reclaim: bool,
}

impl Default for Cfg {
    fn default() -> Self {
        Cfg {
            mtu: 1500,
            lomtu: 65536,
            sendcap: 65536,
            recvcap: 65536,
            backlog: 1024,
            retxthr: 3,
            retxmax: 5,
            live: false,
            reclaim: false,
        }
    }
}

impl Cfg {
    pub fn line(&self) -> String {
        format!(
            "CFG hosts={HOSTS} mtu={} lomtu={} sendcap={} recvcap={} backlog={} retxthr={} retxmax={} live={} reclaim={}",
            self.mtu,
            self.lomtu,
            self.sendcap,
            self.recvcap,
            self.backlog,
            self.retxthr,
            self.retxmax,
            self.live as u8,
            self.reclaim as u8
        )
    }

    pub fn parse_line(line: &str) -> Option<Cfg> {
        let mut c = Cfg::default();
        let mut it = line.split_whitespace();
        if it.next()? != "CFG" {
            return None;
        }
        for kv in it {
            let (k, v) = kv.split_once('=')?;
            match k {
                "hosts" => {}
                "mtu" => c.mtu = v.parse().ok()?,
                "lomtu" => c.lomtu = v.parse().ok()?,
                "sendcap" => c.sendcap = v.parse().ok()?,
                "recvcap" => c.recvcap = v.parse().ok()?,
                "backlog" => c.backlog = v.parse().ok()?,
                "retxthr" => c.retxthr = v.parse().ok()?,
                "retxmax" => c.retxmax = v.parse().ok()?,
                "live" => c.live = v == "1",
                "reclaim" => c.reclaim = v == "1",
                _ => {}
            }
        }
        Some(c)
    }

    /// TCP MSS for a segment leaving an address of the given kind (spec-side mirror used only by
    /// generators to pick interesting sizes; the oracle lives in the Lean driver).
    pub fn mss(&self, loopback: bool, v6: bool) -> usize {
        let mtu = if loopback { self.lomtu } else { self.mtu } as usize;
        mtu.saturating_sub(if v6 { 40 } else { 20 }).saturating_sub(20)
    }
}
