//! tv-nettcp — differential harness for turmoil-net TCP (properties C06, C13, C16).
//!
//! CLI (CONVENTIONS §2):
//!   tv-nettcp <PROP> --tier quick|thorough|search --seed <u64> --out <trace> [--replay <case>]
//!             [--cases <n>] [--depth <d>]
//!
//! Every case runs the real crate in-process under `catch_unwind`; all randomness comes from one
//! splitmix64 stream seeded by `--seed`.

mod fixture;
mod gen;
mod ops;
mod prng;
mod scenario;
mod world;

use std::io::Write;
use std::panic::{catch_unwind, AssertUnwindSafe};

use ops::{Cfg, Op};
use world::World;

/// Replay files may contain wire macros that are expanded against the packets actually on the
/// wire (so a canonical history survives renumbering of packets by an unrelated change):
///   OP wire deliverall            deliver every packet on the wire, in id order
///   OP wire deliverexcept <cls>   … except those of class <cls> (they stay on the wire)
///   OP wire dropall <cls>         drop every packet of class <cls>
///   OP wire round                 egress, then deliverall
/// Classes: pureack | zwack (pure ACK advertising window 0) | winupd (pure ACK with window > 0) |
/// rst | syn | synack | data | fin | any. The expanded concrete ops are what the trace records.
enum Macro {
    DeliverAll,
    DeliverExcept(String),
    DropAll(String),
    Round,
}

enum Step {
    Op(Op),
    Macro(Macro),
}

fn in_class(p: &world::WirePkt, cls: &str) -> bool {
    use turmoil_net::Transport;
    let Transport::Tcp(s) = &p.pkt.payload else { return false };
    let pure = s.flags.ack && !s.flags.syn && !s.flags.fin && !s.flags.rst && s.payload.is_empty();
    match cls {
        "any" => true,
        "pureack" => pure,
        "zwack" => pure && s.window == 0,
        "winupd" => pure && s.window > 0,
        "rst" => s.flags.rst,
        "syn" => s.flags.syn && !s.flags.ack,
        "synack" => s.flags.syn && s.flags.ack,
        "data" => !s.payload.is_empty(),
        "fin" => s.flags.fin,
        _ => false,
    }
}

impl Macro {
    fn parse_line(line: &str) -> Option<Macro> {
        let t: Vec<&str> = line.split_whitespace().collect();
        match t.as_slice() {
            ["OP", "wire", "deliverall"] => Some(Macro::DeliverAll),
            ["OP", "wire", "round"] => Some(Macro::Round),
            ["OP", "wire", "deliverexcept", c] => Some(Macro::DeliverExcept(c.to_string())),
            ["OP", "wire", "dropall", c] => Some(Macro::DropAll(c.to_string())),
            _ => None,
        }
    }
    fn run(&self, w: &mut World) {
        match self {
            Macro::Round => {
                w.apply(Op::Egress);
                Macro::DeliverAll.run(w);
            }
            Macro::DeliverAll => {
                let ids: Vec<u64> = w.wire.iter().map(|p| p.id).collect();
                for id in ids {
                    w.apply(Op::Deliver { id });
                }
            }
            Macro::DeliverExcept(c) => {
                let ids: Vec<u64> = w.wire.iter().filter(|p| !in_class(p, c)).map(|p| p.id).collect();
                for id in ids {
                    w.apply(Op::Deliver { id });
                }
            }
            Macro::DropAll(c) => {
                let ids: Vec<u64> = w.wire.iter().filter(|p| in_class(p, c)).map(|p| p.id).collect();
                for id in ids {
                    w.apply(Op::Drop { id });
                }
            }
        }
    }
}

pub struct Out {
    w: std::io::BufWriter<std::fs::File>,
    pub n: u64,
    pub ops: u64,
    pub panics: u64,
    pub hist: std::collections::BTreeMap<String, u64>,
}

impl Out {
    /// Append a case whose lines were produced elsewhere (end-to-end fixture runs).
    pub fn raw_case(&mut self, family: &str, seed: u64, cfg_line: &str, lines: &[String], panic: Option<String>) {
        let n = self.n;
        self.n += 1;
        let _ = writeln!(self.w, "CASE {n} family={family} seed={seed}");
        let _ = writeln!(self.w, "{cfg_line}");
        for l in lines {
            let _ = writeln!(self.w, "{l}");
            if l.starts_with("OP ") {
                self.ops += 1;
            }
        }
        if let Some(p) = panic {
            self.panics += 1;
            let _ = writeln!(self.w, "OBS panic {p}");
        }
        let _ = writeln!(self.w, "END");
        *self.hist.entry(format!("family:{family}")).or_insert(0) += 1;
    }

    /// Run one case: `f` drives the world; the trace of the case is appended to the output.
    pub fn case(&mut self, family: &str, seed: u64, cfg: &Cfg, f: impl FnOnce(&mut World)) {
        let mut w = World::new(cfg);
        let r = catch_unwind(AssertUnwindSafe(|| f(&mut w)));
        let n = self.n;
        self.n += 1;
        let _ = writeln!(self.w, "CASE {n} family={family} seed={seed}");
        let _ = writeln!(self.w, "{}", cfg.line());
        for l in &w.lines {
            let _ = writeln!(self.w, "{l}");
            if let Some(rest) = l.strip_prefix("OP ") {
                let name = rest.split_whitespace().nth(1).unwrap_or("?");
                *self.hist.entry(format!("op:{name}")).or_insert(0) += 1;
            } else if let Some(rest) = l.strip_prefix("OBS ") {
                let mut it = rest.split_whitespace();
                let a = it.next().unwrap_or("?");
                if a == "err" {
                    *self.hist.entry(format!("err:{}", it.next().unwrap_or("?"))).or_insert(0) += 1;
                } else if a == "pending" {
                    *self.hist.entry("pending".into()).or_insert(0) += 1;
                }
            }
        }
        self.ops += w.nops as u64;
        for (k, v) in crate::world::take_ep() {
            *self.hist.entry(format!("ep:{k}")).or_insert(0) += v;
        }
        *self.hist.entry(format!("family:{family}")).or_insert(0) += 1;
        match r {
            Ok(()) => drop(w),
            Err(p) => {
                self.panics += 1;
                let msg = p
                    .downcast_ref::<String>()
                    .cloned()
                    .or_else(|| p.downcast_ref::<&str>().map(|s| s.to_string()))
                    .unwrap_or_else(|| "unknown".into());
                let class: String = msg
                    .chars()
                    .take(60)
                    .map(|c| if c.is_ascii_alphanumeric() { c.to_ascii_lowercase() } else { '_' })
                    .collect();
                let _ = writeln!(self.w, "OBS panic {class}");
                w.abandon();
            }
        }
        let _ = writeln!(self.w, "END");
    }
}

fn main() {
    let args: Vec<String> = std::env::args().collect();
    if args.len() < 2 {
        eprintln!("usage: tv-nettcp <C06|C13|C16> --tier quick|thorough|search --seed N --out FILE [--replay FILE] [--cases N] [--depth D]");
        std::process::exit(2);
    }
    let prop = args[1].clone();
    let mut tier = "quick".to_string();
    let mut seed = 1u64;
    let mut out = String::new();
    let mut replay: Option<String> = None;
    let mut cases: Option<u64> = None;
    let mut depth: Option<usize> = None;
    let mut i = 2;
    while i < args.len() {
        let v = args.get(i + 1).cloned().unwrap_or_default();
        match args[i].as_str() {
            "--tier" => tier = v,
            "--seed" => seed = v.parse().expect("seed"),
            "--out" => out = v,
            "--replay" => replay = Some(v),
            "--cases" => cases = Some(v.parse().expect("cases")),
            "--depth" => depth = Some(v.parse().expect("depth")),
            other => {
                eprintln!("unknown argument {other}");
                std::process::exit(2);
            }
        }
        i += 2;
    }
    if out.is_empty() {
        eprintln!("--out is required");
        std::process::exit(2);
    }
    std::panic::set_hook(Box::new(|_| {}));
    let f = std::fs::File::create(&out).expect("create trace file");
    let mut o = Out {
        w: std::io::BufWriter::new(f),
        n: 0,
        ops: 0,
        panics: 0,
        hist: Default::default(),
    };

    if let Some(file) = replay {
        let text = std::fs::read_to_string(&file).expect("read replay file");
        let mut cfg = Cfg::default();
        let mut opsv: Vec<Step> = Vec::new();
        for line in text.lines() {
            let line = line.trim();
            if line.starts_with("CFG") {
                cfg = Cfg::parse_line(line).expect("bad CFG line");
            } else if line.starts_with("OP ") {
                match Op::parse_line(line) {
                    Some(op) => opsv.push(Step::Op(op)),
                    None => match Macro::parse_line(line) {
                        Some(m) => opsv.push(Step::Macro(m)),
                        None => {
                            eprintln!("cannot parse: {line}");
                            std::process::exit(2);
                        }
                    },
                }
            } else if line == "END" {
                break;
            }
        }
        o.case("replay", seed, &cfg, |w| {
            for st in opsv {
                match st {
                    Step::Op(op) => {
                        w.apply(op);
                    }
                    Step::Macro(m) => m.run(w),
                }
            }
        });
    } else {
        let scale = gen::Scale::new(&tier, cases, depth);
        match prop.as_str() {
            "C06" => gen::c06(&mut o, seed, &scale),
            "C13" => gen::c13(&mut o, seed, &scale),
            "C16" => gen::c16(&mut o, seed, &scale),
            other => {
                eprintln!("unknown property {other}");
                std::process::exit(2);
            }
        }
    }
    let _ = o.w.flush();
    eprintln!(
        "tv-nettcp {prop} tier={tier} seed={seed}: cases={} ops={} panics={}",
        o.n, o.ops, o.panics
    );
    for (k, v) in &o.hist {
        eprintln!("  {k}={v}");
    }
}
