//! tv-uring: differential harness for properties C18 (io_uring ring) and C20 (barriers).
//!
//! CLI: tv-uring <PROP> --tier quick|thorough|search --seed <u64> --out <trace> [--replay <case-file>] [--cases N]
//!
//! Runs the real crates in-process, one generated case after another, and writes the trace grammar of
//! /verif/CONVENTIONS.md section 2. Every random choice derives from the PRNG seeded by --seed.

mod c18;
mod c20;
mod util;

use std::io::Write;

fn usage() -> ! {
    eprintln!("usage: tv-uring <C18|C20> --tier quick|thorough|search --seed <u64> --out <file> [--replay <case-file>] [--cases N]");
    std::process::exit(2)
}

pub struct Args {
    pub prop: String,
    pub tier: String,
    pub seed: u64,
    pub out: String,
    pub replay: Option<String>,
    pub cases: Option<usize>,
}

fn parse_args() -> Args {
    let argv: Vec<String> = std::env::args().collect();
    if argv.len() < 2 {
        usage();
    }
    let mut a = Args {
        prop: argv[1].clone(),
        tier: "quick".into(),
        seed: 1,
        out: String::new(),
        replay: None,
        cases: None,
    };
    let mut i = 2;
    while i < argv.len() {
        let need = |i: usize| -> String {
            if i + 1 >= argv.len() {
                usage();
            }
            argv[i + 1].clone()
        };
        match argv[i].as_str() {
            "--tier" => a.tier = need(i),
            "--seed" => a.seed = need(i).parse().unwrap_or_else(|_| usage()),
            "--out" => a.out = need(i),
            "--replay" => a.replay = Some(need(i)),
            "--cases" => a.cases = Some(need(i).parse().unwrap_or_else(|_| usage())),
            _ => usage(),
        }
        i += 2;
    }
    if a.out.is_empty() {
        usage();
    }
    a
}

fn main() {
    let args = parse_args();
    util::install_quiet_panic_hook();
    let file = std::fs::File::create(&args.out).expect("cannot create --out file");
    let mut out = std::io::BufWriter::new(file);
    match args.prop.as_str() {
        "C20" => c20::main(&args, &mut out),
        "C18" => c18::main(&args, &mut out),
        _ => usage(),
    }
    out.flush().expect("flush");
}
