//! C20 — barriers. Two backends execute the same op language against `turmoil::barriers`:
//!   * `direct`: the harness thread is "the simulation": trigger futures are boxed and polled once per op;
//!   * `sim`:    a `turmoil::Sim` with two hosts driven in lock-step; triggers run in tasks spawned on the hosts,
//!               synchronous `FsCorruption` triggers go through the real fs corruption hook
//!               (`corruption_probability = 1`, one-byte `read_at`), test-side ops run between steps.
//!
//! Trace: OP ctl build <noop|suspend|panic> <ty>:<any|eqN|neN|geN|ltN>
//!        OP h<i> trigger <ty> <val> | OP h<i> triggernoop <ty> <val>
//!        OP ctl wait <b> | OP ctl drophandle <tid> | OP ctl dropbarrier <b>
//!        OBS <built b|done|suspended|panic <class>|pending|closed|got <tid> <ty> <val>|ok|invalid> resumed=<tids|->

use crate::util::{self, catch, poll_once, Rng};
use crate::Args;
use std::cell::RefCell;
use std::collections::{BTreeMap, VecDeque};
use std::future::Future;
use std::io::Write;
use std::path::PathBuf;
use std::pin::Pin;
use std::rc::Rc;
use std::task::Poll;
use std::time::Duration;
use turmoil::barriers::{trigger, trigger_noop, Barrier, Reaction, Triggered};
use turmoil_fs::FsCorruption;

#[derive(Clone, Copy, PartialEq, Debug)]
pub enum React {
    Noop,
    Suspend,
    Panic,
}

#[derive(Clone, Copy, PartialEq, Debug)]
pub enum Cond {
    Any,
    Eq(u32),
    Ne(u32),
    Ge(u32),
    Lt(u32),
}

impl Cond {
    fn eval(self, v: u32) -> bool {
        match self {
            Cond::Any => true,
            Cond::Eq(n) => v == n,
            Cond::Ne(n) => v != n,
            Cond::Ge(n) => v >= n,
            Cond::Lt(n) => v < n,
        }
    }
    fn text(self) -> String {
        match self {
            Cond::Any => "any".into(),
            Cond::Eq(n) => format!("eq{n}"),
            Cond::Ne(n) => format!("ne{n}"),
            Cond::Ge(n) => format!("ge{n}"),
            Cond::Lt(n) => format!("lt{n}"),
        }
    }
    fn parse(s: &str) -> Option<Cond> {
        if s == "any" {
            return Some(Cond::Any);
        }
        let (k, n) = s.split_at(2.min(s.len()));
        let n: u32 = n.parse().ok()?;
        match k {
            "eq" => Some(Cond::Eq(n)),
            "ne" => Some(Cond::Ne(n)),
            "ge" => Some(Cond::Ge(n)),
            "lt" => Some(Cond::Lt(n)),
            _ => None,
        }
    }
}

#[derive(Clone, Debug, PartialEq)]
pub enum Op {
    Build { r: React, ty: u8, c: Cond },
    Trigger { host: u8, ty: u8, val: u32 },
    TriggerNoop { host: u8, ty: u8, val: u32 },
    Wait(u32),
    DropHandle(u32),
    DropBarrier(u32),
    /// drop the parked future of trigger call `t` (direct: the boxed future; sim: abort its task)
    Abandon(u32),
}

impl Op {
    fn text(&self) -> String {
        match self {
            Op::Build { r, ty, c } => {
                let r = match r {
                    React::Noop => "noop",
                    React::Suspend => "suspend",
                    React::Panic => "panic",
                };
                format!("ctl build {r} {ty}:{}", c.text())
            }
            Op::Trigger { host, ty, val } => format!("h{host} trigger {ty} {val}"),
            Op::TriggerNoop { host, ty, val } => format!("h{host} triggernoop {ty} {val}"),
            Op::Wait(b) => format!("ctl wait {b}"),
            Op::DropHandle(t) => format!("ctl drophandle {t}"),
            Op::DropBarrier(b) => format!("ctl dropbarrier {b}"),
            Op::Abandon(t) => format!("ctl abandon {t}"),
        }
    }
    fn parse(toks: &[String]) -> Option<Op> {
        let host = toks.first()?.strip_prefix('h').and_then(|h| h.parse::<u8>().ok()).unwrap_or(0);
        match toks.get(1)?.as_str() {
            "build" => {
                let r = match toks.get(2)?.as_str() {
                    "noop" => React::Noop,
                    "suspend" => React::Suspend,
                    "panic" => React::Panic,
                    _ => return None,
                };
                let (ty, c) = toks.get(3)?.split_once(':')?;
                Some(Op::Build { r, ty: ty.parse().ok()?, c: Cond::parse(c)? })
            }
            "trigger" => Some(Op::Trigger { host, ty: toks.get(2)?.parse().ok()?, val: toks.get(3)?.parse().ok()? }),
            "triggernoop" => Some(Op::TriggerNoop { host, ty: toks.get(2)?.parse().ok()?, val: toks.get(3)?.parse().ok()? }),
            "wait" => Some(Op::Wait(toks.get(2)?.parse().ok()?)),
            "drophandle" => Some(Op::DropHandle(toks.get(2)?.parse().ok()?)),
            "dropbarrier" => Some(Op::DropBarrier(toks.get(2)?.parse().ok()?)),
            "abandon" => Some(Op::Abandon(toks.get(2)?.parse().ok()?)),
            _ => None,
        }
    }
}

// ---- trigger value types: three distinct Rust types = three `Event.ty` values -------------------------------

#[derive(Debug, Clone)]
struct EvA {
    val: u32,
    tid: u32,
}
#[derive(Debug, Clone)]
struct EvB {
    val: u32,
    tid: u32,
}

fn fs_path(val: u32) -> PathBuf {
    PathBuf::from(format!("/d/f{val}"))
}
fn fs_val(p: &std::path::Path) -> u32 {
    p.to_string_lossy().trim_start_matches("/d/f").parse().unwrap_or(9999)
}

enum AnyBarrier {
    A(Barrier<EvA>),
    B(Barrier<EvB>),
    C(Barrier<FsCorruption>),
}

enum AnyTriggered {
    A(#[allow(dead_code)] Triggered<EvA>),
    B(#[allow(dead_code)] Triggered<EvB>),
    C(#[allow(dead_code)] Triggered<FsCorruption>),
}

fn reaction(r: React) -> Reaction {
    match r {
        React::Noop => Reaction::Noop,
        React::Suspend => Reaction::Suspend,
        React::Panic => Reaction::Panic,
    }
}

fn build_barrier(r: React, ty: u8, c: Cond, via_new: bool) -> Option<AnyBarrier> {
    Some(match (ty, via_new) {
        (0, true) => AnyBarrier::A(Barrier::new(move |e: &EvA| c.eval(e.val))),
        (1, true) => AnyBarrier::B(Barrier::new(move |e: &EvB| c.eval(e.val))),
        (2, true) => AnyBarrier::C(Barrier::new(move |e: &FsCorruption| c.eval(fs_val(&e.path)))),
        (0, false) => AnyBarrier::A(Barrier::build(reaction(r), move |e: &EvA| c.eval(e.val))),
        (1, false) => AnyBarrier::B(Barrier::build(reaction(r), move |e: &EvB| c.eval(e.val))),
        (2, false) => AnyBarrier::C(Barrier::build(reaction(r), move |e: &FsCorruption| c.eval(fs_val(&e.path)))),
        _ => return None,
    })
}

type TrigFut = Pin<Box<dyn Future<Output = ()>>>;

fn make_trigger(ty: u8, val: u32, tid: u32) -> TrigFut {
    match ty {
        0 => Box::pin(trigger(EvA { val, tid })),
        1 => Box::pin(trigger(EvB { val, tid })),
        _ => Box::pin(trigger(FsCorruption { path: fs_path(val), offset: tid as u64, len: 1 })),
    }
}

fn do_trigger_noop(ty: u8, val: u32, tid: u32) {
    match ty {
        0 => trigger_noop(EvA { val, tid }),
        1 => trigger_noop(EvB { val, tid }),
        _ => trigger_noop(FsCorruption { path: fs_path(val), offset: tid as u64, len: 1 }),
    }
}

type HeldFut<T> = Pin<Box<dyn Future<Output = Option<Triggered<T>>>>>;

/// A `wait()` future the test keeps parked across other operations (a waiter that registered *before* the
/// trigger arrives). It borrows its barrier: the barrier is boxed (stable address) and the future is always
/// dropped before the barrier is touched in any other way.
enum HeldWait {
    A(HeldFut<EvA>),
    B(HeldFut<EvB>),
    C(HeldFut<FsCorruption>),
}

/// Test-side half shared by both backends: barriers, handles, wait / drop.
#[derive(Default)]
struct TestSide {
    /// declared first: dropped before the barriers they borrow
    held: BTreeMap<u32, HeldWait>,
    barriers: Vec<Option<Box<AnyBarrier>>>,
    handles: BTreeMap<u32, AnyTriggered>,
    waits: BTreeMap<u32, u32>,
}

impl TestSide {
    fn build(&mut self, r: React, ty: u8, c: Cond) -> String {
        // `Barrier::new(c)` is `Barrier::build(Reaction::Noop, c)`: every other Noop barrier goes through it
        let via_new = r == React::Noop && self.barriers.len() % 2 == 0;
        match build_barrier(r, ty, c, via_new) {
            Some(b) => {
                self.barriers.push(Some(Box::new(b)));
                format!("built {}", self.barriers.len() - 1)
            }
            None => "invalid".into(),
        }
    }
    fn wait(&mut self, b: u32) -> String {
        let Some(Some(bar)) = self.barriers.get_mut(b as usize) else {
            return "invalid".into();
        };
        let nth = {
            let c = self.waits.entry(b).or_insert(0);
            *c += 1;
            *c
        };
        // a wait future left parked by an earlier `wait` on this barrier is polled again; otherwise a fresh one.
        // A pending fresh one is kept parked every other time (cancelling and re-issuing `recv` is equivalent).
        macro_rules! go {
            ($bar:expr, $t:ty, $held:path, $wrap:path, $ty:expr, $val:expr, $tid:expr) => {{
                let mut fut = match self.held.remove(&b) {
                    Some($held(f)) => f,
                    _ => {
                        let bar_static: &'static mut Barrier<$t> = unsafe { &mut *($bar as *mut Barrier<$t>) };
                        let f: HeldFut<$t> = Box::pin(bar_static.wait());
                        f
                    }
                };
                match poll_once(fut.as_mut()) {
                    Poll::Pending => {
                        if nth % 2 == 0 {
                            self.held.insert(b, $held(fut));
                        }
                        "pending".to_string()
                    }
                    Poll::Ready(None) => "closed".to_string(),
                    Poll::Ready(Some(t)) => {
                        let (val, tid): (u32, u32) = ($val(&t), $tid(&t));
                        self.handles.insert(tid, $wrap(t));
                        format!("got {} {} {}", tid, $ty, val)
                    }
                }
            }};
        }
        match &mut **bar {
            AnyBarrier::A(bar) => go!(bar, EvA, HeldWait::A, AnyTriggered::A, 0, |t: &Triggered<EvA>| t.val, |t: &Triggered<EvA>| t.tid),
            AnyBarrier::B(bar) => go!(bar, EvB, HeldWait::B, AnyTriggered::B, 1, |t: &Triggered<EvB>| t.val, |t: &Triggered<EvB>| t.tid),
            AnyBarrier::C(bar) => go!(
                bar,
                FsCorruption,
                HeldWait::C,
                AnyTriggered::C,
                2,
                |t: &Triggered<FsCorruption>| fs_val(&t.path),
                |t: &Triggered<FsCorruption>| t.offset as u32
            ),
        }
    }
    fn drop_handle(&mut self, t: u32) -> String {
        self.handles.remove(&t);
        "ok".into()
    }
    fn drop_barrier(&mut self, b: u32) -> String {
        self.held.remove(&b); // the parked waiter goes first
        match self.barriers.get_mut(b as usize) {
            Some(slot @ Some(_)) => {
                *slot = None;
                "ok".into()
            }
            _ => "invalid".into(),
        }
    }
}

struct FileBag {
    files: Vec<turmoil::fs::shim::std::fs::File>,
    drop_them: bool,
}

impl FileBag {
    fn push(&mut self, f: turmoil::fs::shim::std::fs::File) {
        self.files.push(f);
    }
    fn len(&self) -> usize {
        self.files.len()
    }
}

impl std::ops::Index<usize> for FileBag {
    type Output = turmoil::fs::shim::std::fs::File;
    fn index(&self, i: usize) -> &Self::Output {
        &self.files[i]
    }
}

impl Drop for FileBag {
    fn drop(&mut self) {
        if !self.drop_them {
            for f in self.files.drain(..) {
                std::mem::forget(f);
            }
        }
    }
}

trait Backend {
    /// Executes one op; returns (result text, resumed tids sorted) or None when the backend is dead.
    fn exec(&mut self, op: &Op) -> Option<(String, Vec<u32>)>;
    /// Several trigger ops issued before the simulation moves on; returns them in the order they executed.
    fn exec_batch(&mut self, ops: &[Op]) -> Option<Vec<(Op, String, Vec<u32>)>> {
        let mut out = vec![];
        for op in ops {
            let (r, res) = self.exec(op)?;
            out.push((op.clone(), r, res));
        }
        Some(out)
    }
    fn finish(self: Box<Self>);
}

// ---- direct backend -------------------------------------------------------------------------------

#[derive(Default)]
struct Direct {
    test: TestSide,
    pending: Vec<(u32, TrigFut)>,
    next_tid: u32,
}

impl Direct {
    fn poll_pending(&mut self) -> Vec<u32> {
        let mut resumed = vec![];
        let mut keep = vec![];
        for (tid, mut fut) in self.pending.drain(..) {
            match catch(|| poll_once(fut.as_mut())) {
                Ok(Poll::Ready(())) | Err(_) => resumed.push(tid),
                Ok(Poll::Pending) => keep.push((tid, fut)),
            }
        }
        self.pending = keep;
        resumed.sort();
        resumed
    }
}

impl Backend for Direct {
    fn exec(&mut self, op: &Op) -> Option<(String, Vec<u32>)> {
        let res = match op {
            Op::Build { r, ty, c } => self.test.build(*r, *ty, *c),
            Op::Trigger { ty, val, .. } => {
                let tid = self.next_tid;
                self.next_tid += 1;
                let mut fut = make_trigger(*ty, *val, tid);
                match catch(|| poll_once(fut.as_mut())) {
                    Ok(Poll::Ready(())) => "done".into(),
                    Ok(Poll::Pending) => {
                        self.pending.push((tid, fut));
                        // it was just polled; skip it in this round
                        let mut others = std::mem::take(&mut self.pending);
                        let last = others.pop();
                        self.pending = others;
                        let resumed = self.poll_pending();
                        if let Some(l) = last {
                            self.pending.push(l);
                        }
                        return Some(("suspended".into(), resumed));
                    }
                    Err(class) => {
                        std::mem::forget(fut);
                        format!("panic {class}")
                    }
                }
            }
            Op::TriggerNoop { ty, val, .. } => {
                let tid = self.next_tid;
                self.next_tid += 1;
                match catch(|| do_trigger_noop(*ty, *val, tid)) {
                    Ok(()) => "done".into(),
                    Err(class) => format!("panic {class}"),
                }
            }
            Op::Wait(b) => self.test.wait(*b),
            Op::DropHandle(t) => self.test.drop_handle(*t),
            Op::DropBarrier(b) => self.test.drop_barrier(*b),
            Op::Abandon(t) => {
                self.pending.retain(|(tid, _)| tid != t);
                "ok".into()
            }
        };
        let resumed = self.poll_pending();
        Some((res, resumed))
    }
    fn finish(self: Box<Self>) {}
}

// ---- sim backend -----------------------------------------------------------------------------------

#[derive(Clone)]
enum HostOp {
    Trigger { tid: u32, ty: u8, val: u32 },
    TriggerNoop { tid: u32, ty: u8, val: u32 },
    Abandon { tid: u32 },
}

struct HostLink {
    queue: Rc<RefCell<VecDeque<HostOp>>>,
    notify: Rc<tokio::sync::Notify>,
}

struct SimBackend {
    /// which host issued trigger call tid
    owner: BTreeMap<u32, usize>,
    sim: Option<turmoil::Sim<'static>>,
    hosts: Vec<HostLink>,
    /// tid -> 1 started, 2 finished
    flags: Rc<RefCell<BTreeMap<u32, u8>>>,
    suspended: Vec<u32>,
    test: TestSide,
    next_tid: u32,
}

const NHOSTS: usize = 2;

impl SimBackend {
    fn new(seed: u64, dropfiles: bool) -> Self {
        let mut builder = turmoil::Builder::new();
        builder
            .simulation_duration(Duration::from_secs(100_000))
            .tick_duration(Duration::from_millis(1))
            .rng_seed(seed);
        builder.fs().corruption_probability(1.0);
        let mut sim = builder.build();
        let flags: Rc<RefCell<BTreeMap<u32, u8>>> = Rc::default();
        let mut hosts = vec![];
        for h in 0..NHOSTS {
            let queue: Rc<RefCell<VecDeque<HostOp>>> = Rc::default();
            let notify = Rc::new(tokio::sync::Notify::new());
            hosts.push(HostLink { queue: queue.clone(), notify: notify.clone() });
            let flags = flags.clone();
            sim.client(format!("h{h}"), async move {
                use std::os::unix::fs::FileExt;
                use turmoil::fs::shim::std::fs::{create_dir_all, OpenOptions};
                create_dir_all("/d")?;
                // never run `File::drop`: after a panic inside the corruption hook the fs mutex is poisoned and
                // the shim's `Drop for File` would panic while unwinding (process abort)
                // (`dropfiles` cases want exactly that and run in a child process)
                let mut files = FileBag { files: vec![], drop_them: dropfiles };
                for k in 0..4u32 {
                    let f = OpenOptions::new().read(true).write(true).create(true).open(fs_path(k))?;
                    f.write_at(&[0x55u8; 4096], 0)?;
                    files.push(f);
                }
                let mut tasks: BTreeMap<u32, tokio::task::JoinHandle<()>> = BTreeMap::new();
                loop {
                    notify.notified().await;
                    loop {
                        let Some(op) = queue.borrow_mut().pop_front() else { break };
                        match op {
                            HostOp::Trigger { tid, ty, val } => {
                                let flags = flags.clone();
                                let jh = tokio::task::spawn_local(async move {
                                    flags.borrow_mut().insert(tid, 1);
                                    make_trigger(ty, val, tid).await;
                                    flags.borrow_mut().insert(tid, 2);
                                });
                                tasks.insert(tid, jh);
                            }
                            HostOp::Abandon { tid } => {
                                if let Some(jh) = tasks.remove(&tid) {
                                    jh.abort();
                                }
                            }
                            HostOp::TriggerNoop { tid, ty, val } => {
                                flags.borrow_mut().insert(tid, 1);
                                if ty == 2 {
                                    // the real path: silent corruption on read fires turmoil's fs corruption hook
                                    let mut b = [0u8; 1];
                                    let f = &files[(val as usize) % files.len()];
                                    let _ = f.read_at(&mut b, (tid % 4096) as u64);
                                } else {
                                    do_trigger_noop(ty, val, tid);
                                }
                                flags.borrow_mut().insert(tid, 2);
                            }
                        }
                    }
                }
            });
        }
        let mut me = SimBackend { owner: BTreeMap::new(), sim: Some(sim), hosts, flags, suspended: vec![], test: TestSide::default(), next_tid: 0 };
        // one step so that every host has created its files and parked on `notified()`
        let _ = me.step();
        me
    }

    fn step(&mut self) -> Result<(), &'static str> {
        let Some(sim) = self.sim.as_mut() else { return Err("dead") };
        match catch(|| sim.step()) {
            Ok(Ok(_)) => Ok(()),
            Ok(Err(_)) => {
                self.kill();
                Err("simerr")
            }
            Err(class) => {
                self.kill();
                Err(class)
            }
        }
    }

    fn kill(&mut self) {
        if let Some(sim) = self.sim.take() {
            // the runtime of a panicked host is not in a state worth unwinding through
            std::mem::forget(sim);
        }
    }

    fn collect_resumed(&mut self) -> Vec<u32> {
        let flags = self.flags.borrow();
        let mut resumed = vec![];
        self.suspended.retain(|t| {
            if flags.get(t) == Some(&2) {
                resumed.push(*t);
                false
            } else {
                true
            }
        });
        resumed.sort();
        resumed
    }
}

impl Backend for SimBackend {
    fn exec(&mut self, op: &Op) -> Option<(String, Vec<u32>)> {
        self.sim.as_ref()?;
        let mut issued: Option<u32> = None;
        let res = match op {
            Op::Build { r, ty, c } => self.test.build(*r, *ty, *c),
            Op::Trigger { host, ty, val } | Op::TriggerNoop { host, ty, val } => {
                let tid = self.next_tid;
                self.next_tid += 1;
                issued = Some(tid);
                self.owner.insert(tid, (*host as usize) % NHOSTS);
                let link = &self.hosts[(*host as usize) % NHOSTS];
                let hop = if matches!(op, Op::Trigger { .. }) {
                    HostOp::Trigger { tid, ty: *ty, val: *val }
                } else {
                    HostOp::TriggerNoop { tid, ty: *ty, val: *val }
                };
                link.queue.borrow_mut().push_back(hop);
                link.notify.notify_one();
                String::new()
            }
            Op::Wait(b) => self.test.wait(*b),
            Op::DropHandle(t) => self.test.drop_handle(*t),
            Op::DropBarrier(b) => self.test.drop_barrier(*b),
            Op::Abandon(t) => {
                if let Some(h) = self.owner.get(t).copied() {
                    self.hosts[h].queue.borrow_mut().push_back(HostOp::Abandon { tid: *t });
                    self.hosts[h].notify.notify_one();
                }
                self.suspended.retain(|x| x != t);
                "ok".into()
            }
        };
        let stepped = self.step();
        let res = match (issued, stepped) {
            (_, Err(class)) => return Some((format!("panic {class}"), vec![])),
            (Some(tid), Ok(())) => match self.flags.borrow().get(&tid) {
                Some(2) => "done".to_string(),
                Some(1) => {
                    self.suspended.push(tid);
                    "suspended".to_string()
                }
                _ => "notrun".to_string(),
            },
            (None, Ok(())) => res,
        };
        let mut resumed = self.collect_resumed();
        if let Some(tid) = issued {
            resumed.retain(|t| *t != tid);
        }
        Some((res, resumed))
    }
    /// All of them run in ONE `sim.step()`: hosts take their turn in registration order; inside a host the script
    /// task runs its queue (synchronous triggers fire inline, async ones are spawned) and the spawned tasks follow
    /// in spawn order.
    fn exec_batch(&mut self, ops: &[Op]) -> Option<Vec<(Op, String, Vec<u32>)>> {
        self.sim.as_ref()?;
        let mut order: Vec<(usize, bool, usize)> = vec![]; // (host, async?, position)
        for (i, op) in ops.iter().enumerate() {
            match op {
                Op::Trigger { host, .. } => order.push(((*host as usize) % NHOSTS, true, i)),
                Op::TriggerNoop { host, .. } => order.push(((*host as usize) % NHOSTS, false, i)),
                _ => return None,
            }
        }
        order.sort();
        let mut issued = vec![];
        for (h, is_async, i) in &order {
            let tid = self.next_tid;
            self.next_tid += 1;
            let (ty, val) = match &ops[*i] {
                Op::Trigger { ty, val, .. } | Op::TriggerNoop { ty, val, .. } => (*ty, *val),
                _ => unreachable!(),
            };
            issued.push((tid, *i));
            self.owner.insert(tid, *h);
            let hop = if *is_async { HostOp::Trigger { tid, ty, val } } else { HostOp::TriggerNoop { tid, ty, val } };
            self.hosts[*h].queue.borrow_mut().push_back(hop);
        }
        for h in &self.hosts {
            h.notify.notify_one();
        }
        if let Err(class) = self.step() {
            return Some(vec![(ops[issued[0].1].clone(), format!("panic {class}"), vec![])]);
        }
        let mut out = vec![];
        for (tid, i) in issued {
            let res = match self.flags.borrow().get(&tid) {
                Some(2) => "done".to_string(),
                Some(1) => {
                    self.suspended.push(tid);
                    "suspended".to_string()
                }
                _ => "notrun".to_string(),
            };
            out.push((ops[i].clone(), res, vec![]));
        }
        Some(out)
    }
    fn finish(mut self: Box<Self>) {
        // drop test-side objects first (barriers unregister), then the sim
        self.test = TestSide::default();
        if let Some(sim) = self.sim.take() {
            let _ = catch(move || drop(sim));
        }
    }
}

// ---- case execution -----------------------------------------------------------------------------------

#[derive(Clone)]
pub struct Case {
    family: &'static str,
    backend: &'static str,
    ops: Vec<Op>,
    /// sim backend: the hosts keep their shim `File`s in an ordinary `Vec` (dropped when the host's future unwinds).
    /// Such a case may take the whole process down (finding F-C20-1), so it always runs in a child process.
    dropfiles: bool,
    /// sim backend: maximal runs of consecutive trigger ops (up to 4) are issued within one `sim.step()`
    batch: bool,
}

/// Run a `dropfiles` case in a child process (this binary, `--replay`), streaming its lines to a file, and turn
/// the death of the child into an observation: `abort` for the operation that was executing.
fn run_case_in_child(case: &Case, seed: u64, args: &Args, n: usize) -> Vec<String> {
    let case_path = format!("{}.child-{n}.case", args.out);
    let out_path = format!("{}.child-{n}.trace", args.out);
    let mut text = format!("CASE 0 family={} seed={seed}\nCFG backend={} simseed={seed} dropfiles=1\n", case.family, case.backend);
    for op in &case.ops {
        text.push_str(&format!("OP {}\n", op.text()));
    }
    text.push_str("END\n");
    std::fs::write(&case_path, text).expect("child case file");
    let status = std::process::Command::new(std::env::current_exe().expect("current_exe"))
        .args(["C20", "--tier", &args.tier, "--seed", &seed.to_string(), "--out", &out_path, "--replay", &case_path])
        .env("TV_URING_CHILD", "1")
        .stdout(std::process::Stdio::null())
        .stderr(std::process::Stdio::null())
        .status();
    let live_path = format!("{out_path}.live");
    let body = std::fs::read_to_string(&live_path).unwrap_or_default();
    let _ = std::fs::remove_file(&case_path);
    let _ = std::fs::remove_file(&out_path);
    let _ = std::fs::remove_file(&live_path);
    let mut lines: Vec<String> = body.lines().filter(|l| l.starts_with("OP ") || l.starts_with("OBS ")).map(|l| l.to_string()).collect();
    let died = match &status {
        Ok(st) => !st.success(),
        Err(_) => true,
    };
    if died {
        use std::os::unix::process::ExitStatusExt;
        let how = match status.ok().and_then(|st| st.signal()) {
            Some(6) => "abort".to_string(),
            Some(sig) => format!("killed {sig}"),
            None => "childfail".to_string(),
        };
        // the OP line is streamed before the call: an OP without OBS is where the process died
        if lines.last().map(|l| l.starts_with("OP ")).unwrap_or(false) {
            lines.push(format!("OBS {how} resumed=-"));
        } else {
            lines.push(format!("OBS {how}-between-ops resumed=-"));
        }
    }
    lines
}

fn run_case(case: &Case, seed: u64, live: Option<String>) -> Vec<String> {
    let case = case.clone();
    let handle = std::thread::Builder::new()
        .name("case".into())
        .spawn(move || {
            util::install_quiet_panic_hook();
            let mut lines = vec![];
            let emit = |l: &str| {
                if let Some(p) = &live {
                    use std::io::Write as _;
                    if let Ok(mut f) = std::fs::OpenOptions::new().append(true).create(true).open(p) {
                        let _ = writeln!(f, "{l}");
                        let _ = f.flush();
                    }
                }
            };
            let mut be: Box<dyn Backend> = if case.backend == "sim" {
                Box::new(SimBackend::new(seed, case.dropfiles))
            } else {
                Box::new(Direct::default())
            };
            let mut i = 0usize;
            while case.batch && i < case.ops.len() {
                // batch mode: group consecutive triggers
                let is_trig = |o: &Op| matches!(o, Op::Trigger { .. } | Op::TriggerNoop { .. });
                let mut j = i;
                while j < case.ops.len() && is_trig(&case.ops[j]) && j - i < 4 {
                    j += 1;
                }
                let fmt = |resumed: &Vec<u32>| {
                    if resumed.is_empty() { "-".to_string() } else { resumed.iter().map(|t| t.to_string()).collect::<Vec<_>>().join(",") }
                };
                if j - i >= 2 {
                    match be.exec_batch(&case.ops[i..j]) {
                        None => break,
                        Some(rs) => {
                            for (op, res, resumed) in rs {
                                lines.push(format!("OP {}", op.text()));
                                lines.push(format!("OBS {res} resumed={}", fmt(&resumed)));
                            }
                        }
                    }
                    i = j;
                } else {
                    match be.exec(&case.ops[i]) {
                        None => break,
                        Some((res, resumed)) => {
                            lines.push(format!("OP {}", case.ops[i].text()));
                            lines.push(format!("OBS {res} resumed={}", fmt(&resumed)));
                        }
                    }
                    i += 1;
                }
            }
            for op in case.ops.iter().filter(|_| !case.batch) {
                if live.is_some() {
                    emit(&format!("OP {}", op.text()));
                }
                match be.exec(op) {
                    None => break,
                    Some((res, resumed)) => {
                        lines.push(format!("OP {}", op.text()));
                        let r = if resumed.is_empty() {
                            "-".to_string()
                        } else {
                            resumed.iter().map(|t| t.to_string()).collect::<Vec<_>>().join(",")
                        };
                        lines.push(format!("OBS {res} resumed={r}"));
                        emit(&format!("OBS {res} resumed={r}"));
                    }
                }
            }
            be.finish();
            lines
        })
        .expect("spawn");
    match handle.join() {
        Ok(l) => l,
        Err(_) => vec!["OBS panic harness".into()],
    }
}

// ---- generators -----------------------------------------------------------------------------------

struct ExhBounds {
    nb: usize,
    nt: usize,
    nc: usize,
    len: usize,
}

/// Depth-first enumeration of every op sequence within the bounds; only ops that are meaningful in the
/// current abstract state are proposed (wait / drop on live objects; nothing after a panic-matched trigger
/// is pruned — the code keeps running).
fn enumerate(b: &ExhBounds, out: &mut Vec<Vec<Op>>) {
    #[derive(Clone)]
    struct St {
        ops: Vec<Op>,
        built: usize,
        live: Vec<u32>,
        trig: usize,
        ctl: usize,
        /// number of reports that may be queued per barrier is not tracked; wait on any live barrier is proposed
        handles_possible: Vec<u32>,
    }
    fn rec(b: &ExhBounds, s: &St, out: &mut Vec<Vec<Op>>) {
        if !s.ops.is_empty() && s.trig > 0 {
            out.push(s.ops.clone());
        }
        if s.ops.len() >= b.len {
            return;
        }
        if s.built < b.nb {
            for r in [React::Noop, React::Suspend, React::Panic] {
                for c in [Cond::Any, Cond::Eq(1)] {
                    // canonical: a barrier built after the first one must not be an exact duplicate of nothing — keep all
                    let mut n = s.clone();
                    n.ops.push(Op::Build { r, ty: 0, c });
                    n.live.push(s.built as u32);
                    n.built += 1;
                    rec(b, &n, out);
                }
            }
        }
        if s.trig < b.nt && s.built > 0 {
            for sync in [false, true] {
                for val in [0u32, 1] {
                    let mut n = s.clone();
                    let host = (s.trig % 2) as u8;
                    n.ops.push(if sync { Op::TriggerNoop { host, ty: 0, val } } else { Op::Trigger { host, ty: 0, val } });
                    n.handles_possible.push(s.trig as u32);
                    n.trig += 1;
                    rec(b, &n, out);
                }
            }
        }
        if s.ctl < b.nc && s.trig > 0 {
            for &l in &s.live {
                let mut n = s.clone();
                n.ops.push(Op::Wait(l));
                n.ctl += 1;
                rec(b, &n, out);
                let mut n = s.clone();
                n.ops.push(Op::DropBarrier(l));
                n.live.retain(|x| *x != l);
                n.ctl += 1;
                rec(b, &n, out);
            }
            // drop of a handle only after at least one wait
            if s.ops.iter().any(|o| matches!(o, Op::Wait(_))) {
                for &t in &s.handles_possible {
                    let mut n = s.clone();
                    n.ops.push(Op::DropHandle(t));
                    n.handles_possible.retain(|x| *x != t);
                    n.ctl += 1;
                    rec(b, &n, out);
                }
            }
        }
    }
    let s = St { ops: vec![], built: 0, live: vec![], trig: 0, ctl: 0, handles_possible: vec![] };
    rec(b, &s, out);
}

/// Keep only maximal sequences (a sequence that is a proper prefix of another enumerated one adds nothing:
/// observations are per op).
fn maximal_only(seqs: Vec<Vec<Op>>) -> Vec<Vec<Op>> {
    let mut out: Vec<Vec<Op>> = vec![];
    // DFS order: a sequence is immediately followed by its extensions
    for i in 0..seqs.len() {
        let is_prefix = i + 1 < seqs.len() && seqs[i + 1].len() > seqs[i].len() && seqs[i + 1][..seqs[i].len()] == seqs[i][..];
        if !is_prefix {
            out.push(seqs[i].clone());
        }
    }
    out
}

fn random_case(rng: &mut Rng, sim: bool, fshook: bool) -> Vec<Op> {
    let len = rng.range(6, if sim { 18 } else { 30 }) as usize;
    let max_b = rng.range(1, 5) as usize;
    let tys: &[u8] = if fshook { &[2, 2, 0] } else if rng.chance(1, 2) { &[0] } else { &[0, 1] };
    let vmax = rng.range(1, 3) as u32;
    let mut ops = vec![];
    let mut built = 0u32;
    let mut live: Vec<u32> = vec![];
    let mut trig = 0u32;
    let mut maybe_handles: Vec<u32> = vec![];
    let sim_no_abandon = false;
    // reaction weights: panics are rarer in sim cases (they end the case)
    let pick_react = |rng: &mut Rng| -> React {
        let x = rng.below(if sim { 12 } else { 7 });
        match x {
            0 => React::Panic,
            1..=3 => React::Suspend,
            _ if sim && x >= 8 => React::Suspend,
            _ => React::Noop,
        }
    };
    let pick_cond = |rng: &mut Rng| -> Cond {
        let n = rng.below(vmax as u64 + 1) as u32;
        match rng.below(6) {
            0 | 1 => Cond::Any,
            2 => Cond::Eq(n),
            3 => Cond::Ne(n),
            4 => Cond::Ge(n),
            _ => Cond::Lt(n),
        }
    };
    while ops.len() < len {
        let x = rng.below(100);
        if (live.is_empty() && (built as usize) < max_b + 2) || (x < 15 && live.len() < max_b) {
            let ty = *rng.pick(tys);
            ops.push(Op::Build { r: pick_react(rng), ty, c: pick_cond(rng) });
            live.push(built);
            built += 1;
        } else if x < 55 {
            let ty = *rng.pick(tys);
            let host = rng.below(2) as u8;
            let val = rng.below(vmax as u64 + 1) as u32;
            let sync = if ty == 2 && fshook { rng.chance(3, 4) } else { rng.chance(1, 4) };
            ops.push(if sync { Op::TriggerNoop { host, ty, val } } else { Op::Trigger { host, ty, val } });
            maybe_handles.push(trig);
            trig += 1;
        } else if x < 75 && !live.is_empty() {
            ops.push(Op::Wait(*rng.pick(&live)));
        } else if x < 78 && trig > 0 && !sim_no_abandon {
            ops.push(Op::Abandon(rng.below(trig as u64) as u32));
        } else if x < 90 && !maybe_handles.is_empty() {
            let i = rng.below(maybe_handles.len() as u64) as usize;
            ops.push(Op::DropHandle(maybe_handles.remove(i)));
        } else if !live.is_empty() {
            let i = rng.below(live.len() as u64) as usize;
            ops.push(Op::DropBarrier(live.remove(i)));
        }
    }
    // closing phase: drain and drop everything so that every suspended trigger must have resumed
    for &l in &live {
        ops.push(Op::Wait(l));
    }
    for &l in &live {
        ops.push(Op::DropBarrier(l));
    }
    for t in maybe_handles {
        ops.push(Op::DropHandle(t));
    }
    ops
}

/// Long backlogs: hundreds of matching triggers (sync and async) queued on one barrier — and spread over
/// several — before the test waits at all; then waits that must hand out every one of them, once, in order.
/// The channel between source and test has no capacity the source could ever notice.
fn backlog_case(rng: &mut Rng, sim: bool, fshook: bool) -> Vec<Op> {
    let ty: u8 = if fshook { 2 } else { 0 };
    let nb = rng.range(1, 3) as usize;
    let n = if sim { rng.range(70, 150) } else { rng.range(70, 400) } as usize;
    // sim: a panic ends the case, so only reactions that cannot panic with the trigger kinds used
    let main_react = if fshook || rng.chance(3, 4) { React::Noop } else { React::Suspend };
    let mut ops = vec![];
    let mut reacts = vec![];
    match nb {
        1 => {
            ops.push(Op::Build { r: main_react, ty, c: Cond::Any });
            reacts.push((main_react, Cond::Any));
        }
        2 => {
            let r1 = if fshook || rng.chance(1, 2) { React::Noop } else { React::Suspend };
            ops.push(Op::Build { r: main_react, ty, c: Cond::Ne(1) });
            ops.push(Op::Build { r: r1, ty, c: Cond::Eq(1) });
            reacts.push((main_react, Cond::Ne(1)));
            reacts.push((r1, Cond::Eq(1)));
        }
        _ => {
            let r1 = if fshook || rng.chance(1, 2) { React::Noop } else { React::Suspend };
            let r2 = if !sim && rng.chance(1, 4) { React::Panic } else { React::Noop };
            ops.push(Op::Build { r: main_react, ty, c: Cond::Lt(1) });
            ops.push(Op::Build { r: r1, ty, c: Cond::Eq(1) });
            ops.push(Op::Build { r: r2, ty, c: Cond::Any });
            reacts.push((main_react, Cond::Lt(1)));
            reacts.push((r1, Cond::Eq(1)));
            reacts.push((r2, Cond::Any));
        }
    }
    let first_match = |v: u32| reacts.iter().position(|(_, c)| c.eval(v));
    let mut counts = vec![0usize; nb];
    let mut tid = 0u32;
    let mut early_waits = rng.chance(1, 4);
    for i in 0..n {
        let val = match rng.below(10) {
            0..=6 => 0,
            7 | 8 => 1,
            _ => rng.range(2, 3) as u32,
        };
        let b = first_match(val);
        let react = b.map(|b| reacts[b].0);
        // sync triggers on a Suspend barrier panic (misuse): fine on the direct backend, fatal in a Sim
        let sync = if fshook {
            true
        } else if sim && react == Some(React::Suspend) {
            false
        } else {
            rng.chance(1, 2)
        };
        let host = rng.below(2) as u8;
        ops.push(if sync { Op::TriggerNoop { host, ty, val } } else { Op::Trigger { host, ty, val } });
        if let (Some(b), Some(r)) = (b, react) {
            if r == React::Noop || (r == React::Suspend && !sync) {
                counts[b] += 1;
            }
        }
        tid += 1;
        if early_waits && i > 80 && rng.chance(1, 40) {
            // a short burst of waits in the middle, then the backlog keeps growing
            for _ in 0..rng.range(1, 5) {
                ops.push(Op::Wait(0));
            }
            early_waits = rng.chance(1, 2);
        }
    }
    // now the test catches up
    let mut order: Vec<usize> = (0..nb).collect();
    if rng.chance(1, 2) {
        order.reverse();
    }
    let mut got = 0u32;
    for b in order {
        for k in 0..counts[b] + 2 {
            ops.push(Op::Wait(b as u32));
            if k % 7 == 3 && rng.chance(1, 2) && got < tid {
                ops.push(Op::DropHandle(rng.below(tid as u64) as u32));
            }
            got += 1;
        }
    }
    for b in 0..nb {
        ops.push(Op::DropBarrier(b as u32));
    }
    // every handle goes: whatever was parked must have come back by the end
    for t in 0..tid {
        ops.push(Op::DropHandle(t));
    }
    ops
}

/// Triggers from both hosts (async and sync) issued within ONE simulation step, several rounds, with waits and
/// handle drops between the rounds. Reactions that cannot panic with the trigger kinds used.
fn samestep_case(rng: &mut Rng) -> Vec<Op> {
    let mut ops = vec![];
    let nb = rng.range(1, 3) as u32;
    for _ in 0..nb {
        let n = rng.below(3) as u32;
        let c = match rng.below(5) {
            0 | 1 => Cond::Any,
            2 => Cond::Eq(n),
            3 => Cond::Ge(n),
            _ => Cond::Lt(n),
        };
        if rng.chance(1, 2) {
            ops.push(Op::Build { r: React::Suspend, ty: 0, c });
        } else {
            ops.push(Op::Build { r: React::Noop, ty: rng.below(2) as u8, c });
        }
    }
    let mut tid = 0u32;
    for _round in 0..rng.range(2, 5) {
        for _ in 0..rng.range(2, 4) {
            let host = rng.below(2) as u8;
            let val = rng.below(3) as u32;
            // synchronous triggers only of type 1 (no Suspend barrier listens there)
            if rng.chance(1, 3) {
                ops.push(Op::TriggerNoop { host, ty: 1, val });
            } else {
                ops.push(Op::Trigger { host, ty: rng.below(2) as u8, val });
            }
            tid += 1;
        }
        for _ in 0..rng.range(1, 4) {
            match rng.below(3) {
                0 | 1 => ops.push(Op::Wait(rng.below(nb as u64) as u32)),
                _ => ops.push(Op::DropHandle(rng.below(tid as u64) as u32)),
            }
        }
    }
    for b in 0..nb {
        for _ in 0..tid + 1 {
            ops.push(Op::Wait(b));
        }
    }
    for b in 0..nb {
        ops.push(Op::DropBarrier(b));
    }
    for t in 0..tid {
        ops.push(Op::DropHandle(t));
    }
    ops
}

pub fn main(args: &Args, out: &mut dyn Write) {
    let mut rng = Rng::new(args.seed);
    let mut cases: Vec<Case> = vec![];

    if args.tier == "count" {
        for (nb, nt, nc, len) in [(2, 3, 2, 5), (2, 3, 3, 5), (3, 3, 3, 5), (2, 4, 3, 6), (3, 4, 2, 6), (2, 3, 3, 6), (3, 4, 3, 5)] {
            let mut seqs = vec![];
            enumerate(&ExhBounds { nb, nt, nc, len }, &mut seqs);
            let n = seqs.len();
            eprintln!("nb={nb} nt={nt} nc={nc} len={len}: {} / maximal {}", n, maximal_only(seqs).len());
        }
        return;
    }
    if let Some(path) = &args.replay {
        let sc = util::read_case_file(path);
        let backend = sc.cfg.iter().find(|(k, _)| k == "backend").map(|(_, v)| v.clone()).unwrap_or("direct".into());
        let ops: Vec<Op> = sc.ops.iter().filter_map(|t| Op::parse(t)).collect();
        let dropfiles = sc.cfg.iter().any(|(k, v)| k == "dropfiles" && v == "1");
        cases.push(Case { family: "replay", backend: if backend == "sim" { "sim" } else { "direct" }, ops, dropfiles, batch: false });
    } else {
        // (small bounds: enumerated completely) (large bounds: every `stride`-th sequence, offset from the seed)
        let (small, large, stride, n_rand, n_sim_exh, n_sim_rand, n_fs) = match args.tier.as_str() {
            "thorough" => (
                ExhBounds { nb: 2, nt: 3, nc: 3, len: 5 },
                ExhBounds { nb: 3, nt: 4, nc: 3, len: 6 },
                1usize, 20_000usize, 4_000usize, 3_000usize, 3_000usize,
            ),
            "search" => (
                ExhBounds { nb: 2, nt: 3, nc: 3, len: 5 },
                ExhBounds { nb: 3, nt: 4, nc: 3, len: 6 },
                12, 5_000, 1_000, 1_000, 1_000,
            ),
            _ => (
                ExhBounds { nb: 2, nt: 3, nc: 3, len: 5 },
                ExhBounds { nb: 3, nt: 4, nc: 3, len: 6 },
                60, 1_500, 300, 250, 250,
            ),
        };
        let mut seqs = vec![];
        enumerate(&small, &mut seqs);
        let total_enum = seqs.len();
        let seqs = maximal_only(seqs);
        eprintln!("C20 exhaustive (complete): {} sequences, {} maximal (bounds nb={} nt={} nc={} len={})", total_enum, seqs.len(), small.nb, small.nt, small.nc, small.len);
        for s in seqs.iter() {
            cases.push(Case { family: "exh", backend: "direct", ops: s.clone(), dropfiles: false, batch: false });
        }
        let mut big = vec![];
        enumerate(&large, &mut big);
        let big = maximal_only(big);
        let offset = (rng.next() as usize) % stride;
        let mut taken = 0usize;
        for (i, s) in big.iter().enumerate() {
            if i % stride == offset && s.len() > small.len {
                cases.push(Case { family: "exhbig", backend: "direct", ops: s.clone(), dropfiles: false, batch: false });
                taken += 1;
            }
        }
        eprintln!("C20 exhaustive (large bounds nb={} nt={} nc={} len={}): {} maximal, stride {} -> {} cases", large.nb, large.nt, large.nc, large.len, big.len(), stride, taken);
        let budget = args.cases.unwrap_or(usize::MAX);
        // the same enumeration, sampled, on the sim backend
        let step = (seqs.len() / n_sim_exh.max(1)).max(1);
        let off = (rng.next() as usize) % step;
        for (i, s) in seqs.iter().enumerate() {
            if i % step == off {
                cases.push(Case { family: "exhsim", backend: "sim", ops: s.clone(), dropfiles: false, batch: false });
            }
        }
        let (n_bl, n_bl_sim, n_bl_fs) = match args.tier.as_str() {
            "thorough" => (600usize, 60usize, 40usize),
            "search" => (150, 20, 12),
            _ => (40, 6, 4),
        };
        for _ in 0..n_bl {
            cases.push(Case { family: "backlog", backend: "direct", ops: backlog_case(&mut rng, false, false), dropfiles: false, batch: false });
        }
        for _ in 0..n_bl_sim {
            cases.push(Case { family: "backlogsim", backend: "sim", ops: backlog_case(&mut rng, true, false), dropfiles: false, batch: false });
        }
        for _ in 0..n_bl_fs {
            cases.push(Case { family: "backlogfs", backend: "sim", ops: backlog_case(&mut rng, true, true), dropfiles: false, batch: false });
        }
        for _ in 0..n_rand {
            cases.push(Case { family: "rand", backend: "direct", ops: random_case(&mut rng, false, false), dropfiles: false, batch: false });
        }
        for _ in 0..n_sim_rand {
            cases.push(Case { family: "randsim", backend: "sim", ops: random_case(&mut rng, true, false), dropfiles: false, batch: false });
        }
        for _ in 0..(n_sim_rand / 2).max(40) {
            cases.push(Case { family: "samestep", backend: "sim", ops: samestep_case(&mut rng), dropfiles: false, batch: true });
        }
        // every order of 3 steps out of {wait, abandon, drop handle, drop barrier, another trigger} after one parked call
        {
            let alphabet = [Op::Wait(0), Op::Abandon(0), Op::DropHandle(0), Op::DropBarrier(0), Op::Trigger { host: 1, ty: 0, val: 0 }];
            for a in 0..5 {
                for b in 0..5 {
                    for c in 0..5 {
                        let mut ops = vec![Op::Build { r: React::Suspend, ty: 0, c: Cond::Any }, Op::Trigger { host: 0, ty: 0, val: 0 }];
                        ops.push(alphabet[a].clone());
                        ops.push(alphabet[b].clone());
                        ops.push(alphabet[c].clone());
                        ops.extend([Op::Wait(0), Op::Wait(0), Op::DropBarrier(0), Op::DropHandle(0), Op::DropHandle(1), Op::DropHandle(2), Op::DropHandle(3)]);
                        let sim = (a + b + c) % 3 == 0;
                        cases.push(Case { family: "abandon", backend: if sim { "sim" } else { "direct" }, ops, dropfiles: false, batch: false });
                    }
                }
            }
        }
        // F-C20-1 territory: a panicking reaction reached through the fs corruption hook while the host holds open files.
        let t2 = |host: u8, val: u32| Op::TriggerNoop { host, ty: 2, val };
        let fsabort: Vec<Vec<Op>> = vec![
            vec![Op::Build { r: React::Panic, ty: 2, c: Cond::Any }, t2(0, 0)],
            vec![Op::Build { r: React::Suspend, ty: 2, c: Cond::Any }, t2(1, 1)],
            vec![Op::Build { r: React::Noop, ty: 2, c: Cond::Any }, t2(0, 0), Op::Wait(0), Op::DropHandle(0), Op::DropBarrier(0)],
            vec![Op::Build { r: React::Panic, ty: 0, c: Cond::Any }, Op::TriggerNoop { host: 0, ty: 0, val: 1 }],
            vec![
                Op::Build { r: React::Noop, ty: 2, c: Cond::Eq(0) },
                Op::Build { r: React::Panic, ty: 2, c: Cond::Any },
                t2(1, 0),
                Op::Wait(0),
                t2(1, 1),
            ],
        ];
        for ops in fsabort {
            cases.push(Case { family: "fsabort", backend: "sim", ops, dropfiles: true, batch: false });
        }
        for _ in 0..n_fs {
            cases.push(Case { family: "fshook", backend: "sim", ops: random_case(&mut rng, true, true), dropfiles: false, batch: false });
        }
        if cases.len() > budget {
            cases.truncate(budget);
        }
    }

    let mut hist: BTreeMap<String, usize> = BTreeMap::new();
    let mut fam: BTreeMap<&'static str, usize> = BTreeMap::new();
    let mut lens: BTreeMap<usize, usize> = BTreeMap::new();
    let replay_simseed: Option<u64> = args.replay.as_ref().and_then(|pth| {
        util::read_case_file(pth).cfg.iter().find(|(k, _)| k == "simseed").and_then(|(_, v)| v.parse().ok())
    });
    for (n, case) in cases.iter().enumerate() {
        let seed = replay_simseed.unwrap_or_else(|| rng.next());
        writeln!(out, "CASE {n} family={} seed={seed}", case.family).unwrap();
        writeln!(out, "CFG backend={} simseed={seed} dropfiles={}", case.backend, case.dropfiles as u8).unwrap();
        let child = std::env::var("TV_URING_CHILD").is_ok();
        let lines = if case.dropfiles && !child {
            run_case_in_child(case, seed, args, n)
        } else if child {
            run_case(case, seed, Some(format!("{}.live", args.out)))
        } else {
            run_case(case, seed, None)
        };
        for l in &lines {
            writeln!(out, "{l}").unwrap();
            let toks: Vec<&str> = l.split_whitespace().collect();
            if toks[0] == "OP" {
                *hist.entry(format!("op:{}", toks[2])).or_default() += 1;
            } else if toks[0] == "OBS" {
                let key = if toks[1] == "panic" { format!("obs:panic-{}", toks.get(2).unwrap_or(&"")) } else { format!("obs:{}", toks[1]) };
                *hist.entry(key).or_default() += 1;
                if toks.last().map(|t| *t != "resumed=-").unwrap_or(false) {
                    *hist.entry("obs:resumed-nonempty".into()).or_default() += 1;
                }
            }
        }
        writeln!(out, "END").unwrap();
        *fam.entry(case.family).or_default() += 1;
        *lens.entry(lines.len() / 2).or_default() += 1;
    }
    eprintln!("C20 input distribution: cases={} families={:?}", cases.len(), fam);
    eprintln!("C20 ops/observations: {:?}", hist);
    eprintln!("C20 executed-length histogram: {:?}", lens);
}
