//! PRNG, panic capture, poll-once helper, replay-file reader.

use std::cell::RefCell;
use std::future::Future;
use std::pin::Pin;
use std::task::{Context, Poll, Waker};

/// splitmix64 — the only source of randomness in the harness.
#[derive(Clone)]
pub struct Rng(pub u64);

impl Rng {
    pub fn new(seed: u64) -> Self {
        Rng(seed ^ 0x9E37_79B9_7F4A_7C15)
    }
    pub fn next(&mut self) -> u64 {
        self.0 = self.0.wrapping_add(0x9E37_79B9_7F4A_7C15);
        let mut z = self.0;
        z = (z ^ (z >> 30)).wrapping_mul(0xBF58_476D_1CE4_E5B9);
        z = (z ^ (z >> 27)).wrapping_mul(0x94D0_49BB_1331_11EB);
        z ^ (z >> 31)
    }
    pub fn below(&mut self, n: u64) -> u64 {
        if n == 0 {
            0
        } else {
            self.next() % n
        }
    }
    pub fn range(&mut self, lo: u64, hi_incl: u64) -> u64 {
        lo + self.below(hi_incl - lo + 1)
    }
    pub fn chance(&mut self, num: u64, den: u64) -> bool {
        self.below(den) < num
    }
    pub fn pick<'a, T>(&mut self, xs: &'a [T]) -> &'a T {
        &xs[self.below(xs.len() as u64) as usize]
    }
}

thread_local! {
    static FIRST_PANIC: RefCell<Option<String>> = const { RefCell::new(None) };
}

/// Panics are observations: keep the first message per thread, print nothing.
pub fn install_quiet_panic_hook() {
    std::panic::set_hook(Box::new(|info| {
        let msg = if let Some(s) = info.payload().downcast_ref::<&str>() {
            (*s).to_string()
        } else if let Some(s) = info.payload().downcast_ref::<String>() {
            s.clone()
        } else {
            "non-string panic".to_string()
        };
        FIRST_PANIC.with(|p| {
            let mut p = p.borrow_mut();
            if p.is_none() {
                *p = Some(msg);
            }
        });
    }));
}

pub fn take_panic_message() -> Option<String> {
    FIRST_PANIC.with(|p| p.borrow_mut().take())
}

/// Map a panic message to a fixed class.
pub fn panic_class(msg: &str) -> &'static str {
    if msg.contains("Injected panic from barrier") {
        "injected"
    } else if msg.contains("trigger_noop() cannot be used") {
        "misuse"
    } else if msg.contains("poisoned") {
        "poisoned"
    } else if msg.contains("no IoUringHostState is current") || msg.contains("ring vanished") {
        "noring"
    } else {
        "other"
    }
}

/// Run `f`, turning a panic into `Err(class)`.
pub fn catch<R>(f: impl FnOnce() -> R) -> Result<R, &'static str> {
    let _ = take_panic_message();
    match std::panic::catch_unwind(std::panic::AssertUnwindSafe(f)) {
        Ok(r) => Ok(r),
        Err(_) => {
            let msg = take_panic_message().unwrap_or_default();
            Err(panic_class(&msg))
        }
    }
}

pub fn poll_once<F: Future + ?Sized>(fut: Pin<&mut F>) -> Poll<F::Output> {
    let mut cx = Context::from_waker(Waker::noop());
    fut.poll(&mut cx)
}

pub fn io_kind(e: &std::io::Error) -> String {
    use std::io::ErrorKind::*;
    match e.kind() {
        NotFound => "notfound".into(),
        AlreadyExists => "alreadyexists".into(),
        InvalidInput => "invalidinput".into(),
        PermissionDenied => "permissiondenied".into(),
        WouldBlock => "wouldblock".into(),
        TimedOut => "timedout".into(),
        BrokenPipe => "brokenpipe".into(),
        _ => "other:io".into(),
    }
}

pub fn hex(b: &[u8]) -> String {
    if b.is_empty() {
        return "-".into();
    }
    let mut s = String::with_capacity(b.len() * 2);
    for x in b {
        s.push_str(&format!("{:02x}", x));
    }
    s
}

pub fn unhex(s: &str) -> Vec<u8> {
    if s == "-" {
        return vec![];
    }
    (0..s.len() / 2)
        .map(|i| u8::from_str_radix(&s[2 * i..2 * i + 2], 16).unwrap_or(0))
        .collect()
}

/// A stored case: its CASE/CFG header lines and OP lines (everything else ignored).
pub struct StoredCase {
    pub family: String,
    pub cfg: Vec<(String, String)>,
    pub ops: Vec<Vec<String>>,
}

/// Read the first case of a trace / case file (lines CASE, CFG, OP; OBS/ORA/END ignored).
pub fn read_case_file(path: &str) -> StoredCase {
    let text = std::fs::read_to_string(path).expect("cannot read replay file");
    let mut sc = StoredCase {
        family: "replay".into(),
        cfg: vec![],
        ops: vec![],
    };
    let mut seen_case = false;
    for line in text.lines() {
        let toks: Vec<&str> = line.split_whitespace().collect();
        if toks.is_empty() {
            continue;
        }
        match toks[0] {
            "CASE" => {
                if seen_case {
                    break;
                }
                seen_case = true;
                for t in &toks[1..] {
                    if let Some(v) = t.strip_prefix("family=") {
                        sc.family = v.to_string();
                    }
                }
            }
            "CFG" => {
                for t in &toks[1..] {
                    if let Some((k, v)) = t.split_once('=') {
                        sc.cfg.push((k.to_string(), v.to_string()));
                    }
                }
            }
            "OP" => sc.ops.push(toks[1..].iter().map(|s| s.to_string()).collect()),
            "END" => {
                if seen_case {
                    break;
                }
            }
            _ => {}
        }
    }
    sc
}
