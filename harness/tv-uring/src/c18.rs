//! C18 — io_uring ring. `turmoil-fs` + `turmoil-io-uring` are driven standalone (no `Sim`): the harness owns
//! `Arc<Mutex<Fs>>` / `Arc<Mutex<IoUringHostState>>`, enters both with its own clock, and re-enters with a
//! later `now` to advance ring time. A *twin* `Fs` with the same configuration receives, through the
//! synchronous shim (`read_at` / `write_at` / `sync_all`), every operation whose completion the ring reports,
//! at the moment it reports it — the "same as the synchronous API" oracle is evaluated on these two real
//! implementations' observations.
//!
//! Trace (actor `r<i>` = ring i, `f<k>` = file k, `ctl`):
//!   OP ctl newring <entries>                         OBS ring <id> | invalid
//!   OP r<i> push <ud> read <fd> <off> <len> [fl=<IOSQE bits>]   OBS pushed | full
//!   OP r<i> push <ud> write <fd> <off> <hex> [fl=<IOSQE bits>]
//!   OP r<i> push <ud> fsync <fd> [fl=<IOSQE bits>] | push <ud> cancel <target>
//!   OP r<i> submit | submitwait <n> | submitbadts    ORA lat <ud>:<ns> ...   OBS submitted <n> | err <kind>
//!   OP r<i> cqnew | cqsync | next | readable | dropring
//!       OBS unit | synced <n> | none | cqe <ud> <res> buf=<hex> twin=<res> twinbuf=<hex> | ready | pending | err <kind>
//!   OP ctl advance <ns> | crash | final
//!   OP f<k> fwrite <off> <hex> | fread <off> <len> | fsync | close | open
//!       OBS io <res> buf=<hex> twin=<res> twinbuf=<hex> | unit
//!   final: OBS final files=<hex>,.. twinfiles=<hex>,.. untouched=<ud>:<0|1>,..

use crate::util::{self, catch, hex, poll_once, unhex, Rng};
use crate::Args;
use std::collections::BTreeMap;
use std::io::Write;
use std::os::fd::{AsRawFd, RawFd};
use std::os::unix::fs::FileExt;
use std::cell::{Cell, RefCell};
use std::collections::VecDeque;
use std::rc::Rc;
use std::sync::{Arc, Mutex};
use std::task::Poll;
use std::time::Duration;
use turmoil_fs::shim::std::fs::{create_dir_all, sync_dir, File, OpenOptions};
use turmoil_fs::{Fs, FsConfig};
use turmoil_io_uring::cqueue::CompletionQueue;
use turmoil_io_uring::host::IoUringHostState;
use turmoil_io_uring::{opcode, squeue, types, AsyncFd, IoUring};

const SENTINEL: u8 = 0xAA;

#[derive(Clone, Debug, PartialEq)]
pub enum Kind {
    Read { fd: u32, off: u64, len: u32 },
    Write { fd: u32, off: u64, data: Vec<u8> },
    Fsync { fd: u32 },
    Cancel { target: u64 },
}

#[derive(Clone, Debug, PartialEq)]
pub enum Op {
    NewRing(u32),
    /// through `IoUring::builder()`: mode 0 plain, 1 setup_sqpoll, 2 setup_iopoll
    NewRingB(u32, u8),
    Push { ring: u32, ud: u64, kind: Kind, flags: u8 },
    Submit { ring: u32, mode: u8, want: u32 }, // mode 0 submit, 1 submit_and_wait, 2 submit_with_args(bad timespec)
    CqNew(u32),
    CqSync(u32),
    Next(u32),
    /// closing phase only: a `next` that is skipped (not executed, not traced) once the ring returned `none`
    /// since its last `cqsync`
    NextOpt(u32),
    Readable(u32),
    /// sim mode: spawn a task that awaits `AsyncFd::readable()` on the ring
    Await(u32),
    /// sim mode: has that task returned?
    Awaited(u32),
    SqInfo(u32),
    DropRing(u32),
    Advance(u64),
    Crash,
    Final,
    FWrite { fd: u32, off: u64, data: Vec<u8> },
    FRead { fd: u32, off: u64, len: u32 },
    FSync { fd: u32 },
    FClose(u32),
    FOpen(u32),
}

impl Op {
    fn text(&self) -> String {
        match self {
            Op::NewRing(n) => format!("ctl newring {n}"),
            Op::NewRingB(n, m) => format!("ctl newringb {n} {}", ["plain", "sqpoll", "iopoll"][(*m as usize).min(2)]),
            Op::Push { ring, ud, kind, flags } => {
                let l = if *flags != 0 { format!(" fl={flags}") } else { String::new() };
                match kind {
                    Kind::Read { fd, off, len } => format!("r{ring} push {ud} read {fd} {off} {len}{l}"),
                    Kind::Write { fd, off, data } => format!("r{ring} push {ud} write {fd} {off} {}{l}", hex(data)),
                    Kind::Fsync { fd } => format!("r{ring} push {ud} fsync {fd}{l}"),
                    Kind::Cancel { target } => format!("r{ring} push {ud} cancel {target}{l}"),
                }
            }
            Op::Submit { ring, mode, want } => match mode {
                0 => format!("r{ring} submit"),
                1 => format!("r{ring} submitwait {want}"),
                _ => format!("r{ring} submitbadts"),
            },
            Op::CqNew(r) => format!("r{r} cqnew"),
            Op::CqSync(r) => format!("r{r} cqsync"),
            Op::Next(r) | Op::NextOpt(r) => format!("r{r} next"),
            Op::Readable(r) => format!("r{r} readable"),
            Op::Await(r) => format!("r{r} await"),
            Op::Awaited(r) => format!("r{r} awaited"),
            Op::SqInfo(r) => format!("r{r} sqinfo"),
            Op::DropRing(r) => format!("r{r} dropring"),
            Op::Advance(ns) => format!("ctl advance {ns}"),
            Op::Crash => "ctl crash".into(),
            Op::Final => "ctl final".into(),
            Op::FWrite { fd, off, data } => format!("f{fd} fwrite {off} {}", hex(data)),
            Op::FRead { fd, off, len } => format!("f{fd} fread {off} {len}"),
            Op::FSync { fd } => format!("f{fd} fsync"),
            Op::FClose(fd) => format!("f{fd} close"),
            Op::FOpen(fd) => format!("f{fd} open"),
        }
    }

    fn parse(t: &[String]) -> Option<Op> {
        let actor = t.first()?;
        let idx: u32 = actor.get(1..).and_then(|s| s.parse().ok()).unwrap_or(0);
        let name = t.get(1)?.as_str();
        let n = |i: usize| -> Option<u64> { t.get(i)?.parse().ok() };
        Some(match name {
            "newring" => Op::NewRing(n(2)? as u32),
            "newringb" => Op::NewRingB(
                n(2)? as u32,
                match t.get(3)?.as_str() {
                    "sqpoll" => 1,
                    "iopoll" => 2,
                    _ => 0,
                },
            ),
            "push" => {
                let ud = n(2)?;
                let flags: u8 = t.last().and_then(|s| s.strip_prefix("fl=")).and_then(|v| v.parse().ok()).unwrap_or(0);
                let kind = match t.get(3)?.as_str() {
                    "read" => Kind::Read { fd: n(4)? as u32, off: n(5)?, len: n(6)? as u32 },
                    "write" => Kind::Write { fd: n(4)? as u32, off: n(5)?, data: unhex(t.get(6)?) },
                    "fsync" => Kind::Fsync { fd: n(4)? as u32 },
                    "cancel" => Kind::Cancel { target: n(4)? },
                    _ => return None,
                };
                Op::Push { ring: idx, ud, kind, flags }
            }
            "submit" => Op::Submit { ring: idx, mode: 0, want: 0 },
            "submitwait" => Op::Submit { ring: idx, mode: 1, want: n(2)? as u32 },
            "submitbadts" => Op::Submit { ring: idx, mode: 2, want: 0 },
            "cqnew" => Op::CqNew(idx),
            "cqsync" => Op::CqSync(idx),
            "next" => Op::Next(idx),
            "readable" => Op::Readable(idx),
            "await" => Op::Await(idx),
            "awaited" => Op::Awaited(idx),
            "sqinfo" => Op::SqInfo(idx),
            "dropring" => Op::DropRing(idx),
            "advance" => Op::Advance(n(2)?),
            "crash" => Op::Crash,
            "final" => Op::Final,
            "fwrite" => Op::FWrite { fd: idx, off: n(2)?, data: unhex(t.get(3)?) },
            "fread" => Op::FRead { fd: idx, off: n(2)?, len: n(3)? as u32 },
            "fsync" => Op::FSync { fd: idx },
            "close" => Op::FClose(idx),
            "open" => Op::FOpen(idx),
            _ => return None,
        })
    }
}

#[derive(Clone, Debug)]
pub struct Cfg {
    nfiles: u32,
    lat_min: u64, // ns; 0,0 = latency not configured
    lat_max: u64,
    cache: bool,
    fs_seed: u64,
    init: Vec<Vec<u8>>,
}

fn fs_config(c: &Cfg) -> FsConfig {
    let mut cfg = FsConfig::default();
    if c.lat_max > 0 {
        cfg.io_latency().min_latency(Duration::from_nanos(c.lat_min)).max_latency(Duration::from_nanos(c.lat_max));
    }
    if c.cache {
        cfg.page_cache().page_size(16).max_pages(4);
    }
    cfg
}

/// `IOSQE_*` bits → the crate's `Flags` (bit 0 FIXED_FILE … bit 5 BUFFER_SELECT)
fn sq_flags(bits: u8) -> squeue::Flags {
    let all = [
        squeue::Flags::FIXED_FILE,
        squeue::Flags::IO_DRAIN,
        squeue::Flags::IO_LINK,
        squeue::Flags::IO_HARDLINK,
        squeue::Flags::ASYNC,
        squeue::Flags::BUFFER_SELECT,
    ];
    let mut f = squeue::Flags::empty();
    for (i, x) in all.iter().enumerate() {
        if bits & (1 << i) != 0 {
            f |= *x;
        }
    }
    f
}

/// what the specification says is rejected: everything but ASYNC
fn rejected(bits: u8) -> bool {
    bits & 0b101111 != 0
}

fn rh_alt(alt: u32) -> u32 {
    (alt / 2) % 4
}

struct FdOnly(RawFd);
impl AsRawFd for FdOnly {
    fn as_raw_fd(&self) -> RawFd {
        self.0
    }
}

struct RingH {
    ring: Option<IoUring>,
    cq: Option<CompletionQueue<'static>>,
    afd: Option<AsyncFd<FdOnly>>,
    fd: RawFd,
    /// 0 no waiter / waiting, 1 woken Ok, 2 woken Err
    woken: Rc<Cell<u8>>,
}

struct SqeInfo {
    ring: u32,
    ud: u64,
    kind: Kind,
    flags: u8,
    buf: usize,
    done: bool,
    /// generation of the file handle whose fd the SQE carries
    gen: u32,
}

struct World {
    cfg: Cfg,
    /// inside a `turmoil::Sim` host: the Sim has entered fs and io_uring; never enter them here
    in_sim: bool,
    next_ring: Rc<Cell<u32>>,
    fs: Arc<Mutex<Fs>>,
    twin: Arc<Mutex<Fs>>,
    iou: Arc<Mutex<IoUringHostState>>,
    now: Duration,
    files: Vec<Option<File>>,
    stale_fd: Vec<RawFd>,
    gen: Vec<u32>,
    twin_files: Vec<Option<File>>,
    rings: BTreeMap<u32, RingH>,
    bufs: Vec<Box<[u8]>>,
    sqes: Vec<SqeInfo>,
    /// counts harness calls; equivalent API entry points are chosen by `alt % k` (deterministic, not traced)
    alt: u32,
    /// standalone only: another host on the same thread (own fs, own ring registry) that keeps itself busy with the
    /// same user_data values; nothing it does may show in the observed host
    decoy: Option<Box<Decoy>>,
}

struct Decoy {
    fs: Arc<Mutex<Fs>>,
    iou: Arc<Mutex<IoUringHostState>>,
    ring: Option<IoUring>,
    file: Option<File>,
    buf: Box<[u8]>,
    n: u64,
}

impl Decoy {
    fn new(cfg: &Cfg) -> Decoy {
        Decoy {
            fs: Arc::new(Mutex::new(Fs::new(fs_config(cfg), cfg.fs_seed ^ 0xDEC0))),
            iou: Arc::new(Mutex::new(IoUringHostState::new())),
            ring: None,
            file: None,
            buf: vec![0xDD; 8].into_boxed_slice(),
            n: 0,
        }
    }

    /// One round of activity, entered *inside* whatever the observed host has entered (enter calls nest).
    fn churn(&mut self, now: Duration, uds: &[u64]) {
        let (fs, iou) = (self.fs.clone(), self.iou.clone());
        let _g1 = turmoil_fs::enter(&fs, turmoil_fs::EnterCtx { now, on_corruption: None });
        let _g2 = turmoil_io_uring::host::enter(&iou, turmoil_io_uring::host::EnterCtx { now });
        if self.file.is_none() {
            let _ = create_dir_all("/u");
            self.file = open_rw("/u/f0").ok();
        }
        if self.ring.is_none() || self.n % 11 == 10 {
            self.ring = IoUring::new(4).ok();
        }
        self.n += 1;
        let (Some(ring), Some(file)) = (self.ring.as_mut(), self.file.as_ref()) else { return };
        let fd = types::Fd(file.as_raw_fd());
        let ud = uds.get((self.n as usize) % uds.len().max(1)).copied().unwrap_or(self.n);
        let e = match self.n % 4 {
            0 => opcode::Write::new(fd, self.buf.as_ptr(), 8).offset(self.n % 5).build(),
            1 => opcode::Read::new(fd, self.buf.as_mut_ptr(), 8).build(),
            2 => opcode::Fsync::new(fd).build(),
            _ => opcode::AsyncCancel::new(ud).build(),
        }
        .user_data(ud);
        unsafe {
            let _ = ring.submission().push(&e);
        }
        let _ = ring.submit();
        if self.n % 3 == 0 {
            let mut cq = ring.completion();
            cq.sync();
            for _ in cq.by_ref() {}
        }
        if self.n % 13 == 12 {
            // the decoy's handles share fd *numbers* with the observed host's: they must die while the decoy is current
            self.file = None;
            self.ring = None;
            drop(_g2);
            drop(_g1);
            fs.lock().unwrap().crash();
            iou.lock().unwrap().crash();
        }
    }
}

/// Create, fill and make durable the case's files on the currently entered fs.
fn setup_files(cfg: &Cfg) -> Vec<Option<File>> {
    create_dir_all("/u").expect("mkdir");
    sync_dir("/").expect("sync /");
    let mut fl = vec![];
    for k in 0..cfg.nfiles as usize {
        let f = open_rw(&path(k)).expect("open");
        if !cfg.init[k].is_empty() {
            f.write_at(&cfg.init[k], 0).expect("init write");
        }
        f.sync_all().expect("sync_all");
        fl.push(Some(f));
    }
    sync_dir("/u").expect("sync /u");
    fl
}

fn path(k: usize) -> String {
    format!("/u/f{k}")
}

fn open_rw(p: &str) -> std::io::Result<File> {
    OpenOptions::new().read(true).write(true).create(true).open(p)
}

impl World {
    fn new(cfg: Cfg) -> World {
        let fs = Arc::new(Mutex::new(Fs::new(fs_config(&cfg), cfg.fs_seed)));
        let twin = Arc::new(Mutex::new(Fs::new(fs_config(&cfg), cfg.fs_seed ^ 0x5555)));
        let iou = Arc::new(Mutex::new(IoUringHostState::new()));
        let n = cfg.nfiles as usize;
        let mut w = World {
            cfg,
            in_sim: false,
            next_ring: Rc::new(Cell::new(0)),
            fs,
            twin,
            iou,
            now: Duration::ZERO,
            files: vec![],
            stale_fd: vec![],
            gen: vec![0; n],
            twin_files: vec![],
            rings: BTreeMap::new(),
            bufs: vec![],
            sqes: vec![],
            alt: 0,
            decoy: None,
        };
        w.decoy = Some(Box::new(Decoy::new(&w.cfg)));
        let fl = {
            let arc = w.twin.clone();
            let _g = turmoil_fs::enter(&arc, turmoil_fs::EnterCtx { now: w.now, on_corruption: None });
            setup_files(&w.cfg)
        };
        w.twin_files = fl;
        let fl = {
            let arc = w.fs.clone();
            let _g = turmoil_fs::enter(&arc, turmoil_fs::EnterCtx { now: w.now, on_corruption: None });
            setup_files(&w.cfg)
        };
        w.stale_fd = fl.iter().map(|f| f.as_ref().unwrap().as_raw_fd()).collect();
        w.files = fl;
        w
    }

    /// The world of one incarnation of the host software inside a `turmoil::Sim` (fs / io_uring entered by the Sim).
    fn new_in_sim(cfg: Cfg, twin: Arc<Mutex<Fs>>, next_ring: Rc<Cell<u32>>, first_start: bool) -> World {
        let n = cfg.nfiles as usize;
        let mut w = World {
            cfg,
            in_sim: true,
            next_ring,
            fs: Arc::new(Mutex::new(Fs::new(FsConfig::default(), 0))), // unused
            twin,
            iou: Arc::new(Mutex::new(IoUringHostState::new())), // unused
            now: Duration::ZERO,
            files: (0..n).map(|_| None).collect(),
            stale_fd: vec![999_999_999; n],
            gen: vec![0; n],
            twin_files: (0..n).map(|_| None).collect(),
            rings: BTreeMap::new(),
            bufs: vec![],
            sqes: vec![],
            alt: 0,
            decoy: None,
        };
        if first_start {
            let fl = {
                let arc = w.twin.clone();
                let _g = turmoil_fs::enter(&arc, turmoil_fs::EnterCtx { now: w.now, on_corruption: None });
                setup_files(&w.cfg)
            };
            w.twin_files = fl;
            let fl = setup_files(&w.cfg);
            w.stale_fd = fl.iter().map(|f| f.as_ref().unwrap().as_raw_fd()).collect();
            w.files = fl;
        }
        w
    }

    fn raw_fd(&self, fd: u32) -> RawFd {
        match self.files.get(fd as usize) {
            Some(Some(f)) => f.as_raw_fd(),
            Some(None) => self.stale_fd[fd as usize],
            None => 999_999_999,
        }
    }

    /// Run `f` with the main fs and the ring registry entered at the current time.
    fn entered<R>(&mut self, f: impl FnOnce(&mut World) -> R) -> R {
        if self.in_sim {
            self.alt = self.alt.wrapping_add(1);
            return f(self);
        }
        let fs = self.fs.clone();
        let iou = self.iou.clone();
        let _g1 = turmoil_fs::enter(&fs, turmoil_fs::EnterCtx { now: self.now, on_corruption: None });
        let _g2 = turmoil_io_uring::host::enter(&iou, turmoil_io_uring::host::EnterCtx { now: self.now });
        self.alt = self.alt.wrapping_add(1);
        if self.alt % 3 == 0 {
            // nested enter of a different host, before and (every sixth call) after the observed call
            let uds: Vec<u64> = self.sqes.iter().rev().take(6).map(|q| q.ud).collect();
            if let Some(d) = self.decoy.as_mut() {
                d.churn(self.now, &uds);
            }
            let r = f(self);
            if self.alt % 6 == 0 {
                if let Some(d) = self.decoy.as_mut() {
                    d.churn(self.now, &uds);
                }
            }
            return r;
        }
        f(self)
    }

    /// The same operation through the synchronous API on the twin fs. `None` = file closed (no handle).
    fn twin_apply(&mut self, kind: &Kind) -> (i64, Vec<u8>) {
        let twin = self.twin.clone();
        let _g = turmoil_fs::enter(&twin, turmoil_fs::EnterCtx { now: self.now, on_corruption: None });
        let file = |fd: u32| self.twin_files.get(fd as usize).and_then(|f| f.as_ref());
        match kind {
            Kind::Read { fd, off, len } => match file(*fd) {
                None => (-9, vec![SENTINEL; *len as usize]),
                Some(f) => {
                    let mut b = vec![SENTINEL; *len as usize];
                    match f.read_at(&mut b, *off) {
                        Ok(n) => (n as i64, b),
                        Err(_) => (-5, b),
                    }
                }
            },
            Kind::Write { fd, off, data } => match file(*fd) {
                None => (-9, vec![]),
                Some(f) => match f.write_at(data, *off) {
                    Ok(n) => (n as i64, vec![]),
                    Err(_) => (-5, vec![]),
                },
            },
            Kind::Fsync { fd } => match file(*fd) {
                None => (-9, vec![]),
                Some(f) => match f.sync_all() {
                    Ok(()) => (0, vec![]),
                    Err(_) => (-5, vec![]),
                },
            },
            Kind::Cancel { .. } => (0, vec![]),
        }
    }

    fn whole_file(&mut self, twin: bool, k: usize) -> Vec<u8> {
        let arc = if twin { self.twin.clone() } else { self.fs.clone() };
        let _g = if !twin && self.in_sim {
            None
        } else {
            Some(turmoil_fs::enter(&arc, turmoil_fs::EnterCtx { now: self.now, on_corruption: None }))
        };
        // a fresh read-only handle, so that closed files can be inspected too
        match OpenOptions::new().read(true).open(path(k)) {
            Ok(f) => {
                let mut b = vec![0u8; 4096];
                let n = f.read_at(&mut b, 0).unwrap_or(0);
                b.truncate(n);
                b
            }
            Err(_) => b"\xff\xfe".to_vec(),
        }
    }

    fn exec(&mut self, op: &Op) -> (Vec<String>, String) {
        let mut ora = vec![];
        let obs = match op {
            Op::NewRing(_) | Op::NewRingB(_, _) => {
                let (entries, mode) = match op {
                    Op::NewRing(e) => (*e, 255u8),
                    Op::NewRingB(e, m) => (*e, *m),
                    _ => unreachable!(),
                };
                self.entered(|w| {
                    let made = match mode {
                        255 if w.alt % 2 == 0 => IoUring::new(entries),
                        255 => IoUring::builder().clone().build(entries),
                        0 => IoUring::builder().build(entries),
                        1 => IoUring::builder().setup_sqpoll(10).build(entries),
                        _ => IoUring::builder().setup_iopoll().build(entries),
                    };
                    match made {
                        Err(_) => "invalid".to_string(),
                        Ok(ring) => {
                            let fd = ring.as_raw_fd();
                            let (sqe, cqe) = (ring.params().sq_entries(), ring.params().cq_entries());
                            let afd = if w.alt % 4 < 2 {
                                AsyncFd::new(FdOnly(fd)).ok()
                            } else {
                                AsyncFd::with_interest(FdOnly(fd), turmoil_io_uring::Interest::READABLE | turmoil_io_uring::Interest::WRITABLE).ok()
                            };
                            let id = w.next_ring.get();
                            w.next_ring.set(id + 1);
                            w.rings.insert(id, RingH { ring: Some(ring), cq: None, afd, fd, woken: Rc::new(Cell::new(0)) });
                            format!("ring {id} sq={sqe} cq={cqe}")
                        }
                    }
                })
            }
            Op::Push { ring, ud, kind, flags } => {
                let fdraw = match kind {
                    Kind::Read { fd, .. } | Kind::Write { fd, .. } | Kind::Fsync { fd } => self.raw_fd(*fd),
                    _ => 0,
                };
                let buf: Box<[u8]> = match kind {
                    Kind::Read { len, .. } => vec![SENTINEL; *len as usize].into_boxed_slice(),
                    Kind::Write { data, .. } => data.clone().into_boxed_slice(),
                    _ => Box::new([]),
                };
                self.bufs.push(buf);
                let bi = self.bufs.len() - 1;
                let ptr = self.bufs[bi].as_mut_ptr();
                // equivalent ways of building the same SQE, chosen by the call counter
                let skip_off = self.alt % 2 == 0; // offset defaults to 0
                let base = match kind {
                    Kind::Read { off, len, .. } => {
                        let b = opcode::Read::new(types::Fd(fdraw), ptr, *len);
                        if *off == 0 && skip_off { b.build() } else { b.offset(*off).build() }
                    }
                    Kind::Write { off, data, .. } => {
                        let b = opcode::Write::new(types::Fd(fdraw), ptr as *const u8, data.len() as u32);
                        if *off == 0 && skip_off { b.build() } else { b.offset(*off).build() }
                    }
                    Kind::Fsync { .. } => opcode::Fsync::new(types::Fd(fdraw)).build(),
                    Kind::Cancel { target } => opcode::AsyncCancel::new(*target).build(),
                };
                let entry = match self.alt % 3 {
                    0 => {
                        let e = base.user_data(*ud);
                        if *flags != 0 { e.flags(sq_flags(*flags)) } else { e }
                    }
                    1 => base.flags(sq_flags(*flags)).user_data(*ud), // flags (possibly empty) first
                    _ => base.user_data(7777).flags(squeue::Flags::IO_LINK).flags(sq_flags(*flags)).user_data(*ud).clone(), // overwritten
                };
                let (ring, ud, kind, flags) = (*ring, *ud, kind.clone(), *flags);
                self.entered(|w| {
                    let Some(rh) = w.rings.get_mut(&ring) else { return "invalid".to_string() };
                    let Some(r) = rh.ring.as_mut() else { return "invalid".to_string() };
                    let pushed = if w.alt % 2 == 0 {
                        let mut sq = r.submission();
                        sq.sync();
                        let before = sq.len();
                        let res = unsafe { sq.push(&entry) };
                        // `len` / `is_empty` must move with the push
                        if res.is_ok() && (sq.len() != before + 1 || sq.is_empty()) {
                            return "pushed !len".to_string();
                        }
                        if res.is_err() && (sq.len() != before || !sq.is_full()) {
                            return "full !len".to_string();
                        }
                        res
                    } else {
                        unsafe { r.submission_shared().push(&entry) }
                    };
                    match pushed {
                        Ok(()) => {
                            let gen = match &kind {
                                Kind::Read { fd, .. } | Kind::Write { fd, .. } | Kind::Fsync { fd } => {
                                    w.gen.get(*fd as usize).copied().unwrap_or(0)
                                }
                                _ => 0,
                            };
                            w.sqes.push(SqeInfo { ring, ud, kind, flags, buf: bi, done: false, gen });
                            "pushed".to_string()
                        }
                        Err(_) => "full".to_string(),
                    }
                })
            }
            Op::Submit { ring, mode, want } => {
                let (ring, mode, want) = (*ring, *mode, *want);
                let (res, lats) = self.entered(|w| {
                    let Some(rh) = w.rings.get(&ring) else { return ("invalid".to_string(), vec![]) };
                    let Some(r) = rh.ring.as_ref() else { return ("invalid".to_string(), vec![]) };
                    // the latency log is per thread: take exactly what this call logs (the decoy host submits too)
                    let _ = turmoil_io_uring::verif::take_latencies();
                    let ts = types::Timespec::from(Duration::from_micros(1_500));
                    let res = match (mode, rh_alt(w.alt)) {
                        (0, 0) => r.submit(),
                        (0, 1) => r.submitter().submit(),
                        (0, 2) => r.submitter().submit_with_args(0, &types::SubmitArgs::new()),
                        (0, _) => r.submitter().submit_with_args(1, &types::SubmitArgs::new().timespec(&ts)),
                        (1, 0) => r.submit_and_wait(want as usize),
                        (1, 1) => r.submitter().submit_and_wait(want as usize),
                        (1, _) => r.submitter().submit_with_args(want as usize, &types::SubmitArgs::new().timespec(&ts)),
                        _ => {
                            let ts = types::Timespec::new().sec(1).nsec(1_500_000_000);
                            let args = types::SubmitArgs::new().timespec(&ts);
                            r.submitter().submit_with_args(0, &args)
                        }
                    };
                    let lats = turmoil_io_uring::verif::take_latencies();
                    (
                        match res {
                            Ok(n) => format!("submitted {n}"),
                            Err(e) => format!("err {}", util::io_kind(&e)),
                        },
                        lats,
                    )
                });
                if !lats.is_empty() {
                    ora.push(format!(
                        "lat {}",
                        lats.iter().map(|(ud, d)| format!("{ud}:{}", d.as_nanos())).collect::<Vec<_>>().join(" ")
                    ));
                }
                res
            }
            Op::CqNew(ring) => {
                let ring = *ring;
                self.entered(|w| {
                    let Some(rh) = w.rings.get_mut(&ring) else { return "invalid".to_string() };
                    let Some(r) = rh.ring.as_mut() else { return "invalid".to_string() };
                    // exclusive and shared handles are the same object; the harness keeps it across calls
                    let cq = if w.alt % 2 == 0 {
                        unsafe { std::mem::transmute::<CompletionQueue<'_>, CompletionQueue<'static>>(r.completion()) }
                    } else {
                        unsafe { std::mem::transmute::<CompletionQueue<'_>, CompletionQueue<'static>>(r.completion_shared()) }
                    };
                    if !cq.is_empty() || cq.len() != 0 {
                        return "unit !fresh-handle-not-empty".to_string();
                    }
                    rh.cq = Some(cq);
                    "unit".to_string()
                })
            }
            Op::CqSync(ring) => {
                let ring = *ring;
                self.entered(|w| {
                    let Some(rh) = w.rings.get_mut(&ring) else { return "invalid".to_string() };
                    let Some(cq) = rh.cq.as_mut() else { return "invalid".to_string() };
                    cq.sync();
                    if cq.is_empty() != (cq.len() == 0) {
                        return format!("synced {} !is_empty", cq.len());
                    }
                    format!("synced {}", cq.len())
                })
            }
            Op::Next(ring) | Op::NextOpt(ring) => {
                let ring = *ring;
                let got = self.entered(|w| {
                    let rh = w.rings.get_mut(&ring)?;
                    let cq = rh.cq.as_mut()?;
                    let before = cq.len();
                    // three spellings of "take the next completion of the snapshot"
                    let e = match w.alt % 3 {
                        0 => cq.next(),
                        1 => cq.by_ref().take(1).next(),
                        _ => {
                            let mut got = None;
                            #[allow(clippy::never_loop)]
                            for e in &mut *cq {
                                got = Some(e);
                                break;
                            }
                            got
                        }
                    };
                    // cross-checks that do not belong to the trace: flags are always 0, `len` counts down with each yield
                    let bad = match &e {
                        Some(e) => e.flags() != 0 || cq.len() + 1 != before || e.clone().user_data() != e.user_data(),
                        None => cq.len() != before && before != 0,
                    };
                    if bad {
                        return Some(Some((u64::MAX - 7, -999_999)));
                    }
                    Some(e.map(|e| (e.user_data(), e.result())))
                });
                match got {
                    None => "invalid".to_string(),
                    Some(None) => "none".to_string(),
                    Some(Some((ud, res))) => {
                        // which submission is this? first not-yet-completed entry of this ring with that ud
                        let idx = self.sqes.iter().position(|s| s.ring == ring && s.ud == ud && !s.done);
                        let (buf, twin_res, twin_buf) = match idx {
                            None => (vec![], 0i64, vec![]),
                            Some(i) => {
                                self.sqes[i].done = true;
                                let kind = self.sqes[i].kind.clone();
                                let link = rejected(self.sqes[i].flags);
                                let buf = match kind {
                                    Kind::Read { .. } => self.bufs[self.sqes[i].buf].to_vec(),
                                    _ => vec![],
                                };
                                // the effect is legitimately skipped for rejected flags and for cancelled targets
                                let skipped = link || res == -125;
                                // the fd in the SQE is dead if its file was closed (or closed and reopened) since
                                let fd_dead = match &kind {
                                    Kind::Read { fd, .. } | Kind::Write { fd, .. } | Kind::Fsync { fd } => {
                                        let k = *fd as usize;
                                        k >= self.files.len() || self.files[k].is_none() || self.gen[k] != self.sqes[i].gen
                                    }
                                    _ => false,
                                };
                                let (tr, tb) = if fd_dead && !skipped {
                                    (-9, match kind {
                                        Kind::Read { len, .. } => vec![SENTINEL; len as usize],
                                        _ => vec![],
                                    })
                                } else if skipped || matches!(kind, Kind::Cancel { .. }) {
                                    (res as i64, match kind {
                                        Kind::Read { len, .. } => vec![SENTINEL; len as usize],
                                        _ => vec![],
                                    })
                                } else {
                                    self.twin_apply(&kind)
                                };
                                (buf, tr, tb)
                            }
                        };
                        format!("cqe {ud} {res} buf={} twin={twin_res} twinbuf={}", hex(&buf), hex(&twin_buf))
                    }
                }
            }
            Op::Readable(ring) => {
                let ring = *ring;
                self.entered(|w| {
                    let Some(rh) = w.rings.get(&ring) else { return "invalid".to_string() };
                    let Some(afd) = rh.afd.as_ref() else { return "invalid".to_string() };
                    let mut fut = Box::pin(afd.readable());
                    if afd.as_raw_fd() != rh.fd || afd.get_ref().0 != rh.fd {
                        return "err fdmismatch".to_string();
                    }
                    let r = match poll_once(fut.as_mut()) {
                        Poll::Pending => "pending".to_string(),
                        Poll::Ready(Ok(mut guard)) => {
                            guard.clear_ready();
                            "ready".to_string()
                        }
                        Poll::Ready(Err(e)) => format!("err {}", util::io_kind(&e)),
                    };
                    drop(fut);
                    r
                })
            }
            Op::Await(ring) => {
                let ring = *ring;
                if !self.in_sim {
                    "invalid".to_string()
                } else {
                    match self.rings.get(&ring) {
                        None => "invalid".to_string(),
                        Some(rh) => match AsyncFd::new(FdOnly(rh.fd)) {
                            Err(e) => format!("err {}", util::io_kind(&e)),
                            Ok(afd) => {
                                let flag = rh.woken.clone();
                                flag.set(0);
                                tokio::task::spawn_local(async move {
                                    let r = afd.readable().await.map(|_| ());
                                    flag.set(if r.is_ok() { 1 } else { 2 });
                                });
                                "unit".to_string()
                            }
                        },
                    }
                }
            }
            Op::Awaited(ring) => match self.rings.get(ring) {
                None => "invalid".to_string(),
                Some(rh) => match rh.woken.get() {
                    0 => "waiting".to_string(),
                    1 => "woken".to_string(),
                    _ => "wokenerr".to_string(),
                },
            },
            Op::SqInfo(ring) => {
                let ring = *ring;
                self.entered(|w| {
                    let Some(rh) = w.rings.get_mut(&ring) else { return "invalid".to_string() };
                    let Some(r) = rh.ring.as_mut() else { return "invalid".to_string() };
                    let sq = if w.alt % 2 == 0 { r.submission() } else { unsafe { r.submission_shared() } };
                    if sq.is_empty() != (sq.len() == 0) {
                        return "sq !is_empty".to_string();
                    }
                    format!("sq len={} full={} cap={}", sq.len(), sq.is_full() as u8, sq.capacity())
                })
            }
            Op::DropRing(ring) => {
                let ring = *ring;
                self.entered(|w| {
                    let Some(rh) = w.rings.get_mut(&ring) else { return "invalid".to_string() };
                    rh.ring = None;
                    "unit".to_string()
                })
            }
            Op::Advance(ns) => {
                self.now += Duration::from_nanos(*ns);
                "unit".into()
            }
            Op::Crash if self.in_sim => "invalid".into(), // done by the harness around the Sim
            Op::Crash => {
                // host software dies: its files and rings are dropped by `Rt::crash` while no subsystem is
                // entered (so `IoUring::drop` cannot unregister), then `Fs::crash` and `IoUringHostState::crash`.
                for f in self.files.iter_mut() {
                    if let Some(f) = f.take() {
                        let fs = self.fs.clone();
                        let _g = turmoil_fs::enter(&fs, turmoil_fs::EnterCtx { now: self.now, on_corruption: None });
                        drop(f);
                    }
                }
                for f in self.twin_files.iter_mut() {
                    if let Some(f) = f.take() {
                        let fs = self.twin.clone();
                        let _g = turmoil_fs::enter(&fs, turmoil_fs::EnterCtx { now: self.now, on_corruption: None });
                        drop(f);
                    }
                }
                // ring *handles* stay with the harness on purpose (stale handles are then exercised);
                // IoUring::drop outside `enter` is a no-op, exactly as in Sim::crash
                self.fs.lock().unwrap().crash();
                self.twin.lock().unwrap().crash();
                self.iou.lock().unwrap().crash();
                "unit".into()
            }
            Op::FWrite { fd, off, data } => {
                let (fd, off, data) = (*fd, *off, data.clone());
                let r = self.entered(|w| match w.files.get(fd as usize).and_then(|f| f.as_ref()) {
                    None => -9i64,
                    Some(f) => f.write_at(&data, off).map(|n| n as i64).unwrap_or(-5),
                });
                let (tr, _) = self.twin_apply(&Kind::Write { fd, off, data });
                format!("io {r} buf=- twin={tr} twinbuf=-")
            }
            Op::FRead { fd, off, len } => {
                let (fd, off, len) = (*fd, *off, *len);
                let (r, b) = self.entered(|w| {
                    let mut b = vec![SENTINEL; len as usize];
                    match w.files.get(fd as usize).and_then(|f| f.as_ref()) {
                        None => (-9i64, b),
                        Some(f) => {
                            let r = f.read_at(&mut b, off).map(|n| n as i64).unwrap_or(-5);
                            (r, b)
                        }
                    }
                });
                let (tr, tb) = self.twin_apply(&Kind::Read { fd, off, len });
                format!("io {r} buf={} twin={tr} twinbuf={}", hex(&b), hex(&tb))
            }
            Op::FSync { fd } => {
                let fd = *fd;
                let r = self.entered(|w| match w.files.get(fd as usize).and_then(|f| f.as_ref()) {
                    None => -9i64,
                    Some(f) => f.sync_all().map(|_| 0i64).unwrap_or(-5),
                });
                let (tr, _) = self.twin_apply(&Kind::Fsync { fd });
                format!("io {r} buf=- twin={tr} twinbuf=-")
            }
            Op::FClose(fd) => {
                let fd = *fd as usize;
                if fd >= self.files.len() {
                    "invalid".into()
                } else {
                    if let Some(f) = self.files[fd].take() {
                        self.stale_fd[fd] = f.as_raw_fd();
                        self.entered(|_| drop(f));
                    }
                    if let Some(f) = self.twin_files[fd].take() {
                        let twin = self.twin.clone();
                        let _g = turmoil_fs::enter(&twin, turmoil_fs::EnterCtx { now: self.now, on_corruption: None });
                        drop(f);
                    }
                    "unit".into()
                }
            }
            Op::FOpen(fd) => {
                let fd = *fd as usize;
                if fd >= self.files.len() {
                    "invalid".into()
                } else {
                    if self.files[fd].is_none() {
                        let f = self.entered(|_| open_rw(&path(fd)).ok());
                        self.files[fd] = f;
                        self.gen[fd] += 1;
                    }
                    if self.twin_files[fd].is_none() {
                        let twin = self.twin.clone();
                        let _g = turmoil_fs::enter(&twin, turmoil_fs::EnterCtx { now: self.now, on_corruption: None });
                        self.twin_files[fd] = open_rw(&path(fd)).ok();
                    }
                    "unit".into()
                }
            }
            Op::Final => {
                let n = self.cfg.nfiles as usize;
                let main: Vec<String> = (0..n).map(|k| hex(&self.whole_file(false, k))).collect();
                let twin: Vec<String> = (0..n).map(|k| hex(&self.whole_file(true, k))).collect();
                // read buffers of submissions that never produced a data-carrying completion must be untouched
                let mut unt = vec![];
                for s in &self.sqes {
                    if let Kind::Read { .. } = s.kind {
                        if !s.done {
                            let clean = self.bufs[s.buf].iter().all(|b| *b == SENTINEL);
                            unt.push(format!("{}:{}", s.ud, if clean { 1 } else { 0 }));
                        }
                    }
                }
                format!(
                    "final files={} twinfiles={} untouched={}",
                    main.join(","),
                    twin.join(","),
                    if unt.is_empty() { "-".to_string() } else { unt.join(",") }
                )
            }
        };
        (ora, obs)
    }

    fn teardown(mut self) {
        // drop ring handles while entered so that they unregister; files likewise
        let rings = std::mem::take(&mut self.rings);
        self.entered(|_| drop(rings));
        let files = std::mem::take(&mut self.files);
        self.entered(|_| drop(files));
        let tf = std::mem::take(&mut self.twin_files);
        let twin = self.twin.clone();
        let _g = turmoil_fs::enter(&twin, turmoil_fs::EnterCtx { now: self.now, on_corruption: None });
        drop(tf);
    }
}

#[derive(Clone)]
pub struct Case {
    family: &'static str,
    /// "standalone" or "sim"
    mode: &'static str,
    cfg: Cfg,
    ops: Vec<Op>,
}

const TICK_NS: u64 = 1_000_000;

fn cfg_line(c: &Cfg, mode: &str, simseed: u64) -> String {
    format!(
        "CFG mode={mode} simseed={simseed} nfiles={} latmin={} latmax={} cache={} fsseed={} init={}",
        c.nfiles,
        c.lat_min,
        c.lat_max,
        c.cache as u8,
        c.fs_seed,
        c.init.iter().map(|b| hex(b)).collect::<Vec<_>>().join(",")
    )
}

/// The same op language inside a real `turmoil::Sim`: one host whose software executes the queued ops in
/// lock-step (one op, one `sim.step()`); `crash` is `Sim::crash` + `Sim::bounce`; ring time is the host's clock.
fn run_case_sim(case: &Case, seed: u64) -> Vec<String> {
    let case = case.clone();
    let handle = std::thread::Builder::new()
        .name("case".into())
        .spawn(move || {
            util::install_quiet_panic_hook();
            let mut lines: Vec<String> = vec![];
            let cfg = case.cfg.clone();
            let twin = Arc::new(Mutex::new(Fs::new(fs_config(&cfg), cfg.fs_seed ^ 0x5555)));
            let queue: Rc<RefCell<VecDeque<Op>>> = Rc::default();
            let results: Rc<RefCell<VecDeque<(Vec<String>, String)>>> = Rc::default();
            let notify = Rc::new(tokio::sync::Notify::new());
            let next_ring = Rc::new(Cell::new(0u32));
            let started = Rc::new(Cell::new(false));

            let mut builder = turmoil::Builder::new();
            builder
                .simulation_duration(Duration::from_secs(1_000_000))
                .tick_duration(Duration::from_nanos(TICK_NS))
                .rng_seed(seed);
            if cfg.lat_max > 0 {
                builder.fs().io_latency().min_latency(Duration::from_nanos(cfg.lat_min)).max_latency(Duration::from_nanos(cfg.lat_max));
            }
            if cfg.cache {
                builder.fs().page_cache().page_size(16).max_pages(4);
            }
            let mut sim = builder.build();
            {
                let (queue, results, notify, next_ring, started, twin, cfg) =
                    (queue.clone(), results.clone(), notify.clone(), next_ring.clone(), started.clone(), twin.clone(), cfg.clone());
                sim.host("srv", move || {
                    let (queue, results, notify, next_ring, started, twin, cfg) =
                        (queue.clone(), results.clone(), notify.clone(), next_ring.clone(), started.clone(), twin.clone(), cfg.clone());
                    async move {
                        let first = !started.replace(true);
                        let mut w = World::new_in_sim(cfg, twin, next_ring, first);
                        loop {
                            notify.notified().await;
                            loop {
                                let Some(op) = queue.borrow_mut().pop_front() else { break };
                                let r = w.exec(&op);
                                results.borrow_mut().push_back(r);
                            }
                        }
                    }
                });
            }
            // a second host with its own fs and ring registry (same fd numbers!) that never rests
            sim.host("decoy", || async {
                create_dir_all("/u")?;
                let file = open_rw("/u/f0")?;
                let fd = types::Fd(file.as_raw_fd());
                let mut ring = IoUring::new(4)?;
                let mut buf = vec![0xDDu8; 8];
                let mut k = 0u64;
                loop {
                    k += 1;
                    let e = match k % 4 {
                        0 => opcode::Write::new(fd, buf.as_ptr(), 8).offset(k % 5).build(),
                        1 => opcode::Read::new(fd, buf.as_mut_ptr(), 8).build(),
                        2 => opcode::Fsync::new(fd).build(),
                        _ => opcode::AsyncCancel::new(k % 9).build(),
                    }
                    .user_data(k % 9);
                    unsafe {
                        let _ = ring.submission().push(&e);
                    }
                    let _ = ring.submit();
                    if k % 3 == 0 {
                        let mut cq = ring.completion();
                        cq.sync();
                        for _ in cq.by_ref() {}
                    }
                    if k % 17 == 0 {
                        ring = IoUring::new(2)?;
                    }
                    tokio::time::sleep(Duration::from_nanos(TICK_NS)).await;
                }
            });
            let mut dead = false;
            let step = |sim: &mut turmoil::Sim<'_>| -> Result<(), &'static str> {
                match catch(|| sim.step()) {
                    Ok(Ok(_)) => Ok(()),
                    Ok(Err(_)) => Err("simerr"),
                    Err(c) => Err(c),
                }
            };
            // software start: files created, host parked on `notified()`
            if step(&mut sim).is_err() {
                lines.push("OBS panic start".into());
                dead = true;
            }
            let mut dry: BTreeMap<u32, bool> = BTreeMap::new();
            for op in &case.ops {
                if dead {
                    break;
                }
                match op {
                    Op::NextOpt(r) if dry.get(r).copied().unwrap_or(false) => continue,
                    Op::CqSync(r) => {
                        dry.insert(*r, false);
                    }
                    _ => {}
                }
                lines.push(format!("OP {}", op.text()));
                match op {
                    Op::Advance(ns) => {
                        for _ in 0..(*ns / TICK_NS) {
                            if let Err(c) = step(&mut sim) {
                                lines.push(format!("OBS panic {c}"));
                                dead = true;
                                break;
                            }
                        }
                        if !dead {
                            lines.push("OBS unit".into());
                        }
                    }
                    Op::Crash => {
                        let r = catch(|| {
                            sim.crash("srv");
                            twin.lock().unwrap().crash();
                            sim.bounce("srv");
                        });
                        match r.and_then(|_| step(&mut sim)) {
                            Ok(()) => {
                                lines.push("OBS unit".into());
                                lines.push(format!("OP ctl advance {TICK_NS}"));
                                lines.push("OBS unit".into());
                            }
                            Err(c) => {
                                lines.push(format!("OBS panic {c}"));
                                dead = true;
                            }
                        }
                    }
                    _ => {
                        queue.borrow_mut().push_back(op.clone());
                        notify.notify_one();
                        match step(&mut sim) {
                            Err(c) => {
                                lines.push(format!("OBS panic {c}"));
                                dead = true;
                            }
                            Ok(()) => match results.borrow_mut().pop_front() {
                                None => {
                                    lines.push("OBS notrun".into());
                                    dead = true;
                                }
                                Some((ora, obs)) => {
                                    if let Op::NextOpt(r) = op {
                                        if obs == "none" || obs == "invalid" {
                                            dry.insert(*r, true);
                                        }
                                    }
                                    for o in ora {
                                        lines.push(format!("ORA {o}"));
                                    }
                                    lines.push(format!("OBS {obs}"));
                                    // the op ran at the start of a tick; the tick then elapsed
                                    lines.push(format!("OP ctl advance {TICK_NS}"));
                                    lines.push("OBS unit".into());
                                }
                            },
                        }
                    }
                }
            }
            if dead {
                std::mem::forget(sim);
            } else {
                let _ = catch(move || drop(sim));
            }
            lines
        })
        .expect("spawn");
    match handle.join() {
        Ok(l) => l,
        Err(_) => vec!["OBS panic harness".into()],
    }
}

fn run_case(case: &Case) -> Vec<String> {
    let case = case.clone();
    let handle = std::thread::Builder::new()
        .name("case".into())
        .spawn(move || {
            util::install_quiet_panic_hook();
            // AsyncFd::readable arms tokio timers: give it a paused runtime context
            let rt = tokio::runtime::Builder::new_current_thread().enable_time().start_paused(true).build().expect("rt");
            let _e = rt.enter();
            let mut lines = vec![];
            let mut w = World::new(case.cfg.clone());
            let mut dry: BTreeMap<u32, bool> = BTreeMap::new();
            for op in &case.ops {
                match op {
                    Op::NextOpt(r) if dry.get(r).copied().unwrap_or(false) => continue,
                    Op::CqSync(r) => {
                        dry.insert(*r, false);
                    }
                    _ => {}
                }
                lines.push(format!("OP {}", op.text()));
                match catch(|| w.exec(op)) {
                    Ok((ora, obs)) => {
                        if let Op::NextOpt(r) = op {
                            if obs == "none" || obs == "invalid" {
                                dry.insert(*r, true);
                            }
                        }
                        for o in ora {
                            lines.push(format!("ORA {o}"));
                        }
                        lines.push(format!("OBS {obs}"));
                    }
                    Err(class) => {
                        lines.push(format!("OBS panic {class}"));
                        std::mem::forget(w);
                        return lines;
                    }
                }
            }
            let _ = catch(move || w.teardown());
            lines
        })
        .expect("spawn");
    match handle.join() {
        Ok(l) => l,
        Err(_) => vec!["OBS panic harness".into()],
    }
}

// ---- generators -----------------------------------------------------------------------------------

struct GenParams {
    family: &'static str,
    nrings: u32,
    nfiles: u32,
    len: usize,
    w_push: u64,
    w_submit: u64,
    w_cancel: u64,
    w_advance: u64,
    w_drain: u64,
    w_readable: u64,
    w_file: u64,
    w_close: u64,
    w_link: u64,
    w_dropring: u64,
    w_crash: u64,
    dup_ud: bool,
    w_sqinfo: u64,
    /// inside a turmoil::Sim: whole-tick advances, real `readable().await` waiters
    sim: bool,
    w_await: u64,
}

fn gen_cfg(rng: &mut Rng, nfiles: u32) -> Cfg {
    let (lat_min, lat_max) = match rng.below(6) {
        0 => (0, 0),
        1 => (1_000_000, 1_000_000),
        2 => (50_000, 50_000),
        3 => (10_000, 5_000_000),
        4 => (50_000, 5_000_000),
        _ => (1_000, 2_000_000),
    };
    let init = (0..nfiles)
        .map(|_| {
            let n = *rng.pick(&[0usize, 3, 8, 20]);
            (0..n).map(|_| rng.below(200) as u8 + 1).collect()
        })
        .collect();
    Cfg { nfiles, lat_min, lat_max, cache: lat_max > 0 && rng.chance(1, 3), fs_seed: rng.next() % 1_000_000, init }
}

const ADVANCES: [u64; 8] = [0, 100, 10_000, 50_000, 1_000_000, 1_000_000, 5_000_000, 20_000_000];
/// sim mode: every op costs one tick by itself; explicit advances are ≥ 2 ticks (so that a replay can tell them apart)
const ADVANCES_SIM: [u64; 5] = [2_000_000, 2_000_000, 3_000_000, 5_000_000, 20_000_000];

/// Random, state-aware history.
fn gen_history(rng: &mut Rng, p: &GenParams) -> (Cfg, Vec<Op>) {
    let cfg = gen_cfg(rng, p.nfiles);
    let mut ops = vec![];
    let mut ring_live: Vec<bool> = vec![];
    let mut next_ud: u64 = 1;
    let mut submitted_uds: Vec<u64> = vec![];
    let mut pushed_uds: Vec<u64> = vec![];
    let depths = [1u32, 2, 3, 4, 8];
    for _ in 0..p.nrings {
        ops.push(Op::NewRing(*rng.pick(&depths)));
        ring_live.push(true);
        ops.push(Op::CqNew(ring_live.len() as u32 - 1));
    }
    let total = p.w_push + p.w_submit + p.w_cancel + p.w_advance + p.w_drain + p.w_readable + p.w_file + p.w_close + p.w_dropring + p.w_crash + p.w_sqinfo + p.w_await;
    let advances: &[u64] = if p.sim { &ADVANCES_SIM } else { &ADVANCES };
    let mut crashed = false;
    while ops.len() < p.len {
        let live: Vec<u32> = ring_live.iter().enumerate().filter(|(_, l)| **l).map(|(i, _)| i as u32).collect();
        let any_ring = if ring_live.is_empty() { 0 } else { rng.below(ring_live.len() as u64) as u32 };
        let ring = if !live.is_empty() && rng.chance(9, 10) { *rng.pick(&live) } else { any_ring };
        let mut x = rng.below(total);
        macro_rules! take {
            ($w:expr) => {{
                if x < $w {
                    true
                } else {
                    x -= $w;
                    false
                }
            }};
        }
        if take!(p.w_push) {
            let fd = if rng.chance(1, 25) { p.nfiles } else { rng.below(p.nfiles as u64) as u32 };
            if p.dup_ud && rng.chance(1, 4) {
                // the same user_data again — with the identical operation, so that attribution is immaterial
                let prev: Vec<Op> = ops.iter().filter(|o| matches!(o, Op::Push { kind, .. } if !matches!(kind, Kind::Read { .. } | Kind::Cancel { .. }))).cloned().collect();
                if !prev.is_empty() {
                    if let Op::Push { ud, kind, flags, .. } = rng.pick(&prev).clone() {
                        pushed_uds.push(ud);
                        ops.push(Op::Push { ring, ud, kind, flags });
                        continue;
                    }
                }
            }
            let ud = {
                next_ud += 1;
                next_ud - 1
            };
            // sizes: mostly a few bytes; sometimes nothing at all; sometimes several cache pages far past EOF
            let (max_off, min_len, max_len) = match rng.below(40) {
                0 | 1 => (12, 0, 0),
                2 | 3 | 4 => (600, 40, 300),
                _ => (12, 1, 8),
            };
            let kind = match rng.below(10) {
                0..=3 => Kind::Read { fd, off: rng.below(max_off), len: rng.range(min_len, max_len) as u32 },
                4..=7 => {
                    let n = rng.range(min_len, max_len.min(min_len + 6).max(min_len)) as usize;
                    let n = if max_len > 8 { rng.range(min_len, max_len) as usize } else { n };
                    Kind::Write { fd, off: rng.below(max_off), data: (0..n).map(|_| rng.below(255) as u8).collect() }
                }
                _ => Kind::Fsync { fd },
            };
            // user_data is an opaque u64: the extremes are as good as any
            let ud = if !p.dup_ud && rng.chance(1, 40) {
                let x = if rng.chance(1, 2) { 0 } else { u64::MAX - rng.below(2) };
                if pushed_uds.contains(&x) || submitted_uds.contains(&x) { ud } else { x }
            } else {
                ud
            };
            let flags: u8 = if rng.below(100) < p.w_link {
                match rng.below(8) {
                    0 => 1,
                    1 => 2,
                    2 | 3 => 4,
                    4 => 8,
                    5 => 32,
                    6 => 16 | 4,
                    _ => (rng.below(63) + 1) as u8,
                }
            } else if rng.chance(1, 12) {
                16 // ASYNC: accepted, no effect
            } else {
                0
            };
            pushed_uds.push(ud);
            ops.push(Op::Push { ring, ud, kind, flags });
            // bursts fill the queue
            if rng.chance(1, 3) {
                continue;
            }
        } else if take!(p.w_submit) {
            let mode = match rng.below(12) {
                0 => 1,
                1 => 2,
                _ => 0,
            };
            ops.push(Op::Submit { ring, mode, want: rng.below(3) as u32 });
            if mode != 2 {
                submitted_uds.append(&mut pushed_uds.clone());
            }
        } else if take!(p.w_cancel) {
            let target = if !submitted_uds.is_empty() && rng.chance(5, 6) {
                *rng.pick(&submitted_uds)
            } else if !pushed_uds.is_empty() && rng.chance(1, 2) {
                *rng.pick(&pushed_uds)
            } else {
                9_000 + rng.below(5)
            };
            let ud = next_ud;
            next_ud += 1;
            pushed_uds.push(ud);
            // a cancel is an SQE like any other: rejected flags reject it (-EINVAL, target untouched), ASYNC is accepted
            let cflags: u8 = match rng.below(10) {
                0 => *rng.pick(&[1u8, 2, 4, 8, 32]),
                1 => (rng.below(63) + 1) as u8,
                2 => 16,
                _ => 0,
            };
            ops.push(Op::Push { ring, ud, kind: Kind::Cancel { target }, flags: cflags });
            if rng.chance(2, 3) {
                ops.push(Op::Submit { ring, mode: 0, want: 0 });
                submitted_uds.append(&mut pushed_uds.clone());
            }
        } else if take!(p.w_sqinfo) {
            ops.push(Op::SqInfo(ring));
        } else if take!(p.w_await) {
            if rng.chance(1, 2) {
                ops.push(Op::Await(ring));
            } else {
                ops.push(Op::Awaited(ring));
            }
        } else if take!(p.w_advance) {
            ops.push(Op::Advance(*rng.pick(advances)));
        } else if take!(p.w_drain) {
            match rng.below(8) {
                0 => ops.push(Op::CqNew(ring)),
                1 => ops.push(Op::Next(ring)), // next without a fresh sync
                2 => {
                    // sync, let time pass, then iterate
                    ops.push(Op::CqSync(ring));
                    ops.push(Op::Advance(*rng.pick(advances)));
                    ops.push(Op::Next(ring));
                }
                3 | 4 => {
                    // partial drain
                    ops.push(Op::CqSync(ring));
                    ops.push(Op::Next(ring));
                }
                _ => {
                    ops.push(Op::CqSync(ring));
                    for _ in 0..rng.range(1, 5) {
                        ops.push(Op::Next(ring));
                    }
                }
            }
        } else if take!(p.w_readable) {
            ops.push(Op::Readable(ring));
            if rng.chance(1, 2) {
                ops.push(Op::CqSync(ring));
                ops.push(Op::Next(ring));
            }
        } else if take!(p.w_file) {
            let fd = rng.below(p.nfiles as u64) as u32;
            match rng.below(3) {
                0 => {
                    let n = rng.range(1, 5) as usize;
                    ops.push(Op::FWrite { fd, off: rng.below(12), data: (0..n).map(|_| rng.below(255) as u8).collect() });
                }
                1 => ops.push(Op::FRead { fd, off: rng.below(12), len: rng.range(1, 8) as u32 }),
                _ => ops.push(Op::FSync { fd }),
            }
        } else if take!(p.w_close) {
            let fd = rng.below(p.nfiles as u64) as u32;
            if rng.chance(1, 2) {
                ops.push(Op::FClose(fd));
            } else {
                ops.push(Op::FOpen(fd));
            }
        } else if take!(p.w_dropring) {
            if rng.chance(1, 2) {
                ops.push(Op::DropRing(ring));
                if let Some(l) = ring_live.get_mut(ring as usize) {
                    *l = false;
                }
            } else {
                match rng.below(6) {
                    0 => ops.push(Op::NewRing(0)),                       // rejected: no ring, no id
                    1 => ops.push(Op::NewRingB(*rng.pick(&depths), 1)),  // rejected
                    2 => ops.push(Op::NewRingB(*rng.pick(&depths), 2)),  // rejected
                    k => {
                        if k == 3 {
                            ops.push(Op::NewRingB(*rng.pick(&[1u32, 5, 6, 7, 9]), 0));
                        } else {
                            ops.push(Op::NewRing(*rng.pick(&depths)));
                        }
                        ring_live.push(true);
                        ops.push(Op::CqNew(ring_live.len() as u32 - 1));
                    }
                }
            }
        } else if !crashed || rng.chance(1, 3) {
            crashed = true;
            ops.push(Op::Crash);
            // stale handles are used by whatever follows; then re-use
            if rng.chance(2, 3) {
                for f in 0..p.nfiles {
                    ops.push(Op::FOpen(f));
                }
                ops.push(Op::NewRing(*rng.pick(&depths)));
                for l in ring_live.iter_mut() {
                    *l = false;
                }
                ring_live.push(true);
                ops.push(Op::CqNew(ring_live.len() as u32 - 1));
            }
        }
    }
    closing(&mut ops, ring_live.len() as u32);
    (cfg, ops)
}

/// Drain every ring completely, then take the final observation.
fn closing(ops: &mut Vec<Op>, nrings: u32) {
    for r in 0..nrings {
        ops.push(Op::Submit { ring: r, mode: 0, want: 0 });
    }
    ops.push(Op::Advance(100_000_000));
    for r in 0..nrings {
        for _round in 0..2 {
            ops.push(Op::CqSync(r));
            for _ in 0..24 {
                ops.push(Op::NextOpt(r));
            }
        }
    }
    ops.push(Op::Final);
}

/// Every prefix of a short base history, followed by a crash and re-use.
fn crash_points(rng: &mut Rng, out: &mut Vec<Case>, n_bases: usize) {
    for _ in 0..n_bases {
        let p = GenParams {
            family: "crashpoint",
            nrings: 1,
            nfiles: 1,
            len: rng.range(6, 12) as usize,
            w_push: 40,
            w_submit: 20,
            w_cancel: 6,
            w_advance: 12,
            w_drain: 16,
            w_readable: 2,
            w_file: 4,
            w_close: 0,
            w_link: 0,
            w_dropring: 0,
            w_crash: 0,
            dup_ud: false,
            w_sqinfo: 1,
            sim: false,
            w_await: 0,
        };
        let cfg = gen_cfg(rng, 1);
        let (_, mut base) = gen_history(rng, &p);
        // strip the closing phase
        while let Some(last) = base.last() {
            if matches!(last, Op::Final | Op::NextOpt(_) | Op::CqSync(_) | Op::Advance(100_000_000)) {
                base.pop();
            } else {
                break;
            }
        }
        if let Some(Op::Submit { .. }) = base.last() {
            base.pop();
        }
        for cut in 2..=base.len() {
            let mut ops: Vec<Op> = base[..cut].to_vec();
            ops.push(Op::Crash);
            // the dead ring's handle is tried first
            ops.push(Op::Push { ring: 0, ud: 700, kind: Kind::Fsync { fd: 0 }, flags: 0 });
            ops.push(Op::Submit { ring: 0, mode: 0, want: 0 });
            ops.push(Op::Advance(50_000_000));
            ops.push(Op::Readable(0));
            ops.push(Op::CqSync(0));
            ops.push(Op::Next(0));
            // bounce: new software, new ring, reopen
            ops.push(Op::FOpen(0));
            ops.push(Op::NewRing(2));
            ops.push(Op::CqNew(1));
            ops.push(Op::Push { ring: 1, ud: 800, kind: Kind::Read { fd: 0, off: 0, len: 8 }, flags: 0 });
            ops.push(Op::Push { ring: 1, ud: 801, kind: Kind::Write { fd: 0, off: 1, data: vec![0x11, 0x22] }, flags: 0 });
            ops.push(Op::Submit { ring: 1, mode: 0, want: 0 });
            closing(&mut ops, 2);
            out.push(Case { family: "crashpoint", mode: "standalone", cfg: cfg.clone(), ops });
        }
    }
}

/// Systematic cancel scenarios: target in the SQ / in flight / matured but not drained / drained / unknown,
/// single and double cancel, cancel of a cancel.
fn cancel_matrix(rng: &mut Rng, out: &mut Vec<Case>) {
    let kinds = [
        Kind::Read { fd: 0, off: 0, len: 4 },
        Kind::Write { fd: 0, off: 2, data: vec![0xC1, 0xC2, 0xC3] },
        Kind::Fsync { fd: 0 },
    ];
    for lat in [0u64, 1_000_000] {
        for kind in kinds.iter() {
            for stage in 0..5 {
                for second in 0..3 {
                    let mut cfg = gen_cfg(rng, 1);
                    cfg.lat_min = lat;
                    cfg.lat_max = lat;
                    cfg.cache = false;
                    cfg.init = vec![vec![1, 2, 3, 4, 5, 6]];
                    let mut ops = vec![Op::NewRing(4), Op::CqNew(0)];
                    ops.push(Op::Push { ring: 0, ud: 20, kind: kind.clone(), flags: 0 });
                    match stage {
                        0 => {} // cancel travels in the same batch, after its target
                        1 => ops.push(Op::Submit { ring: 0, mode: 0, want: 0 }), // in flight
                        2 => {
                            ops.push(Op::Submit { ring: 0, mode: 0, want: 0 });
                            ops.push(Op::Advance(2_000_000)); // matured, undrained
                        }
                        3 => {
                            ops.push(Op::Submit { ring: 0, mode: 0, want: 0 });
                            ops.push(Op::Advance(2_000_000));
                            ops.push(Op::CqSync(0));
                            ops.push(Op::Next(0)); // drained
                        }
                        _ => {
                            // matured and promoted into `ready` by a drain of something else
                            ops.push(Op::Push { ring: 0, ud: 19, kind: Kind::Fsync { fd: 0 }, flags: 0 });
                            ops.push(Op::Submit { ring: 0, mode: 0, want: 0 });
                            ops.push(Op::Advance(2_000_000));
                            ops.push(Op::CqSync(0));
                            ops.push(Op::Next(0));
                        }
                    }
                    ops.push(Op::Push { ring: 0, ud: 21, kind: Kind::Cancel { target: 20 }, flags: 0 });
                    ops.push(Op::Submit { ring: 0, mode: 0, want: 0 });
                    match second {
                        1 => {
                            ops.push(Op::Push { ring: 0, ud: 22, kind: Kind::Cancel { target: 20 }, flags: 0 });
                            ops.push(Op::Submit { ring: 0, mode: 0, want: 0 });
                        }
                        2 => {
                            ops.push(Op::Push { ring: 0, ud: 22, kind: Kind::Cancel { target: 21 }, flags: 0 });
                            ops.push(Op::Submit { ring: 0, mode: 0, want: 0 });
                        }
                        _ => {}
                    }
                    closing(&mut ops, 1);
                    out.push(Case { family: "cancelmatrix", mode: "standalone", cfg, ops });
                }
            }
        }
    }
}

/// Durability through the ring: ring writes, ring (or shim) fsync, more writes, crash somewhere, look.
fn durability(rng: &mut Rng, out: &mut Vec<Case>, n: usize, mode: &'static str) {
    for _ in 0..n {
        let cfg = gen_cfg(rng, 1);
        let mut ops = vec![Op::NewRing(*rng.pick(&[2u32, 4, 8])), Op::CqNew(0)];
        let mut ud = 1u64;
        let rounds = rng.range(1, 3);
        let crash_at = rng.below(rounds * 3 + 1);
        let mut step = 0u64;
        let mut crashed = false;
        'outer: for _ in 0..rounds {
            for phase in 0..3 {
                if step == crash_at {
                    ops.push(Op::Crash);
                    crashed = true;
                    break 'outer;
                }
                step += 1;
                match phase {
                    0 | 2 => {
                        for _ in 0..rng.range(1, 2) {
                            let n = rng.range(1, 5) as usize;
                            let data: Vec<u8> = (0..n).map(|_| rng.below(255) as u8).collect();
                            ops.push(Op::Push { ring: 0, ud, kind: Kind::Write { fd: 0, off: rng.below(10), data }, flags: 0 });
                            ud += 1;
                        }
                        ops.push(Op::Submit { ring: 0, mode: 0, want: 0 });
                        if rng.chance(4, 5) {
                            ops.push(Op::Advance(20_000_000));
                            ops.push(Op::CqSync(0));
                            ops.push(Op::Next(0));
                            ops.push(Op::Next(0));
                        }
                    }
                    _ => {
                        if rng.chance(3, 4) {
                            ops.push(Op::Push { ring: 0, ud, kind: Kind::Fsync { fd: 0 }, flags: 0 });
                            ud += 1;
                            ops.push(Op::Submit { ring: 0, mode: 0, want: 0 });
                            if rng.chance(5, 6) {
                                ops.push(Op::Advance(20_000_000));
                                ops.push(Op::CqSync(0));
                                ops.push(Op::Next(0));
                            }
                        } else {
                            ops.push(Op::FSync { fd: 0 });
                        }
                    }
                }
            }
        }
        if !crashed {
            ops.push(Op::Crash);
        }
        ops.push(Op::FOpen(0));
        ops.push(Op::FRead { fd: 0, off: 0, len: 16 });
        closing(&mut ops, 1);
        out.push(Case { family: if mode == "sim" { "durabilitysim" } else { "durability" }, mode, cfg, ops });
    }
}

/// The canonical consumer loop inside a Sim: submit, `readable().await` in a task, poll the task every tick,
/// then sync and drain.
fn await_loops(rng: &mut Rng, out: &mut Vec<Case>, n: usize) {
    for _ in 0..n {
        let mut cfg = gen_cfg(rng, 1);
        let lat = *rng.pick(&[0u64, 500_000, 1_000_000, 2_500_000, 4_000_000]);
        cfg.lat_min = lat;
        cfg.lat_max = lat;
        cfg.cache = false;
        let mut ops = vec![Op::NewRing(4), Op::CqNew(0)];
        let mut ud = 1u64;
        if rng.chance(1, 6) {
            // the ring goes away under a parked waiter: it must come back with an error, not hang
            if rng.chance(1, 2) {
                ops.push(Op::Push { ring: 0, ud: 1, kind: Kind::Fsync { fd: 0 }, flags: 0 });
                ops.push(Op::Submit { ring: 0, mode: 0, want: 0 });
            }
            ops.push(Op::Await(0));
            ops.push(Op::Awaited(0));
            ops.push(Op::DropRing(0));
            for _ in 0..3 {
                ops.push(Op::Awaited(0));
            }
            closing(&mut ops, 1);
            out.push(Case { family: "awaitloop", mode: "sim", cfg, ops });
            continue;
        }
        for _round in 0..rng.range(1, 3) {
            let await_first = rng.chance(1, 2);
            if await_first {
                ops.push(Op::Await(0));
            }
            for _ in 0..rng.range(1, 3) {
                let kind = match rng.below(3) {
                    0 => Kind::Read { fd: 0, off: rng.below(6), len: rng.range(1, 6) as u32 },
                    1 => Kind::Write { fd: 0, off: rng.below(6), data: vec![rng.below(255) as u8; rng.range(1, 4) as usize] },
                    _ => Kind::Fsync { fd: 0 },
                };
                ops.push(Op::Push { ring: 0, ud, kind, flags: 0 });
                ud += 1;
            }
            ops.push(Op::Submit { ring: 0, mode: 0, want: 0 });
            if !await_first {
                ops.push(Op::Await(0));
            }
            for _ in 0..rng.range(2, 8) {
                ops.push(Op::Awaited(0));
            }
            ops.push(Op::CqSync(0));
            for _ in 0..3 {
                ops.push(Op::Next(0));
            }
            if rng.chance(1, 5) {
                ops.push(Op::Crash);
                ops.push(Op::FOpen(0));
                ops.push(Op::NewRing(4));
                let id = ops.iter().filter(|o| matches!(o, Op::NewRing(_))).count() as u32 - 1;
                ops.push(Op::CqNew(id));
                closing(&mut ops, id + 1);
                out.push(Case { family: "awaitloop", mode: "sim", cfg: cfg.clone(), ops: ops.clone() });
                break;
            }
        }
        if !matches!(ops.last(), Some(Op::Final)) {
            closing(&mut ops, 1);
            out.push(Case { family: "awaitloop", mode: "sim", cfg, ops });
        }
    }
}

/// Every sequence of exactly `len` ops over a 7-letter alphabet on one depth-2 ring, fixed 1 ms latency:
/// push read / push write / push cancel-of-the-first / submit / advance 1 ms / sync / next.
fn exhaustive(out: &mut Vec<Case>, len: usize) {
    let cfg = Cfg { nfiles: 1, lat_min: 1_000_000, lat_max: 1_000_000, cache: false, fs_seed: 1, init: vec![vec![1, 2, 3, 4, 5, 6]] };
    let mut idx = vec![0usize; len];
    loop {
        let mut ops = vec![Op::NewRing(2), Op::CqNew(0)];
        let mut ud = 1u64;
        for &a in &idx {
            match a {
                0 => {
                    ops.push(Op::Push { ring: 0, ud, kind: Kind::Read { fd: 0, off: 1, len: 4 }, flags: 0 });
                    ud += 1;
                }
                1 => {
                    ops.push(Op::Push { ring: 0, ud, kind: Kind::Write { fd: 0, off: 2, data: vec![0xB0 + ud as u8, 0xC0 + ud as u8] }, flags: 0 });
                    ud += 1;
                }
                2 => {
                    ops.push(Op::Push { ring: 0, ud, kind: Kind::Cancel { target: 1 }, flags: 0 });
                    ud += 1;
                }
                3 => ops.push(Op::Submit { ring: 0, mode: 0, want: 0 }),
                4 => ops.push(Op::Advance(1_000_000)),
                5 => ops.push(Op::CqSync(0)),
                _ => ops.push(Op::Next(0)),
            }
        }
        closing(&mut ops, 1);
        out.push(Case { family: "exh", mode: "standalone", cfg: cfg.clone(), ops });
        // next index vector
        let mut i = len;
        loop {
            if i == 0 {
                return;
            }
            i -= 1;
            idx[i] += 1;
            if idx[i] < 7 {
                break;
            }
            idx[i] = 0;
        }
    }
}

/// Large batches: a full SQ of 16–64 entries with one latency matures as a single batch (one big shuffle),
/// drained in one go, partially, or around a cancel of some of its members.
fn big_batches(rng: &mut Rng, out: &mut Vec<Case>, n: usize) {
    for _ in 0..n {
        let depth = *rng.pick(&[16u32, 32, 64]);
        let lat = *rng.pick(&[0u64, 1_000_000]);
        let cfg = Cfg { nfiles: 1, lat_min: lat, lat_max: lat, cache: false, fs_seed: rng.next() % 1000, init: vec![(0..40).map(|i| i as u8).collect()] };
        let mut ops = vec![Op::NewRing(depth), Op::CqNew(0)];
        for i in 0..depth as u64 {
            let kind = match rng.below(3) {
                0 => Kind::Read { fd: 0, off: rng.below(40), len: rng.range(1, 8) as u32 },
                1 => Kind::Write { fd: 0, off: rng.below(40), data: vec![i as u8; rng.range(1, 4) as usize] },
                _ => Kind::Fsync { fd: 0 },
            };
            ops.push(Op::Push { ring: 0, ud: 100 + i, kind, flags: 0 });
        }
        ops.push(Op::Push { ring: 0, ud: 99, kind: Kind::Fsync { fd: 0 }, flags: 0 }); // full
        ops.push(Op::Submit { ring: 0, mode: rng.below(2) as u8, want: depth });
        ops.push(Op::Advance(1_000_000));
        if rng.chance(1, 2) {
            // cancel a few members of the matured batch (some already promoted by a partial drain)
            ops.push(Op::CqSync(0));
            for _ in 0..rng.below(5) {
                ops.push(Op::Next(0));
            }
            for k in 0..rng.range(1, 4) {
                ops.push(Op::Push { ring: 0, ud: 10 + k, kind: Kind::Cancel { target: 100 + rng.below(depth as u64) }, flags: 0 });
            }
            ops.push(Op::Submit { ring: 0, mode: 0, want: 0 });
        }
        ops.push(Op::CqSync(0));
        for _ in 0..depth + 8 {
            ops.push(Op::NextOpt(0));
        }
        closing(&mut ops, 1);
        out.push(Case { family: "bigbatch", mode: "standalone", cfg, ops });
    }
}

/// AsyncCancel SQEs carrying each flag combination, against a target in flight / matured but unreaped / promoted /
/// absent, alone and inside a chain of linked entries: a rejected flag makes the cancel complete with -EINVAL and leaves
/// the target alone (it completes normally); ASYNC alone is an ordinary cancel.
fn flagged_cancels(rng: &mut Rng, out: &mut Vec<Case>) {
    let kinds = [
        Kind::Read { fd: 0, off: 0, len: 4 },
        Kind::Write { fd: 0, off: 1, data: vec![0xE1, 0xE2] },
        Kind::Fsync { fd: 0 },
    ];
    for flags in 1u8..64 {
        for stage in 0..4 {
            let lat = if stage == 0 { 1_000_000 } else { *rng.pick(&[0u64, 1_000_000]) };
            let cfg = Cfg { nfiles: 1, lat_min: lat, lat_max: lat, cache: false, fs_seed: rng.next() % 1000, init: vec![vec![1, 2, 3, 4, 5, 6]] };
            let mut ops = vec![Op::NewRing(8), Op::CqNew(0)];
            let kind = rng.pick(&kinds).clone();
            if stage != 3 {
                ops.push(Op::Push { ring: 0, ud: 20, kind, flags: 0 });
            }
            match stage {
                0 => ops.push(Op::Submit { ring: 0, mode: 0, want: 0 }), // in flight
                1 => {
                    ops.push(Op::Submit { ring: 0, mode: 0, want: 0 });
                    ops.push(Op::Advance(2_000_000)); // matured, unreaped
                }
                2 => {
                    // promoted into `ready` by the drain of something else
                    ops.push(Op::Push { ring: 0, ud: 19, kind: Kind::Fsync { fd: 0 }, flags: 0 });
                    ops.push(Op::Submit { ring: 0, mode: 0, want: 0 });
                    ops.push(Op::Advance(2_000_000));
                    ops.push(Op::CqSync(0));
                    ops.push(Op::Next(0));
                }
                _ => {} // no such target
            }
            // the flagged cancel, alone or in the middle of a chain of IO_LINK entries
            let chain = rng.chance(1, 3);
            if chain {
                ops.push(Op::Push { ring: 0, ud: 30, kind: Kind::Fsync { fd: 0 }, flags: 4 });
            }
            ops.push(Op::Push { ring: 0, ud: 21, kind: Kind::Cancel { target: 20 }, flags });
            if chain {
                ops.push(Op::Push { ring: 0, ud: 31, kind: Kind::Read { fd: 0, off: 0, len: 2 }, flags: 0 });
            }
            ops.push(Op::Submit { ring: 0, mode: 0, want: 0 });
            if rng.chance(1, 2) {
                // and an unflagged one afterwards must still work
                ops.push(Op::Push { ring: 0, ud: 22, kind: Kind::Cancel { target: 20 }, flags: 0 });
                ops.push(Op::Submit { ring: 0, mode: 0, want: 0 });
            }
            closing(&mut ops, 1);
            out.push(Case { family: "flaggedcancel", mode: "standalone", cfg, ops });
        }
    }
}

/// One case: all 64 combinations of the six IOSQE flag bits.
fn flag_sweep(out: &mut Vec<Case>) {
    let cfg = Cfg { nfiles: 1, lat_min: 0, lat_max: 0, cache: false, fs_seed: 1, init: vec![vec![9, 9]] };
    let mut ops = vec![Op::NewRing(64), Op::CqNew(0)];
    for f in 0..64u8 {
        ops.push(Op::Push { ring: 0, ud: f as u64, kind: Kind::Fsync { fd: 0 }, flags: f });
    }
    ops.push(Op::Push { ring: 0, ud: 64, kind: Kind::Fsync { fd: 0 }, flags: 0 }); // the 65th: full
    ops.push(Op::Submit { ring: 0, mode: 0, want: 0 });
    ops.push(Op::CqSync(0));
    for _ in 0..66 {
        ops.push(Op::NextOpt(0));
    }
    ops.push(Op::Final);
    out.push(Case { family: "flagsweep", mode: "standalone", cfg, ops });
}

pub fn main(args: &Args, out: &mut dyn Write) {
    let mut rng = Rng::new(args.seed);
    let mut cases: Vec<Case> = vec![];
    if let Some(pth) = &args.replay {
        let sc = util::read_case_file(pth);
        let get = |k: &str, d: u64| sc.cfg.iter().find(|(kk, _)| kk == k).and_then(|(_, v)| v.parse().ok()).unwrap_or(d);
        let init: Vec<Vec<u8>> = sc
            .cfg
            .iter()
            .find(|(k, _)| k == "init")
            .map(|(_, v)| v.split(',').map(unhex).collect())
            .unwrap_or_default();
        let nfiles = get("nfiles", 1) as u32;
        let mut init = init;
        init.resize(nfiles as usize, vec![]);
        let cfg = Cfg { nfiles, lat_min: get("latmin", 0), lat_max: get("latmax", 0), cache: get("cache", 0) == 1, fs_seed: get("fsseed", 1), init };
        let ops: Vec<Op> = sc.ops.iter().filter_map(|t| Op::parse(t)).collect();
        let mode = if sc.cfg.iter().any(|(k, v)| k == "mode" && v == "sim") { "sim" } else { "standalone" };
        // in sim mode the per-op `advance <tick>` lines are produced by the harness itself
        let ops: Vec<Op> = if mode == "sim" {
            let mut out: Vec<Op> = vec![];
            let all: Vec<Op> = ops;
            let mut i = 0;
            while i < all.len() {
                out.push(all[i].clone());
                let auto = !matches!(all[i], Op::Advance(_));
                if auto && matches!(all.get(i + 1), Some(Op::Advance(n)) if *n == TICK_NS) {
                    i += 1;
                }
                i += 1;
            }
            out
        } else {
            ops
        };
        cases.push(Case { family: "replay", mode, cfg, ops });
    } else {
        let scale = match args.tier.as_str() {
            "thorough" => 100,
            "search" => 8,
            _ => 1,
        };
        let fam = |family: &'static str| GenParams {
            family,
            nrings: 1,
            nfiles: 1,
            len: 30,
            w_push: 34,
            w_submit: 14,
            w_cancel: 6,
            w_advance: 14,
            w_drain: 20,
            w_readable: 4,
            w_file: 4,
            w_close: 1,
            w_link: 4,
            w_dropring: 1,
            w_crash: 2,
            dup_ud: false,
            w_sqinfo: 2,
            sim: false,
            w_await: 0,
        };
        let plans: Vec<(GenParams, usize)> = vec![
            (GenParams { len: 24, w_crash: 0, w_dropring: 0, ..fam("batch") }, 220),
            (GenParams { nrings: 2, nfiles: 2, len: 40, ..fam("interleave") }, 220),
            (GenParams { w_cancel: 22, w_push: 30, w_crash: 0, len: 36, ..fam("cancel") }, 200),
            (GenParams { w_drain: 8, w_advance: 24, w_readable: 16, w_crash: 0, ..fam("asyncfd") }, 120),
            (GenParams { w_link: 30, w_close: 10, nfiles: 2, ..fam("flagsclosed") }, 120),
            // entries sharing a user_data must be the *same* operation on the same fd generation: no close / reopen here
            (GenParams { dup_ud: true, w_cancel: 0, w_crash: 0, w_close: 0, w_dropring: 0, ..fam("dupud") }, 80),
            (GenParams { w_crash: 8, w_dropring: 5, nrings: 2, nfiles: 2, len: 40, ..fam("crashreuse") }, 160),
        ];
        for (p, n) in plans {
            for _ in 0..n * scale {
                let (cfg, ops) = gen_history(&mut rng, &p);
                cases.push(Case { family: p.family, mode: "standalone", cfg, ops });
            }
        }
        // the same language inside a real turmoil::Sim (Sim::crash / bounce, AsyncFd waiters woken by tokio)
        let simp = GenParams { sim: true, w_await: 10, w_readable: 4, w_crash: 3, w_dropring: 2, len: 30, ..fam("simhost") };
        for _ in 0..120 * scale {
            let (cfg, ops) = gen_history(&mut rng, &simp);
            cases.push(Case { family: "simhost", mode: "sim", cfg, ops });
        }
        await_loops(&mut rng, &mut cases, 80 * scale);
        let simp2 = GenParams { sim: true, w_await: 6, nrings: 2, nfiles: 2, w_crash: 6, len: 36, ..fam("simhost") };
        for _ in 0..60 * scale {
            let (cfg, ops) = gen_history(&mut rng, &simp2);
            cases.push(Case { family: "simhost", mode: "sim", cfg, ops });
        }
        cancel_matrix(&mut rng, &mut cases);
        flag_sweep(&mut cases);
        flagged_cancels(&mut rng, &mut cases);
        big_batches(&mut rng, &mut cases, 12 * scale);
        exhaustive(&mut cases, if args.tier == "thorough" { 6 } else { 5 });
        crash_points(&mut rng, &mut cases, 30 * scale);
        durability(&mut rng, &mut cases, 120 * scale, "standalone");
        // the same through Sim::crash + Sim::bounce: an fsync in flight / matured but unreaped / reaped at the crash
        durability(&mut rng, &mut cases, 40 * scale, "sim");
        if let Some(n) = args.cases {
            cases.truncate(n);
        }
    }

    let mut hist: BTreeMap<String, usize> = BTreeMap::new();
    let mut fam: BTreeMap<&'static str, usize> = BTreeMap::new();
    let mut total_ops = 0usize;
    let replay_simseed: Option<u64> = args.replay.as_ref().and_then(|pth| {
        util::read_case_file(pth).cfg.iter().find(|(k, _)| k == "simseed").and_then(|(_, v)| v.parse().ok())
    });
    for (n, case) in cases.iter().enumerate() {
        let seed = replay_simseed.unwrap_or_else(|| rng.next());
        writeln!(out, "CASE {n} family={} seed={seed}", case.family).unwrap();
        writeln!(out, "{}", cfg_line(&case.cfg, case.mode, seed)).unwrap();
        let lines = if case.mode == "sim" { run_case_sim(case, seed) } else { run_case(case) };
        for l in &lines {
            writeln!(out, "{l}").unwrap();
            let toks: Vec<&str> = l.split_whitespace().collect();
            if toks[0] == "OP" {
                total_ops += 1;
                let name = if toks[2] == "push" { format!("op:push-{}", toks[4]) } else { format!("op:{}", toks[2]) };
                *hist.entry(name).or_default() += 1;
            } else if toks[0] == "OBS" {
                let key = match toks[1] {
                    "cqe" => {
                        let res: i64 = toks[3].parse().unwrap_or(0);
                        if res < 0 { format!("obs:cqe{res}") } else { "obs:cqe-ok".to_string() }
                    }
                    "panic" => format!("obs:panic-{}", toks.get(2).unwrap_or(&"")),
                    "err" => format!("obs:err-{}", toks.get(2).unwrap_or(&"")),
                    "io" | "final" | "ring" | "submitted" | "synced" | "sq" => format!("obs:{}", toks[1]),
                    other => format!("obs:{other}"),
                };
                *hist.entry(key).or_default() += 1;
            }
        }
        writeln!(out, "END").unwrap();
        *fam.entry(case.family).or_default() += 1;
    }
    eprintln!("C18 input distribution: cases={} ops={} families={:?}", cases.len(), total_ops, fam);
    eprintln!("C18 ops/observations: {:?}", hist);
}
