//! C18 — io_uring ring (stub, filled in below).
use crate::Args;
use std::io::Write;
pub fn main(_args: &Args, _out: &mut dyn Write) {}
