//! C17: socket table / bind / demux / fabric histories, harness is the wire.

use std::collections::BTreeMap;
use std::task::Poll;

use bytes::Bytes;
use turmoil_net::shim::tokio::net::{TcpListener, TcpStream, UdpSocket};
use turmoil_net::{
    netstat, EnterGuard, HostId, Net, NetstatState, Packet, Proto, TcpFlags, TcpSegment,
    Transport, UdpDatagram,
};

use crate::addr_form;
use crate::util::*;

#[derive(Clone, Debug)]
pub enum Op {
    UBind { h: usize, s: u32, ip: Ip, port: u16 },
    TListen { h: usize, s: u32, ip: Ip, port: u16 },
    UConnect { h: usize, s: u32, ip: Ip, port: u16 },
    TConnect { h: usize, s: u32, ip: Ip, port: u16 },
    /// connect, let exactly one round of packets cross the wire, then drop the future
    TConnectCancel { h: usize, ip: Ip, port: u16 },
    Accept { h: usize, s: u32, ns: u32 },
    Close { h: usize, s: u32 },
    USend { h: usize, s: u32, ip: Ip, port: u16, tag: u32 },
    USendC { h: usize, s: u32, tag: u32 },
    Cycle { h: usize, ip: Ip, n: u32 },
    InjectUdp { src: Ip, sport: u16, dst: Ip, dport: u16, tag: u32 },
    InjectSyn { src: Ip, sport: u16, dst: Ip, dport: u16 },
    InjectRst { src: Ip, sport: u16, dst: Ip, dport: u16 },
    Drain,
    Netstat,
    /// n rounds of egress_all + deliver: time passing on an otherwise idle wire
    PumpN { n: u32 },
}

impl Op {
    pub fn line(&self) -> String {
        match self {
            Op::UBind { h, s, ip, port } => format!("OP h{h} ubind s{s} {} {port}", ip.tok()),
            Op::TListen { h, s, ip, port } => format!("OP h{h} tlisten s{s} {} {port}", ip.tok()),
            Op::UConnect { h, s, ip, port } => format!("OP h{h} uconnect s{s} {} {port}", ip.tok()),
            Op::TConnect { h, s, ip, port } => format!("OP h{h} tconnect s{s} {} {port}", ip.tok()),
            Op::TConnectCancel { h, ip, port } => format!("OP h{h} tconnectcancel {} {port}", ip.tok()),
            Op::Accept { h, s, ns } => format!("OP h{h} accept s{s} s{ns}"),
            Op::Close { h, s } => format!("OP h{h} close s{s}"),
            Op::USend { h, s, ip, port, tag } => {
                format!("OP h{h} usend s{s} {} {port} {tag}", ip.tok())
            }
            Op::USendC { h, s, tag } => format!("OP h{h} usendc s{s} {tag}"),
            Op::Cycle { h, ip, n } => format!("OP h{h} cycle {} {n}", ip.tok()),
            Op::InjectUdp { src, sport, dst, dport, tag } => format!(
                "OP wire injectudp {} {sport} {} {dport} {tag}",
                src.tok(),
                dst.tok()
            ),
            Op::InjectSyn { src, sport, dst, dport } => {
                format!("OP wire injectsyn {} {sport} {} {dport}", src.tok(), dst.tok())
            }
            Op::InjectRst { src, sport, dst, dport } => {
                format!("OP wire injectrst {} {sport} {} {dport}", src.tok(), dst.tok())
            }
            Op::Drain => "OP ctl drain".into(),
            Op::Netstat => "OP ctl netstat".into(),
            Op::PumpN { n } => format!("OP wire pumpn {n}"),
        }
    }

    pub fn parse(line: &str) -> Option<Op> {
        let t: Vec<&str> = line.split_whitespace().collect();
        if t.len() < 3 || t[0] != "OP" {
            return None;
        }
        let h = || t[1].strip_prefix('h').and_then(|x| x.parse::<usize>().ok());
        let sl = |i: usize| t.get(i)?.strip_prefix('s')?.parse::<u32>().ok();
        let ip = |i: usize| Ip::parse(t.get(i)?);
        let num = |i: usize| t.get(i)?.parse::<u32>().ok();
        Some(match t[2] {
            "ubind" => Op::UBind { h: h()?, s: sl(3)?, ip: ip(4)?, port: num(5)? as u16 },
            "tlisten" => Op::TListen { h: h()?, s: sl(3)?, ip: ip(4)?, port: num(5)? as u16 },
            "uconnect" => Op::UConnect { h: h()?, s: sl(3)?, ip: ip(4)?, port: num(5)? as u16 },
            "tconnect" => Op::TConnect { h: h()?, s: sl(3)?, ip: ip(4)?, port: num(5)? as u16 },
            "tconnectcancel" => Op::TConnectCancel { h: h()?, ip: ip(3)?, port: num(4)? as u16 },
            "accept" => Op::Accept { h: h()?, s: sl(3)?, ns: sl(4)? },
            "close" => Op::Close { h: h()?, s: sl(3)? },
            "usend" => Op::USend {
                h: h()?,
                s: sl(3)?,
                ip: ip(4)?,
                port: num(5)? as u16,
                tag: num(6)?,
            },
            "usendc" => Op::USendC { h: h()?, s: sl(3)?, tag: num(4)? },
            "cycle" => Op::Cycle { h: h()?, ip: ip(3)?, n: num(4)? },
            "injectudp" => Op::InjectUdp {
                src: ip(3)?,
                sport: num(4)? as u16,
                dst: ip(5)?,
                dport: num(6)? as u16,
                tag: num(7)?,
            },
            "injectsyn" => Op::InjectSyn {
                src: ip(3)?,
                sport: num(4)? as u16,
                dst: ip(5)?,
                dport: num(6)? as u16,
            },
            "injectrst" => Op::InjectRst {
                src: ip(3)?,
                sport: num(4)? as u16,
                dst: ip(5)?,
                dport: num(6)? as u16,
            },
            "drain" => Op::Drain,
            "netstat" => Op::Netstat,
            "pumpn" => Op::PumpN { n: num(3)? },
            _ => return None,
        })
    }
}

pub enum Slot {
    Udp(usize, UdpSocket),
    Lsn(usize, TcpListener),
    Stream(usize, TcpStream),
}

impl Slot {
    fn host(&self) -> usize {
        match self {
            Slot::Udp(h, _) | Slot::Lsn(h, _) | Slot::Stream(h, _) => *h,
        }
    }
}

pub struct World {
    // field order matters: sockets must drop while the Net is installed
    pub slots: BTreeMap<u32, Slot>,
    pub hosts: Vec<HostId>,
    pub addrs: Vec<Vec<Ip>>,
    /// chooses between equivalent API entry points (deterministic per CFG line)
    pub sel: Sel,
    /// disagreements between equivalent calls / getters: printed as `OBS xcheck ...`
    pub xfail: Vec<String>,
    /// how often each entry point was taken
    pub ep: BTreeMap<&'static str, u64>,
    pub guard: EnterGuard,
}

impl Drop for World {
    fn drop(&mut self) {
        let ids: Vec<u32> = self.slots.keys().copied().collect();
        for id in ids {
            if let Some(s) = self.slots.remove(&id) {
                self.guard.set_current(self.hosts[s.host()]);
                drop(s);
            }
        }
    }
}

pub fn cfg_line(addrs: &[Vec<Ip>]) -> String {
    let mut s = format!("CFG hosts={}", addrs.len());
    for (i, a) in addrs.iter().enumerate() {
        let toks: Vec<String> = a.iter().map(|x| x.tok()).collect();
        s.push_str(&format!(" h{}={}", i, join(&toks, ",")));
    }
    s
}

pub fn parse_eph(line: &str) -> Option<(u16, u16)> {
    let v = line.split_whitespace().find_map(|t| t.strip_prefix("eph="))?;
    let (a, b) = v.split_once('-')?;
    Some((a.parse().ok()?, b.parse().ok()?))
}

pub fn parse_cfg(line: &str) -> Vec<Vec<Ip>> {
    let mut out = Vec::new();
    for t in line.split_whitespace().skip(1) {
        if let Some((k, v)) = t.split_once('=') {
            if k.starts_with('h') && k != "hosts" {
                let a: Vec<Ip> = if v == "-" {
                    vec![]
                } else {
                    v.split(',').filter_map(Ip::parse).collect()
                };
                out.push(a);
            }
        }
    }
    out
}

impl World {
    pub fn new(addrs: &[Vec<Ip>]) -> World {
        World::new_with(addrs, None)
    }

    /// `eph`: shrink every host's ephemeral range through the verification hook.
    pub fn new_with(addrs: &[Vec<Ip>], eph: Option<(u16, u16)>) -> World {
        let mut net = Net::new();
        let mut hosts = Vec::new();
        for a in addrs {
            let ips: Vec<std::net::IpAddr> = a.iter().map(|x| x.to_ip()).collect();
            hosts.push(net.add_host(ips));
        }
        // one more host, registered by name: DNS / hostname forms are cross-checked on it,
        // it never takes part in the modelled traffic
        let mut xfail: Vec<String> = Vec::new();
        let xhost = net.add_host("verifx");
        let xip: std::net::IpAddr = "192.168.0.1".parse().unwrap();
        if net.lookup("verifx") != xip || net.lookup("10.0.0.10") != Ip::v4(10).to_ip() {
            xfail.push("dns-lookup".into());
        }
        let ids: Vec<HostId> = net.host_ids().collect();
        if ids.len() != hosts.len() + 1 || ids[..hosts.len()] != hosts[..] || ids[hosts.len()] != xhost {
            xfail.push("host-ids".into());
        }
        let guard = net.enter();
        if let Some((lo, hi)) = eph {
            for h in &hosts {
                turmoil_net::verif_table_set_ephemeral_range(*h, lo, hi);
            }
        }
        {
            use turmoil_net::lookup_host;
            if lookup_host("verifx") != Some(xip)
                || lookup_host("nope").is_some()
                || lookup_host("localhost") != Some("127.0.0.1".parse().unwrap())
                || lookup_host("fd00::a") != Some(Ip::v6(10).to_ip())
            {
                xfail.push("lookup-host".into());
            }
            guard.set_current(xhost);
            let a = now_or_panic(UdpSocket::bind("verifx:6001"));
            let b = now_or_panic(UdpSocket::bind(("verifx", 6002u16)));
            let c = now_or_panic(TcpListener::bind(("verifx".to_string(), 6001u16)));
            let d = now_or_panic(UdpSocket::bind("nope:1"));
            let e = now_or_panic(UdpSocket::bind("verifx:6001".to_string()));
            match (&a, &b, &c) {
                (Ok(a), Ok(b), Ok(c)) => {
                    if a.local_addr().ok() != Some(std::net::SocketAddr::new(xip, 6001))
                        || b.local_addr().ok() != Some(std::net::SocketAddr::new(xip, 6002))
                        || c.local_addr().ok() != Some(std::net::SocketAddr::new(xip, 6001))
                    {
                        xfail.push("hostname-bind-addr".into());
                    }
                }
                _ => xfail.push("hostname-bind".into()),
            }
            if !matches!(&d, Err(e) if e.kind() == std::io::ErrorKind::NotFound) {
                xfail.push("unknown-hostname".into());
            }
            if !matches!(&e, Err(e) if e.kind() == std::io::ErrorKind::AddrInUse) {
                xfail.push("hostname-rebind".into());
            }
            let n1 = netstat("verifx");
            let n2 = netstat(xip);
            if n1 != n2 || n1.entries.len() != 3 || format!("{n1}").lines().count() != 4 {
                xfail.push("netstat-by-name".into());
            }
            drop((a, b, c, d, e));
            if !netstat("verifx").entries.is_empty() {
                xfail.push("netstat-after-close".into());
            }
        }
        let sel = Sel::from_str(&cfg_line(addrs));
        World { slots: BTreeMap::new(), hosts, addrs: addrs.to_vec(), sel, xfail, ep: BTreeMap::new(), guard }
    }

    fn cur(&self, h: usize) {
        // both forms of pinning the current host
        if (h + self.slots.len()) % 2 == 0 {
            self.guard.set_current(self.hosts[h]);
        } else {
            turmoil_net::set_current(self.hosts[h]);
        }
    }

    fn took(&mut self, what: &'static str) {
        *self.ep.entry(what).or_insert(0) += 1;
    }

    /// Socket-option round trips and the two send-side gates that queue nothing
    /// (broadcast without SO_BROADCAST, oversize datagram).
    fn udp_side_checks(&mut self, sock: &UdpSocket, v6: bool) {
        self.took("udp-options");
        let ok = sock.broadcast().ok() == Some(false)
            && sock.set_broadcast(true).is_ok()
            && sock.broadcast().ok() == Some(true)
            && sock.set_broadcast(false).is_ok()
            && sock.ttl().ok() == Some(64)
            && sock.set_ttl(7).is_ok()
            && sock.ttl().ok() == Some(7)
            && sock.set_ttl(256).is_err()
            && sock.set_ttl(64).is_ok();
        if !ok {
            self.xfail.push("udp-options".into());
        }
        if !v6 {
            let r = sock.try_send_to(b"x", "10.0.0.255:9".parse().unwrap());
            if !matches!(&r, Err(e) if e.kind() == std::io::ErrorKind::PermissionDenied) {
                self.xfail.push("broadcast-gate".into());
            }
            let big = vec![0u8; 1473];
            let r = sock.try_send_to(&big, "10.0.0.90:9".parse().unwrap());
            if !matches!(&r, Err(e) if e.raw_os_error() == Some(90)) {
                self.xfail.push("emsgsize-v4".into());
            }
        } else {
            let big = vec![0u8; 1453];
            let r = sock.try_send_to(&big, "[fd00::5a]:9".parse().unwrap());
            if !matches!(&r, Err(e) if e.raw_os_error() == Some(90)) {
                self.xfail.push("emsgsize-v6".into());
            }
        }
    }

    /// (host, kind, local addr, peer addr) of a slot, queried on the right host.
    pub fn info(&self, id: u32) -> Option<(usize, char, std::net::SocketAddr, Option<std::net::SocketAddr>)> {
        let sl = self.slots.get(&id)?;
        self.cur(sl.host());
        match sl {
            Slot::Udp(h, s) => Some((*h, 'u', s.local_addr().ok()?, s.peer_addr().ok())),
            Slot::Lsn(h, l) => Some((*h, 'l', l.local_addr().ok()?, None)),
            Slot::Stream(h, s) => Some((*h, 's', s.local_addr().ok()?, s.peer_addr().ok())),
        }
    }

    /// Move packets between hosts until nothing is left on the wire.
    pub fn pump(&self) -> Vec<String> {
        let mut seen = Vec::new();
        let mut out: Vec<Packet> = Vec::new();
        for _round in 0..64 {
            out.clear();
            self.guard.egress_all(&mut out);
            if out.is_empty() {
                return seen;
            }
            for p in out.drain(..) {
                seen.push(pkt_tok(&p));
                self.guard.deliver(p);
            }
        }
        seen.push("pumpcap".into());
        seen
    }

    pub fn exec(&mut self, op: &Op) -> String {
        match op {
            Op::UBind { h, s, ip, port } => {
                if *h >= self.hosts.len() {
                    return "nohost".into();
                }
                self.cur(*h);
                let f = self.sel.next();
                self.took("bind-addr-form");
                match addr_form!(f, ip.sa(*port), a => now_or_panic(UdpSocket::bind(a))) {
                    Ok(sock) => {
                        let la = sock.local_addr().unwrap();
                        if sock.peer_addr().is_ok() {
                            self.xfail.push("fresh-udp-has-peer".into());
                        }
                        if s % 2 == 1 {
                            self.udp_side_checks(&sock, ip.v6);
                        }
                        self.slots.insert(*s, Slot::Udp(*h, sock));
                        format!("ok {} {}", ip_tok(la.ip()), la.port())
                    }
                    Err(e) => format!("err {}", err_tok(&e)),
                }
            }
            Op::TListen { h, s, ip, port } => {
                if *h >= self.hosts.len() {
                    return "nohost".into();
                }
                self.cur(*h);
                let f = self.sel.next();
                match addr_form!(f, ip.sa(*port), a => now_or_panic(TcpListener::bind(a))) {
                    Ok(l) => {
                        let la = l.local_addr().unwrap();
                        self.slots.insert(*s, Slot::Lsn(*h, l));
                        format!("ok {} {}", ip_tok(la.ip()), la.port())
                    }
                    Err(e) => format!("err {}", err_tok(&e)),
                }
            }
            Op::UConnect { h, s, ip, port } => {
                let Some(Slot::Udp(hh, sock)) = self.slots.get(s) else {
                    return "noslot".into();
                };
                if hh != h {
                    return "noslot".into();
                }
                self.cur(*h);
                let f = self.sel.next();
                match addr_form!(f, ip.sa(*port), a => now_or_panic(sock.connect(a))) {
                    Ok(()) => {
                        if sock.peer_addr().ok() != Some(ip.sa(*port)) {
                            self.xfail.push("udp-peer-addr".into());
                        }
                        "ok".into()
                    }
                    Err(e) => format!("err {}", err_tok(&e)),
                }
            }
            Op::TConnect { h, s, ip, port } => {
                if *h >= self.hosts.len() {
                    return "nohost".into();
                }
                self.cur(*h);
                let f = self.sel.next();
                let target = ip.sa(*port);
                let mut fut: std::pin::Pin<Box<dyn std::future::Future<Output = std::io::Result<TcpStream>>>> = match f % 4 {
                    0 => Box::pin(TcpStream::connect(target)),
                    1 => Box::pin(TcpStream::connect(target.to_string())),
                    2 => Box::pin(TcpStream::connect((target.ip(), target.port()))),
                    _ => Box::pin(TcpStream::connect((target.ip().to_string(), target.port()))),
                };
                match poll_once(fut.as_mut()) {
                    Poll::Ready(Ok(_)) => return "other:immediate".into(),
                    Poll::Ready(Err(e)) => {
                        drop(fut);
                        let w = self.pump();
                        return format!("err {} wire={}", err_tok(&e), join(&w, ","));
                    }
                    Poll::Pending => {}
                }
                let mut w = self.pump();
                self.cur(*h);
                match poll_once(fut.as_mut()) {
                    Poll::Ready(Ok(st)) => {
                        let la = st.local_addr().unwrap();
                        let pa = st.peer_addr().unwrap();
                        self.slots.insert(*s, Slot::Stream(*h, st));
                        format!("ok {} {} wire={}", sa_tok(la), sa_tok(pa), join(&w, ","))
                    }
                    Poll::Ready(Err(e)) => {
                        drop(fut);
                        w.extend(self.pump());
                        format!("err {} wire={}", err_tok(&e), join(&w, ","))
                    }
                    Poll::Pending => {
                        self.cur(*h);
                        drop(fut);
                        w.extend(self.pump());
                        format!("pending wire={}", join(&w, ","))
                    }
                }
            }
            Op::TConnectCancel { h, ip, port } => {
                if *h >= self.hosts.len() {
                    return "nohost".into();
                }
                self.cur(*h);
                let f = self.sel.next();
                let target = ip.sa(*port);
                let mut fut: std::pin::Pin<Box<dyn std::future::Future<Output = std::io::Result<TcpStream>>>> = match f % 4 {
                    0 => Box::pin(TcpStream::connect(target)),
                    1 => Box::pin(TcpStream::connect(target.to_string())),
                    2 => Box::pin(TcpStream::connect((target.ip(), target.port()))),
                    _ => Box::pin(TcpStream::connect((target.ip().to_string(), target.port()))),
                };
                match poll_once(fut.as_mut()) {
                    Poll::Ready(Ok(_)) => return "other:immediate".into(),
                    Poll::Ready(Err(e)) => {
                        drop(fut);
                        let w = self.pump();
                        return format!("err {} wire={}", err_tok(&e), join(&w, ","));
                    }
                    Poll::Pending => {}
                }
                // exactly one round: the SYN reaches its destination, the answer stays queued
                let mut w = Vec::new();
                let mut out: Vec<Packet> = Vec::new();
                self.guard.egress_all(&mut out);
                for p in out.drain(..) {
                    w.push(pkt_tok(&p));
                    self.guard.deliver(p);
                }
                self.cur(*h);
                drop(fut);
                w.extend(self.pump());
                format!("cancelled wire={}", join(&w, ","))
            }
            Op::Accept { h, s, ns } => {
                let Some(Slot::Lsn(hh, l)) = self.slots.get(s) else {
                    return "noslot".into();
                };
                if hh != h {
                    return "noslot".into();
                }
                self.cur(*h);
                let r = if (*s + *ns) % 2 == 0 {
                    let mut f = Box::pin(l.accept());
                    poll_once(f.as_mut())
                } else {
                    let mut cx = std::task::Context::from_waker(std::task::Waker::noop());
                    l.poll_accept(&mut cx)
                };
                match r {
                    Poll::Ready(Ok((st, peer))) => {
                        let la = st.local_addr().unwrap();
                        if st.peer_addr().ok() != Some(peer) {
                            self.xfail.push("accept-peer".into());
                        }
                        self.slots.insert(*ns, Slot::Stream(*h, st));
                        format!("ok {} {}", sa_tok(peer), sa_tok(la))
                    }
                    Poll::Ready(Err(e)) => format!("err {}", err_tok(&e)),
                    Poll::Pending => "wouldblock".into(),
                }
            }
            Op::Close { h, s } => {
                match self.slots.get(s) {
                    Some(sl) if sl.host() == *h => {}
                    _ => return "noslot".into(),
                }
                let sl = self.slots.remove(s).unwrap();
                self.cur(*h);
                drop(sl);
                let w = self.pump();
                format!("ok wire={}", join(&w, ","))
            }
            Op::USend { h, s, ip, port, tag } => {
                let Some(Slot::Udp(hh, sock)) = self.slots.get(s) else {
                    return "noslot".into();
                };
                if hh != h {
                    return "noslot".into();
                }
                self.cur(*h);
                let f = self.sel.next();
                let r = if f % 3 == 0 {
                    sock.try_send_to(&tag_bytes(*tag), ip.sa(*port))
                } else {
                    addr_form!(f / 3, ip.sa(*port), a => now_or_panic(sock.send_to(&tag_bytes(*tag), a)))
                };
                match r {
                    Ok(_) => {
                        let w = self.pump();
                        format!("ok wire={}", join(&w, ","))
                    }
                    Err(e) => format!("err {}", err_tok(&e)),
                }
            }
            Op::USendC { h, s, tag } => {
                let Some(Slot::Udp(hh, sock)) = self.slots.get(s) else {
                    return "noslot".into();
                };
                if hh != h {
                    return "noslot".into();
                }
                self.cur(*h);
                let r = if self.sel.next() % 2 == 0 {
                    sock.try_send(&tag_bytes(*tag))
                } else {
                    now_or_panic(sock.send(&tag_bytes(*tag)))
                };
                match r {
                    Ok(_) => {
                        let w = self.pump();
                        format!("ok wire={}", join(&w, ","))
                    }
                    Err(e) => format!("err {}", err_tok(&e)),
                }
            }
            Op::Cycle { h, ip, n } => {
                if *h >= self.hosts.len() {
                    return "nohost".into();
                }
                self.cur(*h);
                let mut last = 0u16;
                let mut fails = 0u32;
                for _ in 0..*n {
                    match now_or_panic(UdpSocket::bind(ip.sa(0))) {
                        Ok(sock) => {
                            last = sock.local_addr().unwrap().port();
                            drop(sock);
                        }
                        Err(_) => fails += 1,
                    }
                }
                format!("ok {last} fails={fails}")
            }
            Op::InjectUdp { src, sport, dst, dport, tag } => {
                let pkt = Packet {
                    src: src.to_ip(),
                    dst: dst.to_ip(),
                    ttl: 64,
                    payload: Transport::Udp(UdpDatagram {
                        src_port: *sport,
                        dst_port: *dport,
                        payload: Bytes::copy_from_slice(&tag_bytes(*tag)),
                    }),
                };
                self.inject(pkt)
            }
            Op::InjectSyn { src, sport, dst, dport } => {
                let pkt = tcp_pkt(*src, *sport, *dst, *dport, TcpFlags { syn: true, ..TcpFlags::default() });
                self.inject(pkt)
            }
            Op::InjectRst { src, sport, dst, dport } => {
                let pkt = tcp_pkt(*src, *sport, *dst, *dport, TcpFlags { rst: true, ..TcpFlags::default() });
                self.inject(pkt)
            }
            Op::Drain => {
                let mut parts = Vec::new();
                let ids: Vec<u32> = self.slots.keys().copied().collect();
                for id in ids {
                    if let Some(Slot::Udp(h, sock)) = self.slots.get(&id) {
                        self.guard.set_current(self.hosts[*h]);
                        let mut got = Vec::new();
                        let mut buf = [0u8; 64];
                        let connected = sock.peer_addr().is_ok();
                        loop {
                            // peek first (both forms), then consume through one of the receive calls
                            let f = self.sel.next();
                            let mut pb = [0u8; 64];
                            let peeked = {
                                let mut fut = Box::pin(sock.peek_from(&mut pb));
                                match poll_once(fut.as_mut()) {
                                    Poll::Ready(Ok(x)) => Some(x),
                                    _ => None,
                                }
                            };
                            let Some((pn, pfrom)) = peeked else {
                                if sock.try_recv_from(&mut buf).is_ok() {
                                    self.xfail.push("peek-pending-but-recv-ready".into());
                                }
                                break;
                            };
                            let ptag = tag_of(&pb[..pn]);
                            let (n, from) = match f % if connected { 4 } else { 2 } {
                                0 => match sock.try_recv_from(&mut buf) {
                                    Ok(x) => x,
                                    Err(_) => break,
                                },
                                1 => {
                                    let mut fut = Box::pin(sock.recv_from(&mut buf));
                                    match poll_once(fut.as_mut()) {
                                        Poll::Ready(Ok(x)) => x,
                                        _ => break,
                                    }
                                }
                                2 => match sock.try_recv(&mut buf) {
                                    Ok(n) => (n, pfrom),
                                    Err(_) => break,
                                },
                                _ => {
                                    let mut fut = Box::pin(sock.recv(&mut buf));
                                    match poll_once(fut.as_mut()) {
                                        Poll::Ready(Ok(n)) => (n, pfrom),
                                        _ => break,
                                    }
                                }
                            };
                            if tag_of(&buf[..n]) != ptag || from != pfrom {
                                self.xfail.push(format!("peek-vs-recv:{}", ptag));
                            }
                            got.push(format!("{}@{}", tag_of(&buf[..n]), sa_tok(from)));
                        }
                        if !got.is_empty() {
                            parts.push(format!("h{}.s{}={}", h, id, got.join(",")));
                        }
                    }
                }
                join(&parts, " ")
            }
            Op::PumpN { n } => {
                let mut seen = Vec::new();
                let mut out: Vec<Packet> = Vec::new();
                for _ in 0..*n {
                    out.clear();
                    self.guard.egress_all(&mut out);
                    for p in out.drain(..) {
                        seen.push(pkt_tok(&p));
                        self.guard.deliver(p);
                    }
                }
                format!("ok wire={}", join(&seen, ","))
            }
            Op::Netstat => {
                let mut parts = Vec::new();
                for (i, a) in self.addrs.iter().enumerate() {
                    if a.is_empty() {
                        continue;
                    }
                    let ns = netstat(a[0].to_ip());
                    let mut ents = Vec::new();
                    for e in &ns.entries {
                        let peer = e.peer.map(sa_tok).unwrap_or_else(|| "*".into());
                        match e.proto {
                            Proto::Udp => ents.push(format!("udp/{}/{}", sa_tok(e.local), peer)),
                            Proto::Tcp => {
                                let st = match e.state {
                                    Some(NetstatState::Listen) => format!("LISTEN/{}", e.recv_q),
                                    Some(NetstatState::SynSent) => "SYN_SENT".into(),
                                    Some(NetstatState::SynReceived) => "SYN_RECV".into(),
                                    Some(NetstatState::Established) => "ESTABLISHED".into(),
                                    Some(NetstatState::FinWait1) => "FIN_WAIT1".into(),
                                    Some(NetstatState::FinWait2) => "FIN_WAIT2".into(),
                                    Some(NetstatState::CloseWait) => "CLOSE_WAIT".into(),
                                    Some(NetstatState::LastAck) => "LAST_ACK".into(),
                                    Some(NetstatState::Closing) => "CLOSING".into(),
                                    Some(NetstatState::Closed) => "CLOSED".into(),
                                    None => "NONE".into(),
                                };
                                ents.push(format!("tcp/{}/{}/{}", sa_tok(e.local), peer, st));
                            }
                        }
                    }
                    parts.push(format!("h{}:[{}]", i, ents.join("|")));
                }
                join(&parts, " ")
            }
        }
    }

    fn inject(&self, pkt: Packet) -> String {
        self.guard.deliver(pkt);
        let mut out = Vec::new();
        self.guard.egress_all(&mut out);
        let toks: Vec<String> = out.iter().map(pkt_tok).collect();
        format!("reply={}", join(&toks, ","))
    }
}

fn tcp_pkt(src: Ip, sport: u16, dst: Ip, dport: u16, flags: TcpFlags) -> Packet {
    Packet {
        src: src.to_ip(),
        dst: dst.to_ip(),
        ttl: 64,
        payload: Transport::Tcp(TcpSegment {
            src_port: sport,
            dst_port: dport,
            seq: 1000,
            ack: 0,
            flags,
            window: 65535,
            payload: Bytes::new(),
        }),
    }
}

// ---------------------------------------------------------------- generators

pub struct Stats {
    pub ep: BTreeMap<&'static str, u64>,
    pub ops: BTreeMap<&'static str, u64>,
    pub obs: BTreeMap<String, u64>,
}

impl Stats {
    pub fn new() -> Stats {
        Stats { ep: BTreeMap::new(), ops: BTreeMap::new(), obs: BTreeMap::new() }
    }
    fn note(&mut self, op: &Op, obs: &str) {
        let name = match op {
            Op::UBind { .. } => "ubind",
            Op::TListen { .. } => "tlisten",
            Op::UConnect { .. } => "uconnect",
            Op::TConnect { .. } => "tconnect",
            Op::TConnectCancel { .. } => "tconnectcancel",
            Op::Accept { .. } => "accept",
            Op::Close { .. } => "close",
            Op::USend { .. } => "usend",
            Op::USendC { .. } => "usendc",
            Op::Cycle { .. } => "cycle",
            Op::InjectUdp { .. } => "injectudp",
            Op::InjectSyn { .. } => "injectsyn",
            Op::InjectRst { .. } => "injectrst",
            Op::Drain => "drain",
            Op::Netstat => "netstat",
            Op::PumpN { .. } => "pumpn",
        };
        *self.ops.entry(name).or_insert(0) += 1;
        let head: String = obs.split_whitespace().take(2).collect::<Vec<_>>().join("_");
        let key = if head.starts_with("ok") {
            "ok".to_string()
        } else if head.starts_with("cancelled") {
            "cancelled".to_string()
        } else if head.starts_with("h") || head.starts_with("reply") {
            if obs.contains("/SA/") {
                "reply_synack".into()
            } else if obs.contains("/AR/") || obs.contains("/R/") {
                "reply_rst".into()
            } else {
                "data".into()
            }
        } else {
            head
        };
        *self.obs.entry(format!("{name}:{key}")).or_insert(0) += 1;
    }
}

const TEMPLATES: &[&[&[Ip]]] = &[
    &[&[Ip::v4(10), Ip::v4(11), Ip::v6(10)], &[Ip::v4(20), Ip::v6(20)], &[Ip::v4(30)]],
    &[&[Ip::v4(10), Ip::v6(10), Ip::v6(11)], &[Ip::v4(20), Ip::v4(21)], &[Ip::v6(30)]],
    &[&[Ip::v6(10), Ip::v4(10)], &[Ip::v4(20)]],
    &[&[Ip::v4(10)], &[Ip::v4(20), Ip::v4(21), Ip::v6(20)], &[Ip::v6(30), Ip::v4(30)]],
];

const PORTS: &[u16] = &[5000, 5001, 80, 0, 0, 49152, 49153, 49154, 65535, 65534];

thread_local! {
    /// Lines of the case being produced (see `Out::step`); cleared by `main` before every case.
    pub static PARTIAL: std::cell::RefCell<Vec<String>> = const { std::cell::RefCell::new(Vec::new()) };
}

pub struct Out {
    pub lines: Vec<String>,
}

impl Out {
    fn step(&mut self, w: &mut World, st: &mut Stats, op: Op) -> String {
        // mirror of the trace written so far, so that a panic inside the crate leaves a
        // replayable case (the history up to and including the panicking call) behind
        PARTIAL.with(|p| {
            let mut p = p.borrow_mut();
            if p.is_empty() {
                p.extend(self.lines.iter().cloned());
            }
            p.push(op.line());
        });
        let obs = w.exec(&op);
        st.note(&op, &obs);
        self.lines.push(op.line());
        self.lines.push(format!("OBS {obs}"));
        PARTIAL.with(|p| p.borrow_mut().push(format!("OBS {obs}")));
        for x in w.xfail.drain(..) {
            self.lines.push(format!("OBS xcheck {x}"));
        }
        for (k, v) in std::mem::take(&mut w.ep) {
            *st.ep.entry(k).or_insert(0) += v;
        }
        obs
    }
}

fn all_addrs(addrs: &[Vec<Ip>]) -> Vec<Ip> {
    addrs.iter().flatten().copied().collect()
}

fn first_of_family(addrs: &[Ip], v6: bool) -> Option<Ip> {
    addrs.iter().copied().find(|a| a.v6 == v6)
}

/// One random bind/connect/close history followed by the probe matrix.
pub fn gen_table_case(rng: &mut Rng, st: &mut Stats, max_ops: usize, big_cycle: bool, zombies: bool) -> Vec<String> {
    let tpl = TEMPLATES[rng.below(TEMPLATES.len())];
    let addrs: Vec<Vec<Ip>> = tpl.iter().map(|a| a.to_vec()).collect();
    let mut out = Out { lines: vec![cfg_line(&addrs)] };
    let mut w = World::new(&addrs);
    let nh = addrs.len();
    let everyone = all_addrs(&addrs);
    let mut next_slot = 1u32;
    let mut next_tag = 1u32;
    let mut conns: Vec<(Ip, u16, Ip, u16)> = Vec::new(); // (client ip, port, server ip, port)
    let mut mid_sport = 42000u16;
    let zombie_w: u32 = if zombies { 6 } else { 0 };

    let pool = |h: usize, rng: &mut Rng| -> Ip {
        let mut p: Vec<Ip> = addrs[h].clone();
        p.extend_from_slice(&addrs[h]);
        p.extend_from_slice(&[Ip::v4(0), Ip::v4(0), Ip::v6(0), Ip::v4(1), Ip::v4(2), Ip::v6(1)]);
        p.push(*rng.pick(&everyone));
        p.push(Ip::v4(90));
        *rng.pick(&p)
    };

    let nops = 4 + rng.below(max_ops.saturating_sub(3).max(1));
    for _ in 0..nops {
        let udp_slots: Vec<(u32, usize)> = w
            .slots
            .iter()
            .filter_map(|(k, v)| if let Slot::Udp(h, _) = v { Some((*k, *h)) } else { None })
            .collect();
        let lsn_slots: Vec<(u32, usize)> = w
            .slots
            .iter()
            .filter_map(|(k, v)| if let Slot::Lsn(h, _) = v { Some((*k, *h)) } else { None })
            .collect();
        let any_slots: Vec<(u32, usize)> = w.slots.iter().map(|(k, v)| (*k, v.host())).collect();
        let ws = [
            24u32,
            16,
            if udp_slots.is_empty() { 0 } else { 8 },
            12,
            if lsn_slots.is_empty() { 0 } else { 10 },
            if any_slots.is_empty() { 0 } else { 16 },
            if udp_slots.is_empty() { 0 } else { 8 },
            2,
            2,
            2,
            if lsn_slots.is_empty() { 0 } else { zombie_w },
            if lsn_slots.is_empty() { 0 } else { zombie_w / 2 },
            zombie_w / 2,
            zombie_w / 2,
            5,
        ];
        match rng.weighted(&ws) {
            0 => {
                let h = rng.below(nh);
                let ip = pool(h, rng);
                let port = *rng.pick(PORTS);
                let s = next_slot;
                next_slot += 1;
                out.step(&mut w, st, Op::UBind { h, s, ip, port });
            }
            1 => {
                let h = rng.below(nh);
                let ip = pool(h, rng);
                let port = *rng.pick(PORTS);
                let s = next_slot;
                next_slot += 1;
                out.step(&mut w, st, Op::TListen { h, s, ip, port });
            }
            2 => {
                let (s, h) = *rng.pick(&udp_slots);
                let mut targets = everyone.clone();
                targets.extend_from_slice(&[Ip::v4(1), Ip::v6(1), Ip::v4(90)]);
                let ip = *rng.pick(&targets);
                let port = *rng.pick(&[40000u16, 40000, 5000, 5001, 7000]);
                out.step(&mut w, st, Op::UConnect { h, s, ip, port });
            }
            3 => {
                let h = rng.below(nh);
                let mut targets = everyone.clone();
                targets.extend_from_slice(&addrs[h]);
                targets.extend_from_slice(&[Ip::v4(1), Ip::v6(1), Ip::v4(2)]);
                let mut ip = *rng.pick(&targets);
                let mut port = *rng.pick(&[80u16, 5000, 5001, 49152]);
                // mostly aim at a live listener (its address, or any address of its host if wildcard)
                if !lsn_slots.is_empty() && rng.chance(3, 4) {
                    let (ls, lh) = *rng.pick(&lsn_slots);
                    if let Some((_, _, la, _)) = w.info(ls) {
                        port = la.port();
                        if let Some((lip, _)) = split_ep(&sa_tok(la)) {
                            if lip.n != 0 {
                                if !lip.is_loopback() || lh == h || rng.chance(1, 3) {
                                    ip = lip;
                                }
                            } else {
                                let mut c: Vec<Ip> = addrs[lh].iter().copied().filter(|a| a.v6 == lip.v6).collect();
                                if lh == h {
                                    c.push(Ip { v6: lip.v6, n: 1 });
                                }
                                if !c.is_empty() {
                                    ip = *rng.pick(&c);
                                }
                            }
                        }
                    }
                }
                let s = next_slot;
                next_slot += 1;
                let obs = out.step(&mut w, st, Op::TConnect { h, s, ip, port });
                if obs.starts_with("ok ") {
                    let t: Vec<&str> = obs.split_whitespace().collect();
                    if let (Some(l), Some(p)) = (split_ep(t[1]), split_ep(t[2])) {
                        conns.push((l.0, l.1, p.0, p.1));
                    }
                }
            }
            4 => {
                let (s, h) = *rng.pick(&lsn_slots);
                let ns = next_slot;
                next_slot += 1;
                out.step(&mut w, st, Op::Accept { h, s, ns });
            }
            5 => {
                let (s, h) = *rng.pick(&any_slots);
                out.step(&mut w, st, Op::Close { h, s });
            }
            6 => {
                let (s, h) = *rng.pick(&udp_slots);
                let mut targets = everyone.clone();
                targets.extend_from_slice(&[Ip::v4(1), Ip::v6(1), Ip::v4(2), Ip::v4(90), Ip::v6(90)]);
                let ip = *rng.pick(&targets);
                let port = *rng.pick(&[5000u16, 5001, 80, 49152, 49153, 40000]);
                let tag = next_tag;
                next_tag += 1;
                if rng.chance(1, 4) {
                    out.step(&mut w, st, Op::USendC { h, s, tag });
                } else {
                    out.step(&mut w, st, Op::USend { h, s, ip, port, tag });
                }
                out.step(&mut w, st, Op::Drain);
            }
            7 => {
                let h = rng.below(nh);
                let ip = pool(h, rng);
                let n = if big_cycle && rng.chance(1, 2) {
                    *rng.pick(&[16370u32, 16380, 16383, 16384, 16385])
                } else {
                    *rng.pick(&[1u32, 2, 3, 7])
                };
                out.step(&mut w, st, Op::Cycle { h, ip, n });
            }
            8 => {
                out.step(&mut w, st, Op::Drain);
            }
            9 => {
                out.step(&mut w, st, Op::Netstat);
            }
            10 => {
                // a connect that is abandoned while the handshake is in flight
                let (ls, lh) = *rng.pick(&lsn_slots);
                if let Some((_, _, la, _)) = w.info(ls) {
                    if let Some((lip, lport)) = split_ep(&sa_tok(la)) {
                        let others: Vec<usize> = (0..nh).filter(|x| *x != lh).collect();
                        let h = if others.is_empty() { lh } else { *rng.pick(&others) };
                        let ip = if lip.n != 0 && !lip.is_loopback() {
                            lip
                        } else {
                            first_of_family(&addrs[lh], lip.v6).unwrap_or(lip)
                        };
                        out.step(&mut w, st, Op::TConnectCancel { h, ip, port: lport });
                        if rng.chance(1, 2) {
                            out.step(&mut w, st, Op::Close { h: lh, s: ls });
                            let s2 = next_slot;
                            next_slot += 1;
                            out.step(&mut w, st, Op::TListen { h: lh, s: s2, ip: lip, port: lport });
                        }
                    }
                }
            }
            12 => {
                // `0.0.0.0:p` and `[::]:p` both listening, a half-open child of each family,
                // one listener closed, accept on the other
                let both: Vec<usize> = (0..nh)
                    .filter(|h| first_of_family(&addrs[*h], false).is_some() && first_of_family(&addrs[*h], true).is_some())
                    .collect();
                if !both.is_empty() {
                    let h = *rng.pick(&both);
                    let port = *rng.pick(&[7100u16, 7101, 80, 5001]);
                    let (s4, s6) = (next_slot, next_slot + 1);
                    next_slot += 2;
                    let o4 = out.step(&mut w, st, Op::TListen { h, s: s4, ip: Ip::v4(0), port });
                    let o6 = out.step(&mut w, st, Op::TListen { h, s: s6, ip: Ip::v6(0), port });
                    if o4.starts_with("ok") && o6.starts_with("ok") {
                        let a4 = first_of_family(&addrs[h], false).unwrap();
                        let a6 = first_of_family(&addrs[h], true).unwrap();
                        for (src, dst) in [(Ip::v4(90), a4), (Ip::v6(90), a6), (Ip::v4(90), a4)] {
                            if rng.chance(3, 4) {
                                mid_sport += 1;
                                out.step(&mut w, st, Op::InjectSyn { src, sport: mid_sport, dst, dport: port });
                            }
                        }
                        let (closed, kept) = if rng.chance(1, 2) { (s4, s6) } else { (s6, s4) };
                        out.step(&mut w, st, Op::Close { h, s: closed });
                        out.step(&mut w, st, Op::Netstat);
                        let ns = next_slot;
                        next_slot += 1;
                        out.step(&mut w, st, Op::Accept { h, s: kept, ns });
                        if rng.chance(1, 2) {
                            out.step(&mut w, st, Op::Close { h, s: kept });
                            out.step(&mut w, st, Op::Netstat);
                        }
                    }
                }
            }
            13 => {
                // a half-open child whose SYN-ACKs are never answered: it retransmits, times out
                // and must be gone; then the 4-tuple, the listener's port and the table are used again
                let h = rng.below(nh);
                let port = *rng.pick(&[7200u16, 7201, 80, 5000]);
                let lip = if rng.chance(1, 2) { Ip { v6: addrs[h][0].v6, n: 0 } } else { addrs[h][0] };
                let ls = next_slot;
                next_slot += 1;
                let o = out.step(&mut w, st, Op::TListen { h, s: ls, ip: lip, port });
                if o.starts_with("ok") {
                    let dst = addrs[h][0];
                    let src = Ip { v6: dst.v6, n: 90 };
                    mid_sport += 1;
                    let sp = mid_sport;
                    out.step(&mut w, st, Op::InjectSyn { src, sport: sp, dst, dport: port });
                    if rng.chance(1, 2) {
                        mid_sport += 1;
                        out.step(&mut w, st, Op::InjectSyn { src, sport: mid_sport, dst, dport: port });
                    }
                    let n = *rng.pick(&[16u32, 17, 18, 19, 20, 24]);
                    out.step(&mut w, st, Op::PumpN { n });
                    out.step(&mut w, st, Op::Netstat);
                    if rng.chance(1, 2) {
                        // a new SYN on the very same 4-tuple
                        let o2 = out.step(&mut w, st, Op::InjectSyn { src, sport: sp, dst, dport: port });
                        if o2.contains("/SA/") {
                            out.step(&mut w, st, Op::InjectRst { src, sport: sp, dst, dport: port });
                        }
                    }
                    out.step(&mut w, st, Op::Close { h, s: ls });
                    let (s2, s3) = (next_slot, next_slot + 1);
                    next_slot += 2;
                    match rng.below(3) {
                        0 => {
                            out.step(&mut w, st, Op::TListen { h, s: s2, ip: lip, port });
                        }
                        1 => {
                            out.step(&mut w, st, Op::TListen { h, s: s2, ip: dst, port });
                        }
                        _ => {
                            out.step(&mut w, st, Op::TListen { h, s: s2, ip: Ip { v6: dst.v6, n: 0 }, port });
                            out.step(&mut w, st, Op::UBind { h, s: s3, ip: dst, port });
                        }
                    }
                    out.step(&mut w, st, Op::Netstat);
                }
            }
            14 => {
                // the unspecified address as a *destination* is an unknown address: routed to no
                // host, never delivered, never answered -- with and without a wildcard-bound
                // socket of the same protocol and port on the sender
                let h = rng.below(nh);
                let v6 = if rng.chance(1, 4) { !addrs[h][0].v6 } else { addrs[h][0].v6 };
                let unspec = Ip { v6, n: 0 };
                let port = *rng.pick(&[5000u16, 5001, 80, 7300]);
                let (su, sl, sx) = (next_slot, next_slot + 1, next_slot + 2);
                next_slot += 3;
                let tag = next_tag;
                next_tag += 1;
                // a sender of the right family on this host (an existing socket or a fresh one)
                let have: Vec<u32> = udp_slots
                    .iter()
                    .filter(|(k, uh)| *uh == h && matches!(w.info(*k), Some((_, _, la, _)) if la.is_ipv6() == v6))
                    .map(|(k, _)| *k)
                    .collect();
                let wild_u = rng.chance(1, 2);
                let mut sender = if !have.is_empty() && rng.chance(1, 2) { Some(*rng.pick(&have)) } else { None };
                if wild_u {
                    // a wildcard-bound UDP socket on the target port; half of the time it is the sender itself
                    let o = out.step(&mut w, st, Op::UBind { h, s: su, ip: unspec, port });
                    if o.starts_with("ok") && (sender.is_none() || rng.chance(1, 2)) {
                        sender = Some(su);
                    }
                }
                if sender.is_none() {
                    let ip = if rng.chance(1, 2) { unspec } else { first_of_family(&addrs[h], v6).unwrap_or(unspec) };
                    let o = out.step(&mut w, st, Op::UBind { h, s: sx, ip, port: 0 });
                    if o.starts_with("ok") {
                        sender = Some(sx);
                    }
                }
                if let Some(s) = sender {
                    out.step(&mut w, st, Op::USend { h, s, ip: unspec, port, tag });
                    out.step(&mut w, st, Op::Drain);
                }
                if rng.chance(1, 2) {
                    out.step(&mut w, st, Op::TListen { h, s: sl, ip: unspec, port });
                }
                let sc = next_slot;
                next_slot += 1;
                out.step(&mut w, st, Op::TConnect { h, s: sc, ip: unspec, port });
                if rng.chance(1, 3) {
                    out.step(&mut w, st, Op::Netstat);
                }
            }
            _ => {
                // a stray SYN answered by a listener, then reset by its sender
                let (ls, lh) = *rng.pick(&lsn_slots);
                if let Some((_, _, la, _)) = w.info(ls) {
                    if let Some((lip, lport)) = split_ep(&sa_tok(la)) {
                        let dst = if lip.n != 0 && !lip.is_loopback() { lip } else { first_of_family(&addrs[lh], lip.v6).unwrap_or(lip) };
                        let src = Ip { v6: dst.v6, n: 90 };
                        mid_sport += 1;
                        let obs = out.step(&mut w, st, Op::InjectSyn { src, sport: mid_sport, dst, dport: lport });
                        if obs.contains("/SA/") && rng.chance(1, 3) {
                            // leave the child half-open: it retransmits its SYN-ACK and times out
                        } else if obs.contains("/SA/") {
                            out.step(&mut w, st, Op::InjectRst { src, sport: mid_sport, dst, dport: lport });
                            if rng.chance(1, 2) {
                                out.step(&mut w, st, Op::Close { h: lh, s: ls });
                                let s2 = next_slot;
                                next_slot += 1;
                                out.step(&mut w, st, Op::TListen { h: lh, s: s2, ip: lip, port: lport });
                            }
                        }
                    }
                }
            }
        }
    }
    out.step(&mut w, st, Op::Netstat);

    // ---- probe phase -------------------------------------------------
    // ports of interest: everything currently bound (any proto) + one unused
    let mut ports: Vec<u16> = Vec::new();
    let ids: Vec<u32> = w.slots.keys().copied().collect();
    for id in &ids {
        if let Some((_, _, la, _)) = w.info(*id) {
            let p = la.port();
            if !ports.contains(&p) {
                ports.push(p);
            }
        }
    }
    ports.sort();
    while ports.len() > 5 {
        let i = rng.below(ports.len());
        ports.remove(i);
    }
    ports.push(6000);

    // prober sockets: one wildcard v4 and one wildcard v6 UDP socket per host
    let mut probers: Vec<(usize, u32, bool)> = Vec::new();
    for h in 0..nh {
        for v6 in [false, true] {
            let s = next_slot;
            next_slot += 1;
            let ip = if v6 { Ip::v6(0) } else { Ip::v4(0) };
            let obs = out.step(&mut w, st, Op::UBind { h, s, ip, port: 40000 });
            if obs.starts_with("ok") {
                probers.push((h, s, v6));
            }
        }
    }
    let mut dsts = everyone.clone();
    dsts.extend_from_slice(&[Ip::v4(1), Ip::v4(2), Ip::v6(1), Ip::v4(90), Ip::v6(90), Ip::v4(0), Ip::v6(0)]);
    let mut sport = 41000u16;
    for h in 0..nh {
        for dst in &dsts {
            for port in &ports {
                // UDP: a real send from this host's prober of the right family
                if let Some((_, s, _)) = probers.iter().find(|(ph, _, v6)| *ph == h && *v6 == dst.v6) {
                    let tag = next_tag;
                    next_tag += 1;
                    out.step(&mut w, st, Op::USend { h, s: *s, ip: *dst, port: *port, tag });
                    out.step(&mut w, st, Op::Drain);
                }
                // TCP: a raw SYN from this host's first address of that family
                let src = first_of_family(&addrs[h], dst.v6).unwrap_or(if dst.v6 { Ip::v6(90) } else { Ip::v4(90) });
                sport += 1;
                let obs = out.step(&mut w, st, Op::InjectSyn { src, sport, dst: *dst, dport: *port });
                if obs.contains("/SA/") {
                    out.step(&mut w, st, Op::InjectRst { src, sport, dst: *dst, dport: *port });
                }
            }
        }
    }
    // spoofed UDP: exact peers of connected sockets, and near misses
    let conn_udp: Vec<(u32, usize, std::net::SocketAddr, std::net::SocketAddr)> = ids
        .iter()
        .filter_map(|k| match w.info(*k) {
            Some((h, 'u', la, Some(pa))) => Some((*k, h, la, pa)),
            _ => None,
        })
        .collect();
    for (_s, h, local, peer) in conn_udp {
        let (Some(pe), Some(lo)) = (split_ep(&sa_tok(peer)), split_ep(&sa_tok(local))) else { continue };
        let mut targets: Vec<Ip> = if lo.0.n == 0 {
            addrs[h].iter().copied().filter(|a| a.v6 == lo.0.v6).collect()
        } else {
            vec![lo.0]
        };
        targets.retain(|a| !a.is_loopback());
        for t in targets {
            for (sp, sip) in [(pe.1, pe.0), (pe.1.wrapping_add(1), pe.0), (pe.1, Ip { v6: pe.0.v6, n: 90 })] {
                let tag = next_tag;
                next_tag += 1;
                out.step(&mut w, st, Op::InjectUdp { src: sip, sport: sp, dst: t, dport: lo.1, tag });
                out.step(&mut w, st, Op::Drain);
            }
        }
    }
    // SYNs that exactly match an established 4-tuple (both directions)
    for (cip, cport, sip, sport2) in conns.clone() {
        for (a, ap, b, bp) in [(cip, cport, sip, sport2), (sip, sport2, cip, cport)] {
            let obs = out.step(&mut w, st, Op::InjectSyn { src: a, sport: ap, dst: b, dport: bp });
            if obs.contains("/SA/") {
                out.step(&mut w, st, Op::InjectRst { src: a, sport: ap, dst: b, dport: bp });
            }
        }
    }
    // wire-injected loopback destinations must be dropped by the fabric
    for port in &ports {
        let tag = next_tag;
        next_tag += 1;
        out.step(&mut w, st, Op::InjectUdp { src: Ip::v4(90), sport: 1, dst: Ip::v4(1), dport: *port, tag });
        out.step(&mut w, st, Op::Drain);
    }
    out.step(&mut w, st, Op::Netstat);
    drop(w);
    out.lines
}

fn split_ep(s: &str) -> Option<(Ip, u16)> {
    let (a, p) = s.rsplit_once(':')?;
    Some((Ip::parse(a)?, p.parse().ok()?))
}

/// Ephemeral range driven to wrap-around and exhaustion (≈16k binds).
pub fn gen_exhaust_case(rng: &mut Rng, st: &mut Stats) -> Vec<String> {
    let addrs: Vec<Vec<Ip>> = vec![vec![Ip::v4(10), Ip::v4(11), Ip::v6(10)]];
    let mut out = Out { lines: vec![cfg_line(&addrs)] };
    let mut w = World::new(&addrs);
    let mut next_slot = 1u32;
    // move the cursor somewhere first
    let pre = *rng.pick(&[0u32, 1, 5, 100, 16000]);
    if pre > 0 {
        out.step(&mut w, st, Op::Cycle { h: 0, ip: Ip::v4(10), n: pre });
    }
    // squat a few explicit ports on another address (must be skipped)
    let mut squat = Vec::new();
    for _ in 0..(1 + rng.below(6)) {
        let port = *rng.pick(&[49152u16, 49153, 49160, 50000, 60000, 65534, 65535]);
        let ip = *rng.pick(&[Ip::v4(11), Ip::v4(0), Ip::v4(1)]);
        let s = next_slot;
        next_slot += 1;
        let obs = out.step(&mut w, st, Op::UBind { h: 0, s, ip, port });
        if obs.starts_with("ok") {
            squat.push(s);
        }
    }
    // a TCP listener and a v6 socket on ephemeral ports: other port spaces, same cursor
    let s = next_slot;
    next_slot += 1;
    out.step(&mut w, st, Op::TListen { h: 0, s, ip: Ip::v4(10), port: 0 });
    let s = next_slot;
    next_slot += 1;
    out.step(&mut w, st, Op::UBind { h: 0, s, ip: Ip::v6(10), port: 0 });
    // fill until exhaustion
    let mut live: Vec<u32> = Vec::new();
    let ips = [Ip::v4(10), Ip::v4(11), Ip::v4(0), Ip::v4(1)];
    let mut failures = 0;
    for i in 0..16500u32 {
        let ip = ips[(i % 4) as usize];
        let s = next_slot;
        next_slot += 1;
        let obs = out.step(&mut w, st, Op::UBind { h: 0, s, ip, port: 0 });
        if obs.starts_with("ok") {
            live.push(s);
        } else {
            failures += 1;
            if failures >= 1 {
                break;
            }
        }
    }
    // the range is full and the cursor sits just behind the last port handed out: free exactly
    // that port - it is the very last candidate of the next scan - and ask again
    if let Some(s) = live.pop() {
        out.step(&mut w, st, Op::Close { h: 0, s });
        let s2 = next_slot;
        next_slot += 1;
        let obs = out.step(&mut w, st, Op::UBind { h: 0, s: s2, ip: Ip::v4(11), port: 0 });
        if obs.starts_with("ok") {
            live.push(s2);
        }
    }
    // free some, reallocate, exhaust again
    for _round in 0..2 {
        let k = 1 + rng.below(4);
        for _ in 0..k {
            if live.is_empty() {
                break;
            }
            let i = rng.below(live.len());
            let s = live.swap_remove(i);
            out.step(&mut w, st, Op::Close { h: 0, s });
        }
        if rng.chance(1, 2) && !squat.is_empty() {
            let s = squat.swap_remove(0);
            out.step(&mut w, st, Op::Close { h: 0, s });
        }
        for _ in 0..(k + 1) {
            let s = next_slot;
            next_slot += 1;
            let obs = out.step(&mut w, st, Op::UBind { h: 0, s, ip: *rng.pick(&ips), port: 0 });
            if obs.starts_with("ok") {
                live.push(s);
            }
        }
    }
    // TCP space is still almost empty: allocation must succeed there
    let s = next_slot;
    out.step(&mut w, st, Op::TListen { h: 0, s, ip: Ip::v4(0), port: 0 });
    drop(w);
    out.lines
}


/// Tiny ephemeral range (verification hook): every fill order, every position of the free
/// port(s) relative to the cursor, all protocol spaces sharing the one cursor, auto-bind.
pub fn gen_tiny_case(rng: &mut Rng, st: &mut Stats) -> Vec<String> {
    let addrs: Vec<Vec<Ip>> = vec![vec![Ip::v4(10), Ip::v4(11), Ip::v6(10)], vec![Ip::v4(20), Ip::v6(20)]];
    let (lo, hi) = *rng.pick(&[
        (49152u16, 49152u16),
        (49152, 49153),
        (49152, 49154),
        (49152, 49155),
        (49152, 49155),
        (50000, 50004),
        (65533, 65535),
        (65535, 65535),
    ]);
    let n = (hi - lo + 1) as usize;
    let mut out = Out { lines: vec![format!("{} eph={lo}-{hi}", cfg_line(&addrs))] };
    let mut w = World::new_with(&addrs, Some((lo, hi)));
    let mut next_slot = 1u32;
    let v4 = [Ip::v4(10), Ip::v4(11), Ip::v4(0), Ip::v4(1)];
    // sometimes start with the cursor somewhere inside the range
    if rng.chance(1, 2) {
        let k = rng.below(n + 1) as u32;
        if k > 0 {
            out.step(&mut w, st, Op::Cycle { h: 0, ip: Ip::v4(10), n: k });
        }
    }
    // ---- phase A: fill the UDP/v4 space, then free and re-bind at every relative position
    let mut live: Vec<u32> = Vec::new();
    for i in 0..n + 1 {
        let s = next_slot;
        next_slot += 1;
        let obs = out.step(&mut w, st, Op::UBind { h: 0, s, ip: v4[i % 4], port: 0 });
        if obs.starts_with("ok") {
            live.push(s);
        }
    }
    let rounds = (n * n).clamp(2, 10);
    let mut tcp_tmp: Vec<u32> = Vec::new();
    for _ in 0..rounds {
        if live.is_empty() {
            break;
        }
        // move the cursor: free one port and take it again
        let i = rng.below(live.len());
        let s = live.swap_remove(i);
        out.step(&mut w, st, Op::Close { h: 0, s });
        let s2 = next_slot;
        next_slot += 1;
        if out.step(&mut w, st, Op::UBind { h: 0, s: s2, ip: *rng.pick(&v4), port: 0 }).starts_with("ok") {
            live.push(s2);
        }
        // free one or two ports anywhere
        let k = if live.len() >= 2 && rng.chance(1, 3) { 2 } else { 1 };
        for _ in 0..k {
            if live.is_empty() {
                break;
            }
            let i = rng.below(live.len());
            let s = live.swap_remove(i);
            out.step(&mut w, st, Op::Close { h: 0, s });
        }
        // another protocol space shares the cursor
        if rng.chance(1, 3) {
            let s3 = next_slot;
            next_slot += 1;
            let (ip, tcp) = *rng.pick(&[(Ip::v4(10), true), (Ip::v6(10), false), (Ip::v6(0), true)]);
            let op = if tcp { Op::TListen { h: 0, s: s3, ip, port: 0 } } else { Op::UBind { h: 0, s: s3, ip, port: 0 } };
            if out.step(&mut w, st, op).starts_with("ok") {
                tcp_tmp.push(s3);
            }
            if tcp_tmp.len() > 1 && rng.chance(1, 2) {
                let s = tcp_tmp.remove(0);
                out.step(&mut w, st, Op::Close { h: 0, s });
            }
        }
        // and bind again: exactly the freed ports must come back, then exhaustion
        for _ in 0..k + 1 {
            let s4 = next_slot;
            next_slot += 1;
            if out.step(&mut w, st, Op::UBind { h: 0, s: s4, ip: *rng.pick(&v4), port: 0 }).starts_with("ok") {
                live.push(s4);
            }
        }
    }
    // ---- phase B: free mix over both hosts, TCP + UDP, v4 + v6, explicit in-range ports, auto-bind
    let nops = 20 + rng.below(30);
    for _ in 0..nops {
        let slots: Vec<(u32, usize, bool)> =
            w.slots.iter().map(|(k, v)| (*k, v.host(), matches!(v, Slot::Lsn(..)))).collect();
        let listeners: Vec<(u32, usize)> = slots.iter().filter(|x| x.2).map(|x| (x.0, x.1)).collect();
        match rng.weighted(&[28, 18, if slots.is_empty() { 0 } else { 30 }, 8, if listeners.is_empty() { 0 } else { 10 }, 3, if listeners.is_empty() { 0 } else { 4 }]) {
            0 => {
                let h = rng.below(2);
                let ip = *rng.pick(&[addrs[h][0], Ip::v4(0), Ip::v4(1), *addrs[h].last().unwrap(), Ip::v6(0), Ip::v6(1)]);
                let s = next_slot;
                next_slot += 1;
                out.step(&mut w, st, Op::UBind { h, s, ip, port: 0 });
            }
            1 => {
                let h = rng.below(2);
                let ip = *rng.pick(&[addrs[h][0], Ip::v4(0), *addrs[h].last().unwrap(), Ip::v6(0)]);
                let s = next_slot;
                next_slot += 1;
                out.step(&mut w, st, Op::TListen { h, s, ip, port: 0 });
            }
            2 => {
                let (s, h, _) = *rng.pick(&slots);
                out.step(&mut w, st, Op::Close { h, s });
            }
            3 => {
                // squat a port of the range explicitly
                let h = rng.below(2);
                let port = lo + rng.below(n) as u16;
                let ip = *rng.pick(&[addrs[h][0], Ip::v4(0), Ip::v4(2), Ip::v6(0)]);
                let s = next_slot;
                next_slot += 1;
                if rng.chance(1, 2) {
                    out.step(&mut w, st, Op::UBind { h, s, ip, port });
                } else {
                    out.step(&mut w, st, Op::TListen { h, s, ip, port });
                }
            }
            4 => {
                // connect = auto-bind in the TCP space of the connecting host
                let (ls, lh) = *rng.pick(&listeners);
                if let Some((_, _, la, _)) = w.info(ls) {
                    if let Some((lip, lport)) = split_ep(&sa_tok(la)) {
                        let h = rng.below(2);
                        let ip = if lip.n != 0 && (!lip.is_loopback() || h == lh) {
                            lip
                        } else if h == lh && rng.chance(1, 2) {
                            Ip { v6: lip.v6, n: 1 }
                        } else {
                            first_of_family(&addrs[lh], lip.v6).unwrap_or(lip)
                        };
                        let s = next_slot;
                        next_slot += 1;
                        out.step(&mut w, st, Op::TConnect { h, s, ip, port: lport });
                    }
                }
            }
            5 => {
                let h = rng.below(2);
                let k = 1 + rng.below(n + 1) as u32;
                out.step(&mut w, st, Op::Cycle { h, ip: *rng.pick(&[addrs[h][0], Ip::v4(0), Ip::v6(0)]), n: k });
            }
            _ => {
                let (s, h) = *rng.pick(&listeners);
                let ns = next_slot;
                next_slot += 1;
                out.step(&mut w, st, Op::Accept { h, s, ns });
            }
        }
    }
    out.step(&mut w, st, Op::Netstat);
    drop(w);
    out.lines
}

/// Re-execute the OP lines of a stored case.
pub fn replay(lines: &[String], st: &mut Stats) -> Vec<String> {
    let cfg = lines.iter().find(|l| l.starts_with("CFG")).cloned().unwrap_or_else(|| "CFG hosts=0".into());
    let addrs = parse_cfg(&cfg);
    let eph = parse_eph(&cfg);
    let mut head = cfg_line(&addrs);
    if let Some((lo, hi)) = eph {
        head.push_str(&format!(" eph={lo}-{hi}"));
    }
    let mut out = Out { lines: vec![head] };
    let mut w = World::new_with(&addrs, eph);
    for l in lines {
        if let Some(op) = Op::parse(l) {
            out.step(&mut w, st, op);
        }
    }
    drop(w);
    out.lines
}
