//! C19: rule chains (harness as the wire) and the built-in fixtures' scheduler
//! (`fixture::ClientServer`, `fixture::lo`) driven by per-step scripts.

use std::cell::RefCell;
use std::collections::BTreeMap;
use std::future::Future;
use std::pin::Pin;
use std::rc::Rc;
use std::task::Poll;
use std::time::Duration;

use turmoil_net::fixture::{self, ClientServer};
use turmoil_net::shim::tokio::net::{TcpListener, TcpStream, UdpSocket};
use turmoil_net::{
    rule, EnterGuard, HostId, KernelConfig, Latency, Net, Packet, Rule, RuleGuard, RuleId, Transport, Verdict,
};

use crate::util::*;

const TICK_US: u64 = 1000;

#[derive(Clone, Copy, PartialEq, Eq, Debug)]
pub enum V {
    P,
    X,
    D(u64),
}

impl V {
    fn tok(&self) -> String {
        match self {
            V::P => "P".into(),
            V::X => "X".into(),
            V::D(us) => format!("D{us}"),
        }
    }
    fn parse(s: &str) -> Option<V> {
        match s {
            "P" => Some(V::P),
            "X" => Some(V::X),
            _ => s.strip_prefix('D')?.parse().ok().map(V::D),
        }
    }
    fn verdict(&self) -> Verdict {
        match self {
            V::P => Verdict::Pass,
            V::X => Verdict::Drop,
            V::D(us) => Verdict::Deliver(Duration::from_micros(*us)),
        }
    }
    fn of(v: Verdict) -> V {
        match v {
            Verdict::Pass => V::P,
            Verdict::Drop => V::X,
            Verdict::Deliver(d) => V::D(d.as_micros() as u64),
        }
    }
}

#[derive(Clone, Debug)]
pub struct RuleSpec {
    label: u32,
    table: Vec<V>,
    tcp: V,
}

#[derive(Clone, Debug)]
pub enum SOp {
    Install { h: Option<usize>, spec: RuleSpec, mode: String },
    GDrop { h: Option<usize>, label: u32 },
    Forget { h: Option<usize>, label: u32 },
    USend { h: usize, s: u32, ip: Ip, port: u16, tag: u32 },
    TConnect { h: usize, c: u32, ip: Ip, port: u16 },
    TPoll { h: usize, c: u32 },
    TAccept { h: usize, l: u32, c: u32 },
    TWrite { h: usize, c: u32, n: u32 },
    TRead { h: usize, c: u32 },
    TClose { h: usize, c: u32 },
    Enter,
    Step,
    Drain,
}

fn actor(h: &Option<usize>) -> String {
    match h {
        Some(h) => format!("h{h}"),
        None => "ctl".into(),
    }
}

impl SOp {
    pub fn line(&self) -> String {
        match self {
            SOp::Install { h, spec, mode } => {
                let t: Vec<String> = spec.table.iter().map(|v| v.tok()).collect();
                format!(
                    "OP {} install r{} mode={} table={} tcp={}",
                    actor(h),
                    spec.label,
                    mode,
                    t.join(","),
                    spec.tcp.tok()
                )
            }
            SOp::GDrop { h, label } => format!("OP {} gdrop r{label}", actor(h)),
            SOp::Forget { h, label } => format!("OP {} forget r{label}", actor(h)),
            SOp::USend { h, s, ip, port, tag } => format!("OP h{h} usend s{s} {} {port} {tag}", ip.tok()),
            SOp::TConnect { h, c, ip, port } => format!("OP h{h} tconnect c{c} {} {port}", ip.tok()),
            SOp::TPoll { h, c } => format!("OP h{h} tpoll c{c}"),
            SOp::TAccept { h, l, c } => format!("OP h{h} taccept l{l} c{c}"),
            SOp::TWrite { h, c, n } => format!("OP h{h} twrite c{c} {n}"),
            SOp::TRead { h, c } => format!("OP h{h} tread c{c}"),
            SOp::TClose { h, c } => format!("OP h{h} tclose c{c}"),
            SOp::Enter => "OP ctl enter".into(),
            SOp::Step => "OP wire step".into(),
            SOp::Drain => "OP ctl drain".into(),
        }
    }

    pub fn parse(line: &str) -> Option<SOp> {
        let t: Vec<&str> = line.split_whitespace().collect();
        if t.len() < 3 || t[0] != "OP" {
            return None;
        }
        let h: Option<usize> = t[1].strip_prefix('h').and_then(|x| x.parse().ok());
        let id = |i: usize, p: char| -> Option<u32> { t.get(i)?.strip_prefix(p)?.parse().ok() };
        let num = |i: usize| -> Option<u32> { t.get(i)?.parse().ok() };
        Some(match t[2] {
            "install" => {
                let mut mode = "guard".to_string();
                let mut table = vec![];
                let mut tcp = V::P;
                for kv in &t[4..] {
                    let (k, v) = kv.split_once('=')?;
                    match k {
                        "mode" => mode = v.to_string(),
                        "table" => table = v.split(',').filter_map(V::parse).collect(),
                        "tcp" => tcp = V::parse(v)?,
                        _ => {}
                    }
                }
                SOp::Install { h, spec: RuleSpec { label: id(3, 'r')?, table, tcp }, mode }
            }
            "gdrop" => SOp::GDrop { h, label: id(3, 'r')? },
            "forget" => SOp::Forget { h, label: id(3, 'r')? },
            "usend" => SOp::USend { h: h?, s: id(3, 's')?, ip: Ip::parse(t.get(4)?)?, port: num(5)? as u16, tag: num(6)? },
            "tconnect" => SOp::TConnect { h: h?, c: id(3, 'c')?, ip: Ip::parse(t.get(4)?)?, port: num(5)? as u16 },
            "tpoll" => SOp::TPoll { h: h?, c: id(3, 'c')? },
            "taccept" => SOp::TAccept { h: h?, l: id(3, 'l')?, c: id(4, 'c')? },
            "twrite" => SOp::TWrite { h: h?, c: id(3, 'c')?, n: num(4)? },
            "tread" => SOp::TRead { h: h?, c: id(3, 'c')? },
            "tclose" => SOp::TClose { h: h?, c: id(3, 'c')? },
            "enter" => SOp::Enter,
            "step" => SOp::Step,
            "drain" => SOp::Drain,
            _ => return None,
        })
    }
}

/// Descriptor of a packet as rules see it.
fn desc(p: &Packet) -> String {
    pkt_tok(p)
}

#[derive(Clone)]
struct RuleLog {
    t_us: u64,
    label: u32,
    desc: String,
    v: V,
}

#[derive(Default)]
struct Shared {
    start: Option<tokio::time::Instant>,
    rlog: Vec<RuleLog>,
    oplog: Vec<(u64, String, String)>,
    arrivals: Vec<(u64, usize, u32, u32)>,
    guards: BTreeMap<u32, RuleGuard>,
    tcp_written: u64,
    tcp_read: u64,
    /// every RuleId ever handed out (must be pairwise distinct)
    rule_ids: Vec<RuleId>,
    /// disagreements between equivalent calls: printed as `OBS xcheck ...`
    xfail: Vec<String>,
}

impl Shared {
    fn now_us(&self) -> u64 {
        match self.start {
            Some(s) => (tokio::time::Instant::now() - s).as_micros() as u64,
            None => 0,
        }
    }
}

type Sh = Rc<RefCell<Shared>>;

fn rule_verdict(spec: &RuleSpec, sh: &Sh, pkt: &Packet) -> Verdict {
    let (v, tag) = match &pkt.payload {
        Transport::Udp(d) => {
            let tag = tag_of(&d.payload) as usize;
            if spec.table.is_empty() {
                (V::P, tag)
            } else {
                (spec.table[tag % spec.table.len()], tag)
            }
        }
        Transport::Tcp(s) => (spec.tcp, s.payload.len()),
    };
    let mut s = sh.borrow_mut();
    let t_us = s.now_us();
    s.rlog.push(RuleLog { t_us, label: spec.label, desc: desc(pkt), v });
    match v {
        // the built-in helper, used the way its documentation suggests (wrapped in another rule)
        V::D(us) if (tag + spec.label as usize) % 2 == 1 => {
            let out = Latency::fixed(Duration::from_micros(us)).on_packet(pkt);
            if out != v.verdict() {
                s.xfail.push(format!("latency-helper r{}", spec.label));
            }
            out
        }
        _ => v.verdict(),
    }
}

/// closure form (`impl<F: FnMut(&Packet) -> Verdict> Rule for F`)
fn mk_rule(spec: RuleSpec, sh: Sh) -> impl FnMut(&Packet) -> Verdict + 'static {
    move |pkt: &Packet| rule_verdict(&spec, &sh, pkt)
}

/// hand-written `impl Rule`
struct TableRule {
    spec: RuleSpec,
    sh: Sh,
}

impl Rule for TableRule {
    fn on_packet(&mut self, pkt: &Packet) -> Verdict {
        rule_verdict(&self.spec, &self.sh, pkt)
    }
}

/// Install through the free function, alternating the two ways of writing a rule.
fn install_free(spec: &RuleSpec, sh: &Sh) -> RuleGuard {
    let g = if spec.label % 2 == 0 {
        rule(mk_rule(spec.clone(), sh.clone()))
    } else {
        rule(TableRule { spec: spec.clone(), sh: sh.clone() })
    };
    note_id(sh, &g);
    g
}

fn note_id(sh: &Sh, g: &RuleGuard) {
    let mut s = sh.borrow_mut();
    if s.rule_ids.contains(&g.id()) {
        s.xfail.push("rule-id-reused".into());
    }
    let id = g.id();
    s.rule_ids.push(id);
}

/// Three equivalent ways of ending a rule's life.
fn drop_guard(label: u32, g: RuleGuard) {
    let id = g.id();
    match label % 3 {
        0 => drop(g),
        1 => {
            // forget, then uninstall through a guard rebuilt from the id
            g.forget();
            drop(RuleGuard::new(id));
        }
        _ => {
            // uninstalling twice is a no-op
            drop(g);
            drop(RuleGuard::new(id));
        }
    }
}

/// Static layout of a case.
#[derive(Clone, Debug)]
pub struct Layout {
    pub fixture: String, // wire | cs | lo
    pub addrs: Vec<Vec<Ip>>,
    pub recv: Vec<(usize, u32, Ip, u16)>,
    pub lsn: Vec<(usize, u32, Ip, u16)>,
    pub steps: usize,
}

impl Layout {
    fn cfg_line(&self) -> String {
        let mut s = format!("CFG fixture={} hosts={}", self.fixture, self.addrs.len());
        for (i, a) in self.addrs.iter().enumerate() {
            let toks: Vec<String> = a.iter().map(|x| x.tok()).collect();
            s.push_str(&format!(" h{}={}", i, join(&toks, ",")));
        }
        let r: Vec<String> = self.recv.iter().map(|(h, s, ip, p)| format!("h{h}.s{s}@{}:{p}", ip.tok())).collect();
        let l: Vec<String> = self.lsn.iter().map(|(h, s, ip, p)| format!("h{h}.l{s}@{}:{p}", ip.tok())).collect();
        s.push_str(&format!(" recv={} lsn={} steps={} tick_us={}", join(&r, ","), join(&l, ","), self.steps, TICK_US));
        s
    }

    fn parse(line: &str) -> Layout {
        let mut lay = Layout { fixture: "wire".into(), addrs: vec![], recv: vec![], lsn: vec![], steps: 0 };
        let ep = |s: &str, p: char| -> Option<(usize, u32, Ip, u16)> {
            let (a, b) = s.split_once('@')?;
            let (h, sl) = a.split_once('.')?;
            let (ip, port) = b.rsplit_once(':')?;
            Some((h.strip_prefix('h')?.parse().ok()?, sl.strip_prefix(p)?.parse().ok()?, Ip::parse(ip)?, port.parse().ok()?))
        };
        for t in line.split_whitespace().skip(1) {
            let Some((k, v)) = t.split_once('=') else { continue };
            match k {
                "fixture" => lay.fixture = v.to_string(),
                "hosts" | "tick_us" => {}
                "steps" => lay.steps = v.parse().unwrap_or(0),
                "recv" => lay.recv = if v == "-" { vec![] } else { v.split(',').filter_map(|x| ep(x, 's')).collect() },
                "lsn" => lay.lsn = if v == "-" { vec![] } else { v.split(',').filter_map(|x| ep(x, 'l')).collect() },
                _ if k.starts_with('h') => {
                    lay.addrs.push(if v == "-" { vec![] } else { v.split(',').filter_map(Ip::parse).collect() })
                }
                _ => {}
            }
        }
        lay
    }
}

#[derive(Default)]
pub struct Stats {
    pub cases: u64,
    pub ops: BTreeMap<String, u64>,
    pub verdicts: BTreeMap<String, u64>,
    pub evals: u64,
    pub arrivals: u64,
}

impl Stats {
    pub fn summary(&self) -> String {
        format!(
            "cases={} ops={:?} rule-invocation verdicts={:?} evaluated packets={} arrivals={}",
            self.cases, self.ops, self.verdicts, self.evals, self.arrivals
        )
    }
    fn op(&mut self, name: &str) {
        *self.ops.entry(name.to_string()).or_insert(0) += 1;
    }
}

// ------------------------------------------------------------------ wire family

struct WireWorld {
    udp: BTreeMap<u32, (usize, UdpSocket)>,
    lsn: BTreeMap<u32, (usize, TcpListener)>,
    streams: BTreeMap<u32, (usize, TcpStream)>,
    connecting: BTreeMap<u32, (usize, Pin<Box<dyn Future<Output = std::io::Result<TcpStream>>>>)>,
    hosts: Vec<HostId>,
    guard: Option<EnterGuard>,
    net: Option<Net>,
    sh: Sh,
    lay: Layout,
}

impl Drop for WireWorld {
    fn drop(&mut self) {
        if let Some(g) = &self.guard {
            let ids: Vec<u32> = self.connecting.keys().copied().collect();
            for id in ids {
                if let Some((h, f)) = self.connecting.remove(&id) {
                    g.set_current(self.hosts[h]);
                    drop(f);
                }
            }
            let ids: Vec<u32> = self.streams.keys().copied().collect();
            for id in ids {
                if let Some((h, s)) = self.streams.remove(&id) {
                    g.set_current(self.hosts[h]);
                    drop(s);
                }
            }
            let ids: Vec<u32> = self.lsn.keys().copied().collect();
            for id in ids {
                if let Some((h, s)) = self.lsn.remove(&id) {
                    g.set_current(self.hosts[h]);
                    drop(s);
                }
            }
            let ids: Vec<u32> = self.udp.keys().copied().collect();
            for id in ids {
                if let Some((h, s)) = self.udp.remove(&id) {
                    g.set_current(self.hosts[h]);
                    drop(s);
                }
            }
        }
        // guards must go while our Net (if any) is still the installed one
        self.sh.borrow_mut().guards.clear();
        self.guard = None;
    }
}

impl WireWorld {
    fn new(lay: &Layout) -> WireWorld {
        let mut net = Net::new();
        let mut hosts = vec![];
        for a in &lay.addrs {
            let ips: Vec<std::net::IpAddr> = a.iter().map(|x| x.to_ip()).collect();
            hosts.push(net.add_host(ips));
        }
        WireWorld {
            udp: BTreeMap::new(),
            lsn: BTreeMap::new(),
            streams: BTreeMap::new(),
            connecting: BTreeMap::new(),
            hosts,
            guard: None,
            net: Some(net),
            sh: Rc::new(RefCell::new(Shared::default())),
            lay: lay.clone(),
        }
    }

    fn cur(&self, h: usize) {
        if let Some(g) = &self.guard {
            if (h + self.udp.len() + self.streams.len()) % 2 == 0 {
                g.set_current(self.hosts[h]);
            } else {
                turmoil_net::set_current(self.hosts[h]);
            }
        }
    }

    /// Returns the lines that follow the OP line (ORA / OBS).
    fn exec(&mut self, op: &SOp) -> Vec<String> {
        let obs = |s: String| vec![format!("OBS {s}")];
        match op {
            SOp::Install { h, spec, mode } => {
                let r = mk_rule(spec.clone(), self.sh.clone());
                match mode.as_str() {
                    "perm" => match self.net.as_mut() {
                        Some(n) => {
                            n.rule(r);
                            obs("ok".into())
                        }
                        None => obs("err entered".into()),
                    },
                    "sguard" => match &self.guard {
                        Some(g) => {
                            let rg = g.rule(r);
                            note_id(&self.sh, &rg);
                            self.sh.borrow_mut().guards.insert(spec.label, rg);
                            obs("ok".into())
                        }
                        None => obs("err notentered".into()),
                    },
                    _ => {
                        if self.guard.is_none() {
                            return obs("err notentered".into());
                        }
                        if let Some(h) = h {
                            self.cur(*h);
                        }
                        drop(r);
                        let rg = install_free(spec, &self.sh);
                        self.sh.borrow_mut().guards.insert(spec.label, rg);
                        obs("ok".into())
                    }
                }
            }
            SOp::GDrop { label, .. } => {
                let g = self.sh.borrow_mut().guards.remove(label);
                match g {
                    Some(g) => {
                        drop_guard(*label, g);
                        obs("ok".into())
                    }
                    None => obs("noguard".into()),
                }
            }
            SOp::Forget { label, .. } => {
                let g = self.sh.borrow_mut().guards.remove(label);
                match g {
                    Some(g) => {
                        g.forget();
                        obs("ok".into())
                    }
                    None => obs("noguard".into()),
                }
            }
            SOp::Enter => {
                let Some(net) = self.net.take() else { return obs("err entered".into()) };
                self.guard = Some(net.enter());
                for (h, s, ip, port) in self.lay.recv.clone() {
                    self.cur(h);
                    if let Ok(sock) = now_or_panic(UdpSocket::bind(ip.sa(port))) {
                        self.udp.insert(s, (h, sock));
                    }
                }
                for (h, s, ip, port) in self.lay.lsn.clone() {
                    self.cur(h);
                    if let Ok(l) = now_or_panic(TcpListener::bind(ip.sa(port))) {
                        self.lsn.insert(s, (h, l));
                    }
                }
                obs("ok".into())
            }
            SOp::USend { h, s, ip, port, tag } => {
                let Some((hh, sock)) = self.udp.get(s) else { return obs("noslot".into()) };
                if hh != h {
                    return obs("noslot".into());
                }
                self.cur(*h);
                match sock.try_send_to(&tag_bytes(*tag), ip.sa(*port)) {
                    Ok(_) => obs("ok".into()),
                    Err(e) => obs(format!("err {}", err_tok(&e))),
                }
            }
            SOp::TConnect { h, c, ip, port } => {
                if self.guard.is_none() || *h >= self.hosts.len() {
                    return obs("nohost".into());
                }
                self.cur(*h);
                let mut fut: Pin<Box<dyn Future<Output = std::io::Result<TcpStream>>>> =
                    Box::pin(TcpStream::connect(ip.sa(*port)));
                match poll_once(fut.as_mut()) {
                    Poll::Ready(Ok(st)) => {
                        self.streams.insert(*c, (*h, st));
                        obs("ok".into())
                    }
                    Poll::Ready(Err(e)) => obs(format!("err {}", err_tok(&e))),
                    Poll::Pending => {
                        self.connecting.insert(*c, (*h, fut));
                        obs("pending".into())
                    }
                }
            }
            SOp::TPoll { h, c } => {
                let Some((hh, mut fut)) = self.connecting.remove(c) else { return obs("noslot".into()) };
                self.cur(hh);
                let _ = h;
                match poll_once(fut.as_mut()) {
                    Poll::Ready(Ok(st)) => {
                        self.streams.insert(*c, (hh, st));
                        obs("ok".into())
                    }
                    Poll::Ready(Err(e)) => obs(format!("err {}", err_tok(&e))),
                    Poll::Pending => {
                        self.connecting.insert(*c, (hh, fut));
                        obs("pending".into())
                    }
                }
            }
            SOp::TAccept { h, l, c } => {
                let Some((hh, lst)) = self.lsn.get(l) else { return obs("noslot".into()) };
                let _ = h;
                self.cur(*hh);
                let r = {
                    let mut f = Box::pin(lst.accept());
                    poll_once(f.as_mut())
                };
                match r {
                    Poll::Ready(Ok((st, _))) => {
                        let hh = *hh;
                        self.streams.insert(*c, (hh, st));
                        obs("ok".into())
                    }
                    Poll::Ready(Err(e)) => obs(format!("err {}", err_tok(&e))),
                    Poll::Pending => obs("wouldblock".into()),
                }
            }
            SOp::TWrite { c, n, .. } => {
                let Some((hh, st)) = self.streams.get(c) else { return obs("noslot".into()) };
                self.cur(*hh);
                let buf = vec![0x5au8; *n as usize];
                match st.try_write(&buf) {
                    Ok(k) => obs(format!("ok {k}")),
                    Err(e) => obs(format!("err {}", err_tok(&e))),
                }
            }
            SOp::TRead { c, .. } => {
                let Some((hh, st)) = self.streams.get(c) else { return obs("noslot".into()) };
                self.cur(*hh);
                let mut buf = vec![0u8; 65536];
                match st.try_read(&mut buf) {
                    Ok(k) => obs(format!("ok {k}")),
                    Err(e) => obs(format!("err {}", err_tok(&e))),
                }
            }
            SOp::TClose { c, .. } => {
                if let Some((hh, st)) = self.streams.remove(c) {
                    self.cur(hh);
                    drop(st);
                    obs("ok".into())
                } else if let Some((hh, f)) = self.connecting.remove(c) {
                    self.cur(hh);
                    drop(f);
                    obs("ok".into())
                } else {
                    obs("noslot".into())
                }
            }
            SOp::Step => {
                let Some(g) = &self.guard else { return obs("err notentered".into()) };
                let mut out: Vec<Packet> = Vec::new();
                g.egress_all(&mut out);
                let descs: Vec<String> = out.iter().map(desc).collect();
                let mut lines = vec![format!("ORA egress {}", join(&descs, " "))];
                for p in out {
                    let before = self.sh.borrow().rlog.len();
                    let v = V::of(g.evaluate(&p));
                    let sh = self.sh.borrow();
                    let ents: Vec<String> = sh.rlog[before..].iter().map(|e| format!("r{}={}", e.label, e.v.tok())).collect();
                    let foreign = sh.rlog[before..].iter().any(|e| e.desc != desc(&p));
                    drop(sh);
                    lines.push(format!(
                        "OBS eval {} {} {}{}",
                        desc(&p),
                        join(&ents, ","),
                        v.tok(),
                        if foreign { " foreign" } else { "" }
                    ));
                    if v != V::X {
                        g.deliver(p);
                    }
                }
                lines
            }
            SOp::Drain => {
                let mut parts = vec![];
                let ids: Vec<u32> = self.udp.keys().copied().collect();
                for id in ids {
                    let (h, sock) = self.udp.get(&id).unwrap();
                    self.cur(*h);
                    let mut got = vec![];
                    let mut buf = [0u8; 64];
                    while let Ok((n, _from)) = sock.try_recv_from(&mut buf) {
                        got.push(tag_of(&buf[..n]).to_string());
                    }
                    if !got.is_empty() {
                        parts.push(format!("h{}.s{}={}", h, id, got.join(",")));
                    }
                }
                obs(join(&parts, " "))
            }
        }
    }
}

fn run_wire(lay: &Layout, ops: &[SOp]) -> Vec<String> {
    let mut w = WireWorld::new(lay);
    let mut lines = vec![lay.cfg_line()];
    for op in ops {
        lines.push(op.line());
        lines.extend(w.exec(op));
        let xs: Vec<String> = w.sh.borrow_mut().xfail.drain(..).collect();
        for x in xs {
            lines.push(format!("OBS xcheck {x}"));
        }
    }
    drop(w);
    lines
}

// ------------------------------------------------------------------ fixture families

struct HostPlan {
    h: usize,
    script: Vec<Vec<SOp>>, // per step
    recv: Vec<(u32, Ip, u16)>,
    lsn: Vec<(u32, Ip, u16)>,
    total_steps: usize,
    finish: bool,
}

async fn host_task(plan: HostPlan, sh: Sh) {
    {
        let mut s = sh.borrow_mut();
        if s.start.is_none() {
            s.start = Some(tokio::time::Instant::now());
        }
    }
    let h = plan.h;
    let mut udp: BTreeMap<u32, UdpSocket> = BTreeMap::new();
    for (s, ip, port) in &plan.recv {
        if let Ok(sock) = UdpSocket::bind(ip.sa(*port)).await {
            udp.insert(*s, sock);
        }
    }
    let mut lsn: Vec<TcpListener> = Vec::new();
    for (_s, ip, port) in &plan.lsn {
        if let Ok(l) = TcpListener::bind(ip.sa(*port)).await {
            lsn.push(l);
        }
    }
    let mut accepted: Vec<TcpStream> = Vec::new();
    let mut streams: BTreeMap<u32, TcpStream> = BTreeMap::new();
    let mut connecting: BTreeMap<u32, Pin<Box<dyn Future<Output = std::io::Result<TcpStream>>>>> = BTreeMap::new();
    for step in 0..plan.total_steps {
        let now = sh.borrow().now_us();
        // 1. what arrived since the last step
        for (s, sock) in &udp {
            let mut buf = [0u8; 64];
            loop {
                // alternate the non-blocking call and a once-polled `recv_from` future
                let got = if (step + *s as usize) % 2 == 0 {
                    sock.try_recv_from(&mut buf).ok()
                } else {
                    let mut f = Box::pin(sock.recv_from(&mut buf));
                    match poll_once(f.as_mut()) {
                        Poll::Ready(Ok(x)) => Some(x),
                        _ => None,
                    }
                };
                let Some((n, _)) = got else { break };
                sh.borrow_mut().arrivals.push((now, h, *s, tag_of(&buf[..n])));
            }
        }
        for l in &lsn {
            loop {
                let r = {
                    let mut f = Box::pin(l.accept());
                    poll_once(f.as_mut())
                };
                match r {
                    Poll::Ready(Ok((st, _))) => accepted.push(st),
                    _ => break,
                }
            }
        }
        for st in &accepted {
            let mut buf = vec![0u8; 65536];
            while let Ok(n) = st.try_read(&mut buf) {
                if n == 0 {
                    break;
                }
                sh.borrow_mut().tcp_read += n as u64;
            }
        }
        let ids: Vec<u32> = connecting.keys().copied().collect();
        for id in ids {
            let mut f = connecting.remove(&id).unwrap();
            match poll_once(f.as_mut()) {
                Poll::Ready(Ok(st)) => {
                    streams.insert(id, st);
                }
                Poll::Ready(Err(_)) => {}
                Poll::Pending => {
                    connecting.insert(id, f);
                }
            }
        }
        // 2. this step's operations
        if let Some(ops) = plan.script.get(step) {
            for op in ops {
                let obs: String = match op {
                    SOp::Install { spec, .. } => {
                        let g = install_free(spec, &sh);
                        sh.borrow_mut().guards.insert(spec.label, g);
                        "ok".into()
                    }
                    SOp::GDrop { label, .. } => {
                        let g = sh.borrow_mut().guards.remove(label);
                        match g {
                            Some(g) => {
                                drop_guard(*label, g);
                                "ok".into()
                            }
                            None => "noguard".into(),
                        }
                    }
                    SOp::Forget { label, .. } => {
                        let g = sh.borrow_mut().guards.remove(label);
                        match g {
                            Some(g) => {
                                g.forget();
                                "ok".into()
                            }
                            None => "noguard".into(),
                        }
                    }
                    SOp::USend { s, ip, port, tag, .. } => match udp.get(s) {
                        Some(sock) => match if tag % 2 == 0 {
                            sock.try_send_to(&tag_bytes(*tag), ip.sa(*port))
                        } else if tag % 4 == 1 {
                            sock.send_to(&tag_bytes(*tag), ip.sa(*port)).await
                        } else {
                            sock.send_to(&tag_bytes(*tag), ip.sa(*port).to_string()).await
                        } {
                            Ok(_) => "ok".into(),
                            Err(e) => format!("err {}", err_tok(&e)),
                        },
                        None => "noslot".into(),
                    },
                    SOp::TConnect { c, ip, port, .. } => {
                        let mut fut: Pin<Box<dyn Future<Output = std::io::Result<TcpStream>>>> =
                            Box::pin(TcpStream::connect(ip.sa(*port)));
                        match poll_once(fut.as_mut()) {
                            Poll::Ready(Ok(st)) => {
                                streams.insert(*c, st);
                                "ok".into()
                            }
                            Poll::Ready(Err(e)) => format!("err {}", err_tok(&e)),
                            Poll::Pending => {
                                connecting.insert(*c, fut);
                                "pending".into()
                            }
                        }
                    }
                    SOp::TWrite { c, n, .. } => match streams.get(c) {
                        Some(st) => match st.try_write(&vec![0x5au8; *n as usize]) {
                            Ok(k) => {
                                sh.borrow_mut().tcp_written += k as u64;
                                format!("ok {k}")
                            }
                            Err(e) => format!("err {}", err_tok(&e)),
                        },
                        None => "noslot".into(),
                    },
                    _ => "unsupported".into(),
                };
                sh.borrow_mut().oplog.push((now, op.line(), obs));
            }
        }
        tokio::time::sleep(Duration::from_micros(TICK_US)).await;
    }
    if !plan.finish {
        std::future::pending::<()>().await;
    }
}

fn is_local_to(lay: &Layout, h: usize, ip: Ip) -> bool {
    ip.is_loopback() || lay.addrs[h].contains(&ip)
}

fn run_fixture(lay: &Layout, scripts: Vec<Vec<Vec<SOp>>>, st: &mut Stats) -> Vec<String> {
    let sh: Sh = Rc::new(RefCell::new(Shared::default()));
    let nh = lay.addrs.len();
    let plan = |h: usize| HostPlan {
        h,
        script: scripts[h].clone(),
        recv: lay.recv.iter().filter(|r| r.0 == h).map(|r| (r.1, r.2, r.3)).collect(),
        lsn: lay.lsn.iter().filter(|r| r.0 == h).map(|r| (r.1, r.2, r.3)).collect(),
        total_steps: lay.steps,
        finish: h == nh - 1,
    };
    if lay.fixture == "lo" {
        if lay.steps % 2 == 0 {
            fixture::lo(host_task(plan(0), sh.clone()));
        } else {
            fixture::lo_with_config(KernelConfig::default(), host_task(plan(0), sh.clone()));
        }
    } else {
        let mut cs = match lay.steps % 3 {
            0 => ClientServer::new(),
            1 => ClientServer::with_config(KernelConfig::default()),
            _ => ClientServer::default(),
        };
        for h in 0..nh - 1 {
            let ips: Vec<std::net::IpAddr> = lay.addrs[h].iter().map(|x| x.to_ip()).collect();
            // address list forms: Vec, single address, array
            cs = if ips.len() == 1 && h % 2 == 0 {
                cs.server(ips[0], host_task(plan(h), sh.clone()))
            } else if ips.len() == 2 {
                cs.server([ips[0], ips[1]], host_task(plan(h), sh.clone()))
            } else {
                cs.server(ips, host_task(plan(h), sh.clone()))
            };
        }
        let ips: Vec<std::net::IpAddr> = lay.addrs[nh - 1].iter().map(|x| x.to_ip()).collect();
        cs.run(ips, host_task(plan(nh - 1), sh.clone()));
    }
    // leftover guards: the Net is gone, dropping them is a no-op
    sh.borrow_mut().guards.clear();

    let s = sh.borrow();
    // was rule r0 installed first and for good? then its log is the egress record
    let tap = s.oplog.iter().any(|(t, l, o)| *t == 0 && l.contains(" install r0 ") && o == "ok")
        && s.oplog.iter().any(|(_, l, _)| l.contains(" forget r0"))
        && !s.oplog.iter().any(|(_, l, _)| l.contains(" gdrop r0"));
    let mut lines = vec![lay.cfg_line()];
    for k in 0..(lay.steps as u64).saturating_sub(1) {
        let t_ops = k * TICK_US;
        let t_tick = (k + 1) * TICK_US;
        let mut derived: Vec<(usize, String)> = Vec::new();
        for (t, l, o) in s.oplog.iter().filter(|(t, _, _)| *t == t_ops) {
            let _ = t;
            lines.push(l.clone());
            lines.push(format!("OBS {o}"));
            if let Some(SOp::USend { h, s: slot, ip, port, tag }) = SOp::parse(l) {
                if o == "ok" && !is_local_to(lay, h, ip) {
                    if let Some(r) = lay.recv.iter().find(|r| r.0 == h && r.1 == slot) {
                        derived.push((h, format!("u/{}:{}/{}:{}/{}", r.2.tok(), r.3, ip.tok(), port, tag)));
                    }
                }
            }
        }
        lines.push(format!("OP ctl tick {}", k + 1));
        let ents: Vec<&RuleLog> = s.rlog.iter().filter(|e| e.t_us == t_tick).collect();
        // group the log into packets
        let mut groups: Vec<(String, Vec<String>)> = Vec::new();
        for e in &ents {
            let start_new = match groups.last() {
                None => true,
                Some((d, _)) => (tap && e.label == 0) || *d != e.desc,
            };
            if start_new {
                groups.push((e.desc.clone(), vec![]));
            }
            groups.last_mut().unwrap().1.push(format!("r{}={}", e.label, e.v.tok()));
        }
        let egress: Vec<String> = if tap {
            groups.iter().map(|g| g.0.clone()).collect()
        } else {
            derived.sort_by_key(|d| d.0);
            derived.iter().map(|d| d.1.clone()).collect()
        };
        lines.push(format!("ORA egress {}", join(&egress, " ")));
        let mut gi = 0;
        for d in &egress {
            if gi < groups.len() && groups[gi].0 == *d {
                lines.push(format!("OBS eval {} {}", d, join(&groups[gi].1, ",")));
                gi += 1;
            } else {
                lines.push(format!("OBS eval {} -", d));
            }
            st.evals += 1;
        }
        while gi < groups.len() {
            lines.push(format!("OBS eval {} {} unexpected", groups[gi].0, join(&groups[gi].1, ",")));
            gi += 1;
        }
        let mut by_sock: BTreeMap<(usize, u32), Vec<String>> = BTreeMap::new();
        for (t, h, sl, tag) in s.arrivals.iter() {
            if *t == t_tick {
                by_sock.entry((*h, *sl)).or_default().push(tag.to_string());
                st.arrivals += 1;
            }
        }
        for ((h, sl), tags) in by_sock {
            lines.push(format!("OBS arrive h{h}.s{sl}={}", tags.join(",")));
        }
    }
    // anything observed at an instant that is not a tick boundary is itself a finding
    for (t, h, sl, tag) in s.arrivals.iter() {
        if *t % TICK_US != 0 || *t == 0 || *t >= lay.steps as u64 * TICK_US {
            lines.push(format!("OBS stray arrive h{h}.s{sl}={tag} t={t}"));
        }
    }
    for e in s.rlog.iter() {
        if e.t_us % TICK_US != 0 || e.t_us == 0 {
            lines.push(format!("OBS stray eval r{} {} t={}", e.label, e.desc, e.t_us));
        }
        *st.verdicts.entry(e.v.tok().chars().next().unwrap().to_string()).or_insert(0) += 1;
    }
    lines.push(format!("ORA tcp written={} read={}", s.tcp_written, s.tcp_read));
    for x in s.xfail.iter() {
        lines.push(format!("OBS xcheck {x}"));
    }
    lines
}

// ------------------------------------------------------------------ generators

const DELAYS: &[u64] = &[0, 300, 700, 1000, 1000, 1500, 2000, 2000, 3000, 5000];

fn gen_v(rng: &mut Rng, allow_drop: bool) -> V {
    match rng.weighted(&[40, 40, if allow_drop { 20 } else { 0 }]) {
        0 => V::P,
        1 => V::D(*rng.pick(DELAYS)),
        _ => V::X,
    }
}

fn gen_spec(rng: &mut Rng, label: u32, tcp_drop: bool) -> RuleSpec {
    let n = 1 + rng.below(4);
    let table = (0..n).map(|_| gen_v(rng, true)).collect();
    let tcp = match rng.weighted(&[60, 30, if tcp_drop { 10 } else { 0 }]) {
        0 => V::P,
        1 => V::D(*rng.pick(&[0u64, 300, 1000, 1500])),
        _ => V::X,
    };
    RuleSpec { label, table, tcp }
}

fn gen_layout(rng: &mut Rng, fixture: &str) -> Layout {
    let addrs: Vec<Vec<Ip>> = if fixture == "lo" {
        vec![vec![]]
    } else {
        match rng.below(3) {
            0 => vec![vec![Ip::v4(10), Ip::v4(11)], vec![Ip::v4(20)], vec![Ip::v4(30), Ip::v6(30)]],
            1 => vec![vec![Ip::v4(10), Ip::v6(10)], vec![Ip::v4(20), Ip::v6(20)]],
            _ => vec![vec![Ip::v4(10)], vec![Ip::v6(20), Ip::v4(20)], vec![Ip::v4(30)]],
        }
    };
    let mut recv = vec![];
    let mut lsn = vec![];
    let mut slot = 1u32;
    for (h, a) in addrs.iter().enumerate() {
        for ip in a {
            recv.push((h, slot, *ip, 5000));
            slot += 1;
        }
        recv.push((h, slot, Ip::v4(1), 5000));
        slot += 1;
        if fixture == "lo" {
            recv.push((h, slot, Ip::v6(1), 5000));
            slot += 1;
            recv.push((h, slot, Ip::v4(2), 5000));
            slot += 1;
        }
        if let Some(ip) = a.first() {
            lsn.push((h, slot, *ip, 80));
            slot += 1;
        } else {
            lsn.push((h, slot, Ip::v4(1), 80));
            slot += 1;
        }
    }
    Layout { fixture: fixture.into(), addrs, recv, lsn, steps: 0 }
}

struct Gen<'a> {
    rng: &'a mut Rng,
    lay: Layout,
    next_label: u32,
    live_guards: Vec<u32>,
    next_tag: u32,
    next_conn: u32,
    conns: Vec<(usize, u32)>,
}

impl<'a> Gen<'a> {
    fn send(&mut self, h: usize) -> Option<SOp> {
        let mine: Vec<(usize, u32, Ip, u16)> = self.lay.recv.iter().filter(|r| r.0 == h).cloned().collect();
        if mine.is_empty() {
            return None;
        }
        let src = *self.rng.pick(&mine);
        // destination: mostly a receiver of the same family somewhere, sometimes nobody
        let mut dsts: Vec<(Ip, u16)> = self
            .lay
            .recv
            .iter()
            .filter(|r| r.2.v6 == src.2.v6 && (r.0 == h || !r.2.is_loopback()))
            .map(|r| (r.2, r.3))
            .collect();
        dsts.push((Ip { v6: src.2.v6, n: 90 }, 5000));
        dsts.push((dsts[0].0, 5009));
        let d = *self.rng.pick(&dsts);
        let tag = self.next_tag;
        self.next_tag += 1;
        Some(SOp::USend { h, s: src.1, ip: d.0, port: d.1, tag })
    }
}

pub fn gen_case(family: &str, rng: &mut Rng, st: &mut Stats) -> Vec<String> {
    st.cases += 1;
    let lay0 = gen_layout(rng, family);
    let nh = lay0.addrs.len();
    let mut g = Gen { rng, lay: lay0, next_label: 1, live_guards: vec![], next_tag: 1, next_conn: 1, conns: vec![] };
    if family == "wire" {
        let mut ops: Vec<SOp> = Vec::new();
        for _ in 0..g.rng.below(3) {
            let spec = gen_spec(g.rng, g.next_label, true);
            g.next_label += 1;
            ops.push(SOp::Install { h: None, spec, mode: "perm".into() });
        }
        ops.push(SOp::Enter);
        let n = 10 + g.rng.below(40);
        for _ in 0..n {
            let h = g.rng.below(nh);
            match g.rng.weighted(&[40, 12, if g.live_guards.is_empty() { 0 } else { 9 }, if g.live_guards.is_empty() { 0 } else { 3 }, 18, 6, 4, 3, 3, 2]) {
                0 => {
                    let burst = 1 + g.rng.below(3);
                    for _ in 0..burst {
                        if let Some(op) = g.send(h) {
                            ops.push(op);
                        }
                    }
                }
                1 => {
                    let spec = gen_spec(g.rng, g.next_label, true);
                    g.live_guards.push(g.next_label);
                    g.next_label += 1;
                    let (hh, mode) = if g.rng.chance(1, 2) { (None, "sguard") } else { (Some(h), "guard") };
                    ops.push(SOp::Install { h: hh, spec, mode: mode.into() });
                }
                2 => {
                    let i = g.rng.below(g.live_guards.len());
                    let label = g.live_guards.remove(i);
                    ops.push(SOp::GDrop { h: if g.rng.chance(1, 2) { None } else { Some(h) }, label });
                }
                3 => {
                    let i = g.rng.below(g.live_guards.len());
                    let label = g.live_guards.remove(i);
                    ops.push(SOp::Forget { h: None, label });
                }
                4 => {
                    ops.push(SOp::Step);
                    if g.rng.chance(1, 2) {
                        ops.push(SOp::Drain);
                    }
                }
                5 => {
                    let l = *g.rng.pick(&g.lay.lsn.clone());
                    let c = g.next_conn;
                    g.next_conn += 1;
                    g.conns.push((h, c));
                    ops.push(SOp::TConnect { h, c, ip: l.2, port: l.3 });
                }
                6 => {
                    if let Some((hh, c)) = g.conns.last().cloned() {
                        ops.push(SOp::TPoll { h: hh, c });
                    }
                }
                7 => {
                    let l = *g.rng.pick(&g.lay.lsn.clone());
                    let c = g.next_conn;
                    g.next_conn += 1;
                    g.conns.push((l.0, c));
                    ops.push(SOp::TAccept { h: l.0, l: l.1, c });
                }
                8 => {
                    if !g.conns.is_empty() {
                        let (hh, c) = *g.rng.pick(&g.conns.clone());
                        let n = *g.rng.pick(&[1u32, 100, 2000]);
                        ops.push(SOp::TWrite { h: hh, c, n });
                    }
                }
                _ => {
                    if !g.conns.is_empty() {
                        let (hh, c) = *g.rng.pick(&g.conns.clone());
                        if g.rng.chance(1, 2) {
                            ops.push(SOp::TRead { h: hh, c });
                        } else {
                            ops.push(SOp::TClose { h: hh, c });
                        }
                    }
                }
            }
        }
        for _ in 0..4 {
            ops.push(SOp::Step);
        }
        ops.push(SOp::Drain);
        for op in &ops {
            st.op(op.line().split_whitespace().nth(2).unwrap_or("?"));
        }
        let lay = g.lay.clone();
        return run_wire(&lay, &ops);
    }

    // fixture families: a script per host and step
    let active = 6 + g.rng.below(14);
    let tail = 8;
    g.lay.steps = active + tail;
    let mut scripts: Vec<Vec<Vec<SOp>>> = vec![vec![vec![]; g.lay.steps]; nh];
    let client = nh - 1;
    let tap = g.rng.chance(3, 4);
    if tap {
        scripts[client][0].push(SOp::Install { h: Some(client), spec: RuleSpec { label: 0, table: vec![V::P], tcp: V::P }, mode: "guard".into() });
        scripts[client][0].push(SOp::Forget { h: Some(client), label: 0 });
    }
    let with_tcp = tap && family == "cs" && g.rng.chance(1, 2);
    for step in 0..active {
        for h in 0..nh {
            let nops = g.rng.below(4);
            for _ in 0..nops {
                let w_inst = if step == 0 && h != client { 0 } else { 14 };
                match g.rng.weighted(&[55, w_inst, if g.live_guards.is_empty() { 0 } else { 8 }, if g.live_guards.is_empty() { 0 } else { 3 }, if with_tcp { 10 } else { 0 }]) {
                    0 => {
                        let burst = 1 + g.rng.below(4);
                        for _ in 0..burst {
                            if let Some(op) = g.send(h) {
                                scripts[h][step].push(op);
                            }
                        }
                    }
                    1 => {
                        let spec = gen_spec(g.rng, g.next_label, false);
                        g.live_guards.push(g.next_label);
                        g.next_label += 1;
                        scripts[h][step].push(SOp::Install { h: Some(h), spec, mode: "guard".into() });
                    }
                    2 => {
                        // only guards installed in an earlier step: same-step order across hosts is not scripted
                        let i = g.rng.below(g.live_guards.len());
                        let label = g.live_guards[i];
                        let installed_now = scripts.iter().any(|hs| hs[step].iter().any(|o| matches!(o, SOp::Install { spec, .. } if spec.label == label)));
                        if !installed_now {
                            g.live_guards.remove(i);
                            scripts[h][step].push(SOp::GDrop { h: Some(h), label });
                        }
                    }
                    3 => {
                        let i = g.rng.below(g.live_guards.len());
                        let label = g.live_guards[i];
                        let installed_now = scripts.iter().any(|hs| hs[step].iter().any(|o| matches!(o, SOp::Install { spec, .. } if spec.label == label)));
                        if !installed_now {
                            g.live_guards.remove(i);
                            scripts[h][step].push(SOp::Forget { h: Some(h), label });
                        }
                    }
                    _ => {
                        if h == client {
                            if g.conns.is_empty() || g.rng.chance(1, 4) {
                                let cands: Vec<_> = g.lay.lsn.iter().filter(|l| l.0 != client).cloned().collect();
                                if !cands.is_empty() {
                                    let l = *g.rng.pick(&cands);
                                    let c = g.next_conn;
                                    g.next_conn += 1;
                                    g.conns.push((h, c));
                                    scripts[h][step].push(SOp::TConnect { h, c, ip: l.2, port: l.3 });
                                }
                            } else {
                                let (hh, c) = *g.rng.pick(&g.conns.clone());
                                let n = *g.rng.pick(&[1u32, 50, 3000]);
                                scripts[hh][step].push(SOp::TWrite { h: hh, c, n });
                            }
                        }
                    }
                }
            }
        }
    }
    for hs in &scripts {
        for ops in hs {
            for op in ops {
                st.op(op.line().split_whitespace().nth(2).unwrap_or("?"));
            }
        }
    }
    let lay = g.lay.clone();
    run_fixture(&lay, scripts, st)
}

pub fn replay(family: &str, lines: &[String]) -> Vec<String> {
    let cfg = lines.iter().find(|l| l.starts_with("CFG")).cloned().unwrap_or_default();
    let lay = Layout::parse(&cfg);
    let mut st = Stats::default();
    if family == "wire" || lay.fixture == "wire" {
        let ops: Vec<SOp> = lines.iter().filter_map(|l| SOp::parse(l)).collect();
        return run_wire(&lay, &ops);
    }
    let nh = lay.addrs.len();
    let mut scripts: Vec<Vec<Vec<SOp>>> = vec![vec![vec![]; lay.steps]; nh];
    let mut step = 0usize;
    for l in lines {
        if l.starts_with("OP ctl tick") {
            step += 1;
            continue;
        }
        if let Some(op) = SOp::parse(l) {
            let h = match &op {
                SOp::Install { h, .. } | SOp::GDrop { h, .. } | SOp::Forget { h, .. } => h.unwrap_or(nh - 1),
                SOp::USend { h, .. } | SOp::TConnect { h, .. } | SOp::TWrite { h, .. } => *h,
                _ => continue,
            };
            if h < nh && step < lay.steps {
                scripts[h][step].push(op);
            }
        }
    }
    run_fixture(&lay, scripts, &mut st)
}
