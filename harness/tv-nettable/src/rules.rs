//! C19 placeholder (filled in next).
use crate::util::Rng;
#[derive(Default)]
pub struct Stats {}
impl Stats { pub fn summary(&self) -> String { String::new() } }
pub fn gen_case(_f: &str, _rng: &mut Rng, _st: &mut Stats) -> Vec<String> { vec![] }
pub fn replay(_f: &str, _lines: &[String]) -> Vec<String> { vec![] }
