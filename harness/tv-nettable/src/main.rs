//! tv-nettable: differential harness for C17 (socket table, bind, demux, fabric)
//! and C19 (rule chains, fixture scheduler) of turmoil-net.
//!
//! CLI: tv-nettable <PROP> --tier quick|thorough|search --seed <u64> --out <trace> [--cases N] [--replay <case-file>]

mod rules;
mod table;
mod util;

use std::io::Write;
use std::panic::{catch_unwind, AssertUnwindSafe};

use util::Rng;

fn panic_class(p: &Box<dyn std::any::Any + Send>) -> String {
    let msg = if let Some(s) = p.downcast_ref::<&str>() {
        s.to_string()
    } else if let Some(s) = p.downcast_ref::<String>() {
        s.clone()
    } else {
        "unknown".into()
    };
    let cls: String = msg
        .chars()
        .take(40)
        .map(|c| if c.is_ascii_alphanumeric() { c.to_ascii_lowercase() } else { '_' })
        .collect();
    cls
}

fn main() {
    let args: Vec<String> = std::env::args().collect();
    if args.len() < 2 {
        eprintln!("usage: tv-nettable <C17|C19> --tier quick|thorough|search --seed <u64> --out <file> [--cases N] [--replay <case-file>]");
        std::process::exit(2);
    }
    let prop = args[1].clone();
    let mut tier = "quick".to_string();
    let mut seed = 1u64;
    let mut outp: Option<String> = None;
    let mut replay: Option<String> = None;
    let mut cases: Option<usize> = None;
    let mut i = 2;
    while i < args.len() {
        match args[i].as_str() {
            "--tier" => {
                tier = args[i + 1].clone();
                i += 2
            }
            "--seed" => {
                seed = args[i + 1].parse().expect("seed");
                i += 2
            }
            "--out" => {
                outp = Some(args[i + 1].clone());
                i += 2
            }
            "--replay" => {
                replay = Some(args[i + 1].clone());
                i += 2
            }
            "--cases" => {
                cases = Some(args[i + 1].parse().expect("cases"));
                i += 2
            }
            other => {
                eprintln!("unknown argument {other}");
                std::process::exit(2);
            }
        }
    }
    let outp = outp.expect("--out required");
    if std::env::var("TV_PANIC_VERBOSE").is_err() { std::panic::set_hook(Box::new(|_| {})); }
    let mut w = std::io::BufWriter::new(std::fs::File::create(&outp).expect("create out"));

    if let Some(rf) = replay {
        let text = std::fs::read_to_string(&rf).expect("read replay file");
        let lines: Vec<String> = text.lines().map(|s| s.to_string()).collect();
        let family = lines
            .iter()
            .find(|l| l.starts_with("CASE"))
            .and_then(|l| l.split_whitespace().find_map(|t| t.strip_prefix("family=").map(|s| s.to_string())))
            .unwrap_or_else(|| if prop == "C17" { "table".into() } else { "wire".into() });
        table::PARTIAL.with(|p| p.borrow_mut().clear());
        let body = catch_unwind(AssertUnwindSafe(|| match prop.as_str() {
            "C17" => {
                let mut st = table::Stats::new();
                table::replay(&lines, &mut st)
            }
            _ => rules::replay(&family, &lines),
        }));
        writeln!(w, "CASE 0 family={family} seed={seed}").unwrap();
        match body {
            Ok(ls) => {
                for l in ls {
                    writeln!(w, "{l}").unwrap();
                }
            }
            Err(p) => {
                for l in table::PARTIAL.with(|x| std::mem::take(&mut *x.borrow_mut())) {
                    writeln!(w, "{l}").unwrap();
                }
                writeln!(w, "OBS panic {}", panic_class(&p)).unwrap();
            }
        }
        writeln!(w, "END").unwrap();
        return;
    }

    let n = cases.unwrap_or(match (prop.as_str(), tier.as_str()) {
        ("C17", "quick") => 300,
        ("C17", "thorough") => 6000,
        ("C17", _) => 2000,
        (_, "quick") => 600,
        (_, "thorough") => 15000,
        _ => 4000,
    });
    let mut rng = Rng::new(seed);
    let mut panics = 0usize;
    let mut fam_count: std::collections::BTreeMap<String, usize> = Default::default();
    let mut tstats = table::Stats::new();
    let mut rstats = rules::Stats::default();
    for c in 0..n {
        let case_seed = rng.next();
        let mut crng = Rng::new(case_seed);
        let family: &str = match prop.as_str() {
            "C17" => {
                // exhaustion runs are expensive: 1 per quick run, a few per thorough run
                let every = if tier == "quick" { n.max(1) } else { 400 };
                if c % every == every / 2 {
                    "exhaust"
                } else if c % 10 == 3 {
                    "tablewrap"
                } else if c % 10 == 5 || c % 10 == 9 {
                    // ephemeral range shrunk to 1..5 ports: wrap-around and exhaustion everywhere
                    "tiny"
                } else if c % 10 == 7 {
                    // abandoned handshakes in the middle of the history (finding F-C17-1 lives here)
                    "tablez"
                } else {
                    "table"
                }
            }
            _ => match c % 5 {
                0 | 1 => "wire",
                2 | 3 => "cs",
                _ => {
                    if c % 10 == 4 {
                        "lo"
                    } else {
                        "cs"
                    }
                }
            },
        };
        *fam_count.entry(family.to_string()).or_insert(0) += 1;
        table::PARTIAL.with(|p| p.borrow_mut().clear());
        let body = catch_unwind(AssertUnwindSafe(|| match family {
            "table" => table::gen_table_case(&mut crng, &mut tstats, 40, false, false),
            "tablez" => table::gen_table_case(&mut crng, &mut tstats, 40, false, true),
            "tablewrap" => table::gen_table_case(&mut crng, &mut tstats, 30, true, false),
            "exhaust" => table::gen_exhaust_case(&mut crng, &mut tstats),
            "tiny" => table::gen_tiny_case(&mut crng, &mut tstats),
            f => rules::gen_case(f, &mut crng, &mut rstats),
        }));
        writeln!(w, "CASE {c} family={family} seed={case_seed}").unwrap();
        match body {
            Ok(ls) => {
                for l in ls {
                    writeln!(w, "{l}").unwrap();
                }
            }
            Err(p) => {
                panics += 1;
                for l in table::PARTIAL.with(|x| std::mem::take(&mut *x.borrow_mut())) {
                    writeln!(w, "{l}").unwrap();
                }
                writeln!(w, "OBS panic {}", panic_class(&p)).unwrap();
            }
        }
        writeln!(w, "END").unwrap();
    }
    w.flush().unwrap();
    eprintln!("tv-nettable {prop} tier={tier} seed={seed} cases={n} panics={panics}");
    eprintln!("families: {:?}", fam_count);
    if prop == "C17" {
        eprintln!("ops: {:?}", tstats.ops);
        eprintln!("observations: {:?}", tstats.obs);
        eprintln!("entry points: {:?}", tstats.ep);
    } else {
        eprintln!("{}", rstats.summary());
    }
}
