//! PRNG, address tokens, packet canonicalisation, poll helper.

use std::future::Future;
use std::io;
use std::net::{IpAddr, Ipv4Addr, Ipv6Addr, SocketAddr};
use std::pin::Pin;
use std::task::{Context, Poll, Waker};

use turmoil_net::{Packet, Transport};

/// splitmix64
#[derive(Clone)]
pub struct Rng(pub u64);

impl Rng {
    pub fn new(seed: u64) -> Self {
        Rng(seed ^ 0x9e37_79b9_7f4a_7c15)
    }
    pub fn next(&mut self) -> u64 {
        self.0 = self.0.wrapping_add(0x9e37_79b9_7f4a_7c15);
        let mut z = self.0;
        z = (z ^ (z >> 30)).wrapping_mul(0xbf58_476d_1ce4_e5b9);
        z = (z ^ (z >> 27)).wrapping_mul(0x94d0_49bb_1331_11eb);
        z ^ (z >> 31)
    }
    pub fn below(&mut self, n: usize) -> usize {
        if n == 0 {
            0
        } else {
            (self.next() % n as u64) as usize
        }
    }
    pub fn chance(&mut self, num: u64, den: u64) -> bool {
        self.next() % den < num
    }
    pub fn pick<'a, T>(&mut self, xs: &'a [T]) -> &'a T {
        &xs[self.below(xs.len())]
    }
    pub fn weighted(&mut self, ws: &[u32]) -> usize {
        let total: u32 = ws.iter().sum();
        let mut r = (self.next() % total as u64) as u32;
        for (i, w) in ws.iter().enumerate() {
            if r < *w {
                return i;
            }
            r -= *w;
        }
        ws.len() - 1
    }
}

/// Model address token: `(v6, n)`; n=0 unspecified, 1 loopback,
/// 2 second v4 loopback (127.0.0.2), n>=10 concrete (10.0.0.n / fd00::n).
#[derive(Clone, Copy, PartialEq, Eq, Debug, PartialOrd, Ord)]
pub struct Ip {
    pub v6: bool,
    pub n: u32,
}

impl Ip {
    pub const fn v4(n: u32) -> Ip {
        Ip { v6: false, n }
    }
    pub const fn v6(n: u32) -> Ip {
        Ip { v6: true, n }
    }
    pub fn tok(&self) -> String {
        format!("{}:{}", if self.v6 { 6 } else { 4 }, self.n)
    }
    pub fn parse(s: &str) -> Option<Ip> {
        let (a, b) = s.split_once(':')?;
        let v6 = match a {
            "4" => false,
            "6" => true,
            _ => return None,
        };
        Some(Ip { v6, n: b.parse().ok()? })
    }
    pub fn to_ip(&self) -> IpAddr {
        if self.v6 {
            match self.n {
                0 => IpAddr::V6(Ipv6Addr::UNSPECIFIED),
                1 => IpAddr::V6(Ipv6Addr::LOCALHOST),
                n => IpAddr::V6(Ipv6Addr::new(0xfd00, 0, 0, 0, 0, 0, 0, n as u16)),
            }
        } else {
            match self.n {
                0 => IpAddr::V4(Ipv4Addr::UNSPECIFIED),
                1 => IpAddr::V4(Ipv4Addr::LOCALHOST),
                2 => IpAddr::V4(Ipv4Addr::new(127, 0, 0, 2)),
                n => IpAddr::V4(Ipv4Addr::new(10, 0, 0, n as u8)),
            }
        }
    }
    pub fn is_loopback(&self) -> bool {
        self.n == 1 || self.n == 2
    }
    pub fn sa(&self, port: u16) -> SocketAddr {
        SocketAddr::new(self.to_ip(), port)
    }
}

pub fn ip_tok(ip: IpAddr) -> String {
    match ip {
        IpAddr::V4(a) => {
            let o = a.octets();
            if a.is_unspecified() {
                "4:0".into()
            } else if o == [127, 0, 0, 1] {
                "4:1".into()
            } else if o == [127, 0, 0, 2] {
                "4:2".into()
            } else if o[0] == 10 && o[1] == 0 && o[2] == 0 && o[3] >= 10 {
                format!("4:{}", o[3])
            } else {
                format!("4:?{}", a)
            }
        }
        IpAddr::V6(a) => {
            let s = a.segments();
            if a.is_unspecified() {
                "6:0".into()
            } else if a.is_loopback() {
                "6:1".into()
            } else if s[0] == 0xfd00 && s[1..7].iter().all(|x| *x == 0) && s[7] >= 10 {
                format!("6:{}", s[7])
            } else {
                format!("6:?{}", a)
            }
        }
    }
}

pub fn sa_tok(sa: SocketAddr) -> String {
    format!("{}:{}", ip_tok(sa.ip()), sa.port())
}

pub fn tag_bytes(tag: u32) -> [u8; 4] {
    tag.to_be_bytes()
}

pub fn tag_of(b: &[u8]) -> u32 {
    if b.len() == 4 {
        u32::from_be_bytes([b[0], b[1], b[2], b[3]])
    } else {
        0
    }
}

fn flags_tok(f: &turmoil_net::TcpFlags) -> String {
    let mut s = String::new();
    if f.syn {
        s.push('S');
    }
    if f.ack {
        s.push('A');
    }
    if f.fin {
        s.push('F');
    }
    if f.rst {
        s.push('R');
    }
    if s.is_empty() {
        s.push('0');
    }
    s
}

/// Canonical packet descriptor.
/// UDP: `u/<src>:<sp>/<dst>:<dp>/<tag>`; TCP: `t/<src>:<sp>/<dst>:<dp>/<flags>/<len>`.
pub fn pkt_tok(p: &Packet) -> String {
    match &p.payload {
        Transport::Udp(d) => format!(
            "u/{}:{}/{}:{}/{}",
            ip_tok(p.src),
            d.src_port,
            ip_tok(p.dst),
            d.dst_port,
            tag_of(&d.payload)
        ),
        Transport::Tcp(s) => format!(
            "t/{}:{}/{}:{}/{}/{}",
            ip_tok(p.src),
            s.src_port,
            ip_tok(p.dst),
            s.dst_port,
            flags_tok(&s.flags),
            s.payload.len()
        ),
    }
}

pub fn err_tok(e: &io::Error) -> String {
    use io::ErrorKind::*;
    match e.kind() {
        NotFound => "notfound".into(),
        AlreadyExists => "alreadyexists".into(),
        AddrInUse => "addrinuse".into(),
        AddrNotAvailable => "addrnotavailable".into(),
        ConnectionRefused => "refused".into(),
        ConnectionReset => "reset".into(),
        WouldBlock => "wouldblock".into(),
        BrokenPipe => "brokenpipe".into(),
        TimedOut => "timedout".into(),
        InvalidInput => "invalidinput".into(),
        NotConnected => "notconnected".into(),
        PermissionDenied => "permissiondenied".into(),
        _ => match e.raw_os_error() {
            Some(97) => "other:eafnosupport".into(),
            Some(90) => "other:emsgsize".into(),
            _ => "other:unknown".into(),
        },
    }
}

pub fn poll_once<F: Future + ?Sized>(f: Pin<&mut F>) -> Poll<F::Output> {
    let mut cx = Context::from_waker(Waker::noop());
    f.poll(&mut cx)
}

/// Poll a future that must complete immediately (bind etc).
pub fn now_or_panic<F: Future>(f: F) -> F::Output {
    let mut f = Box::pin(f);
    match poll_once(f.as_mut()) {
        Poll::Ready(v) => v,
        Poll::Pending => panic!("future unexpectedly pending"),
    }
}

pub fn join<T: AsRef<str>>(xs: &[T], sep: &str) -> String {
    if xs.is_empty() {
        "-".into()
    } else {
        xs.iter().map(|s| s.as_ref()).collect::<Vec<_>>().join(sep)
    }
}

/// Call `$body` with `$a` bound to the socket address in one of the `ToSocketAddrs` forms the
/// shim accepts (chosen by `$sel`): SocketAddr, (IpAddr, u16), String, &str, (&str, u16),
/// (String, u16), SocketAddrV4/V6, (Ipv4Addr/Ipv6Addr, u16).
#[macro_export]
macro_rules! addr_form {
    ($sel:expr, $sa:expr, $a:ident => $body:expr) => {{
        let sa: std::net::SocketAddr = $sa;
        match ($sel) % 8 {
            0 => {
                let $a = sa;
                $body
            }
            1 => {
                let $a = (sa.ip(), sa.port());
                $body
            }
            2 => {
                let $a = sa.to_string();
                $body
            }
            3 => {
                let s_ = sa.to_string();
                let $a = s_.as_str();
                $body
            }
            4 => {
                let s_ = sa.ip().to_string();
                let $a = (s_.as_str(), sa.port());
                $body
            }
            5 => {
                let $a = (sa.ip().to_string(), sa.port());
                $body
            }
            6 => match sa {
                std::net::SocketAddr::V4(v) => {
                    let $a = v;
                    $body
                }
                std::net::SocketAddr::V6(v) => {
                    let $a = v;
                    $body
                }
            },
            _ => match sa.ip() {
                std::net::IpAddr::V4(v) => {
                    let $a = (v, sa.port());
                    $body
                }
                std::net::IpAddr::V6(v) => {
                    let $a = (v, sa.port());
                    $body
                }
            },
        }
    }};
}

/// Deterministic selector stream for choosing between equivalent API entry points.
#[derive(Clone)]
pub struct Sel(pub u64);

impl Sel {
    pub fn from_str(s: &str) -> Sel {
        let mut h = 0xcbf2_9ce4_8422_2325u64;
        for b in s.bytes() {
            h = (h ^ b as u64).wrapping_mul(0x0000_0100_0000_01b3);
        }
        Sel(h)
    }
    pub fn next(&mut self) -> usize {
        self.0 = self.0.wrapping_mul(6364136223846793005).wrapping_add(1442695040888963407);
        (self.0 >> 33) as usize
    }
}
