//! C11: `Sim::run` / `Sim::step` results for mixes of clients and hosts that finish Ok / Err / never /
//! panic at given virtual times (main future or spawned task).  Not lock-step: the softwares are plain
//! futures; the controller lines are `sw`, `run`, `stepn`, `crash`.

use std::panic::{catch_unwind, AssertUnwindSafe};
use std::time::Duration;

use crate::common::*;

#[derive(Clone, Debug)]
pub struct Sw {
    pub client: bool,
    pub at_us: u64,
    pub outcome: String, // ok | err | never | panic
    pub spawned: bool,   // the outcome happens in a spawned task; the main future then never finishes (err/panic) or finishes Ok right after (ok)
    pub leftover_us: Option<u64>, // a detached task that panics at this time — later than the main future's Ok, so it must never run
}

async fn software(sw: Sw) -> turmoil::Result {
    if let Some(t) = sw.leftover_us {
        // left behind by software that finishes Ok earlier: a finished host is not polled any more, and a
        // bounce starts from a clean runtime, so this never fires
        std::mem::forget(tokio::task::spawn_local(async move {
            tokio::time::sleep(Duration::from_micros(t)).await;
            panic!("a task of a finished incarnation was polled");
        }));
    }
    let body = {
        let sw = sw.clone();
        async move {
            if sw.outcome == "never" {
                std::future::pending::<()>().await;
            }
            tokio::time::sleep(Duration::from_micros(sw.at_us)).await;
            match sw.outcome.as_str() {
                "ok" => Ok(()),
                "err" => Err("boom".into()),
                "panic" => panic!("software panic"),
                _ => Ok(()),
            }
        }
    };
    if sw.spawned {
        let h = tokio::task::spawn_local(body);
        match sw.outcome.as_str() {
            // a spawned task's Ok is awaited; its Err / panic is not observed by the main future
            "ok" => {
                let r: turmoil::Result = h.await.map_err(|e| Box::new(e) as Box<dyn std::error::Error>)?;
                r
            }
            _ => {
                std::mem::forget(h);
                std::future::pending::<turmoil::Result>().await
            }
        }
    } else {
        body.await
    }
}

pub struct C11Cfg {
    pub tick_us: u64,
    pub duration_us: u64,
    pub random_order: bool,
    pub seed: u64,
}

pub fn cfg_line(c: &C11Cfg) -> String {
    format!(
        "CFG tick_us={} duration_us={} random_order={} rng_seed={}",
        c.tick_us, c.duration_us, c.random_order as u8, c.seed
    )
}

pub fn parse_cfg(line: &str) -> C11Cfg {
    let mut c = C11Cfg { tick_us: 1000, duration_us: 10_000, random_order: false, seed: 0 };
    for kv in line.split_whitespace().skip(1) {
        if let Some((k, v)) = kv.split_once('=') {
            match k {
                "tick_us" => c.tick_us = v.parse().unwrap(),
                "duration_us" => c.duration_us = v.parse().unwrap(),
                "random_order" => c.random_order = v == "1",
                "rng_seed" => c.seed = v.parse().unwrap(),
                _ => {}
            }
        }
    }
    c
}

/// Execute the controller lines of a C11 case (after the CFG line was logged).
pub fn execute(c: &C11Cfg, ctl: &[String]) {
    let mut b = turmoil::Builder::new();
    b.tick_duration(Duration::from_micros(c.tick_us))
        .simulation_duration(Duration::from_micros(c.duration_us))
        .epoch(std::time::UNIX_EPOCH + Duration::from_secs(1_700_000_000))
        .rng_seed(c.seed);
    if c.random_order {
        b.enable_random_order();
    }
    let mut sim = b.build();
    let mut n = 0usize;
    let mut dead = false;
    for line in ctl {
        log(format!("OP ctl {line}"));
        if dead {
            log("OBS skipped".into());
            continue;
        }
        let t: Vec<&str> = line.split_whitespace().collect();
        let obs: String = match t[0] {
            "sw" => {
                // sw <client|host> at=<us> outcome=<..> spawned=<0|1>
                let mut sw = Sw { client: t[1] == "client", at_us: 0, outcome: "ok".into(), spawned: false, leftover_us: None };
                for kv in &t[2..] {
                    if let Some((k, v)) = kv.split_once('=') {
                        match k {
                            "at" => sw.at_us = v.parse().unwrap(),
                            "outcome" => sw.outcome = v.to_string(),
                            "spawned" => sw.spawned = v == "1",
                            "leftover" => sw.leftover_us = Some(v.parse().unwrap()),
                            _ => {}
                        }
                    }
                }
                let name = format!("n{n}");
                n += 1;
                if sw.client {
                    sim.client(name.as_str(), software(sw));
                } else {
                    sim.host(name.as_str(), move || software(sw.clone()));
                }
                "ok".into()
            }
            "crash" => {
                sim.crash(format!("n{}", t[1]).as_str());
                "ok".into()
            }
            "bounce" => {
                sim.bounce(format!("n{}", t[1]).as_str());
                "ok".into()
            }
            "run" => {
                let before = sim.elapsed();
                let r = catch_unwind(AssertUnwindSafe(|| sim.run()));
                match r {
                    Ok(Ok(())) => format!("run ok steps={}", ((sim.elapsed() - before).as_micros() as u64) / c.tick_us),
                    Ok(Err(e)) => {
                        let msg = e.to_string();
                        let class = if msg.contains("without completing") { "timeout" } else { "software" };
                        // an erroring step does not bump Sim::elapsed: count the completed steps
                        format!("run err {class} steps={}", ((sim.elapsed() - before).as_micros() as u64) / c.tick_us)
                    }
                    Err(_) => {
                        dead = true;
                        "run panic".into()
                    }
                }
            }
            "stepn" => {
                let k: usize = t[1].parse().unwrap();
                let mut out = Vec::new();
                for _ in 0..k {
                    let r = catch_unwind(AssertUnwindSafe(|| sim.step()));
                    match r {
                        Ok(Ok(true)) => out.push("t".to_string()),
                        Ok(Ok(false)) => out.push("f".to_string()),
                        Ok(Err(e)) => {
                            let msg = e.to_string();
                            if msg.contains("without completing") {
                                out.push("timeout".into());
                                break;
                            }
                            // a software error is reported once; the simulation can be driven on
                            out.push("software".into());
                        }
                        Err(_) => {
                            out.push("panic".into());
                            dead = true;
                            break;
                        }
                    }
                }
                format!("stepn {}", out.join(","))
            }
            other => format!("err unknownctl:{other}"),
        };
        log(format!("OBS {obs}"));
    }
    if dead {
        // a runtime that panicked must not be dropped normally inside catch_unwind's caller
        std::mem::forget(sim);
    }
}

/// Generate one case: returns (cfg, controller lines).
pub fn generate(rng: &mut Rng, idx: usize) -> (C11Cfg, Vec<String>) {
    let tick_us = *rng.pick(&[1000u64, 2000, 3000, 10_000]);
    // durations: multiples of the tick, non-multiples, shorter than one tick
    let duration_us = match rng.below(4) {
        0 => tick_us * rng.range(1, 6),
        1 => tick_us * rng.range(1, 6) + tick_us / 2,
        2 => tick_us / 2,
        _ => tick_us * rng.range(2, 12),
    };
    let c = C11Cfg { tick_us, duration_us, random_order: rng.chance(1, 4), seed: rng.next() };
    let mut ctl = Vec::new();
    let limit_steps = duration_us / tick_us + 2;
    let times = |rng: &mut Rng| -> u64 {
        // around the duration boundary and around step boundaries, in whole milliseconds
        let base = match rng.below(5) {
            0 => 0,
            1 => (duration_us / 1000) * 1000,
            2 => ((duration_us / tick_us) * tick_us),
            3 => tick_us * rng.range(0, limit_steps),
            _ => 1000 * rng.range(0, limit_steps * tick_us / 1000 + 1),
        };
        let jitter = *rng.pick(&[0i64, 0, 1000, -1000, 2000]);
        (base as i64 + jitter).max(0) as u64
    };
    let nclients = if idx % 17 == 0 { 0 } else { rng.range(1, 3) };
    let nhosts = rng.below(3);
    let mut sws: Vec<String> = Vec::new();
    for _ in 0..nclients {
        let outcome = *rng.pick(&["ok", "ok", "ok", "err", "never", "panic"]);
        sws.push(format!("sw client at={} outcome={outcome} spawned={}", times(rng), rng.chance(1, 4) as u8));
    }
    for _ in 0..nhosts {
        let outcome = *rng.pick(&["ok", "never", "never", "err", "panic"]);
        sws.push(format!("sw host at={} outcome={outcome} spawned={}", times(rng), rng.chance(1, 4) as u8));
    }
    // shuffle registration order
    for i in (1..sws.len()).rev() {
        let j = rng.below(i as u64 + 1) as usize;
        sws.swap(i, j);
    }
    ctl.extend(sws.iter().cloned());
    if idx % 9 == 4 {
        // a host that finishes Ok early and leaves a detached task behind, is bounced after it finished,
        // and the simulation goes on: the new incarnation must not inherit the old one's tasks
        let at = tick_us * rng.range(0, 2);
        let left = at + tick_us * rng.range(2, 5) + 1000;
        ctl.push(format!("sw host at={at} outcome=ok spawned=0 leftover={left}"));
        let i = sws.len();
        ctl.push(format!("stepn {}", at / tick_us + 2));
        ctl.push(format!("bounce {i}"));
        ctl.push(format!("stepn {}", limit_steps + 6));
        return (c, ctl);
    }
    if rng.chance(1, 4) {
        // crash one of the hosts before running; sometimes restart it (its software starts afresh)
        if let Some(i) = sws.iter().position(|s| s.starts_with("sw host")) {
            ctl.push(format!("crash {i}"));
            if rng.chance(1, 2) {
                ctl.push(format!("bounce {i}"));
            }
        }
    } else if rng.chance(1, 6) {
        // bounce without a crash, after a few steps
        if let Some(i) = sws.iter().position(|s| s.starts_with("sw host") && !s.contains("at=0 ")) {
            ctl.push("stepn 1".into());
            ctl.push(format!("bounce {i}"));
        }
    }
    if rng.chance(1, 3) {
        ctl.push(format!("stepn {}", limit_steps + 3));
        if rng.chance(1, 2) {
            // keep driving the same Sim after whatever happened (an error is reported exactly once,
            // finished software is never polled again)
            ctl.push(format!("stepn {}", rng.range(1, 4)));
        }
    } else {
        ctl.push("run".into());
        if rng.chance(1, 4) {
            // after a host error `run` may be called again so that the remaining clients can finish
            ctl.push("run".into());
            ctl.push(format!("stepn {}", rng.range(1, 3)));
        }
        if rng.chance(1, 3) {
            // a client registered after an earlier run, then run again
            ctl.push(format!("sw client at={} outcome={} spawned=0", times(rng), *rng.pick(&["ok", "ok", "err", "never"])));
            if rng.chance(1, 2) {
                ctl.push("run".into());
            } else {
                // … or driven step by step: `step` must decide exactly as `run` would (a step that begins beyond the
                // duration with an unfinished client reports the timeout at once)
                ctl.push(format!("stepn {}", rng.range(1, 4)));
                if rng.chance(1, 2) {
                    ctl.push("run".into());
                }
            }
        }
    }
    (c, ctl)
}
