//! PRNG, trace log, tracing capture.

use std::cell::RefCell;
use std::collections::BTreeMap;
use std::net::{IpAddr, Ipv4Addr, Ipv6Addr, SocketAddr};

/// splitmix64 — every random choice of the harness derives from one of these.
/// percentage of a tick that the controller sleeps (real time) before every step; 0 = off
pub static SLOW_PCT: std::sync::atomic::AtomicU64 = std::sync::atomic::AtomicU64::new(0);

#[derive(Clone)]
pub struct Rng(pub u64);

impl Rng {
    pub fn new(seed: u64) -> Self {
        Rng(seed ^ 0x9E37_79B9_7F4A_7C15)
    }
    pub fn next(&mut self) -> u64 {
        self.0 = self.0.wrapping_add(0x9E37_79B9_7F4A_7C15);
        let mut z = self.0;
        z = (z ^ (z >> 30)).wrapping_mul(0xBF58_476D_1CE4_E5B9);
        z = (z ^ (z >> 27)).wrapping_mul(0x94D0_49BB_1331_11EB);
        z ^ (z >> 31)
    }
    pub fn below(&mut self, n: u64) -> u64 {
        if n == 0 {
            0
        } else {
            self.next() % n
        }
    }
    pub fn range(&mut self, lo: u64, hi: u64) -> u64 {
        lo + self.below(hi - lo + 1)
    }
    pub fn chance(&mut self, num: u64, den: u64) -> bool {
        self.below(den) < num
    }
    pub fn pick<'a, T>(&mut self, xs: &'a [T]) -> &'a T {
        &xs[self.below(xs.len() as u64) as usize]
    }
    pub fn fork(&mut self) -> Rng {
        Rng::new(self.next())
    }
}

thread_local! {
    static LOG: RefCell<Vec<String>> = const { RefCell::new(Vec::new()) };
    static ADDRS: RefCell<AddrMap> = RefCell::new(AddrMap::default());
    static SPANS: RefCell<BTreeMap<u64, String>> = const { RefCell::new(BTreeMap::new()) };
    static CAPTURE: RefCell<bool> = const { RefCell::new(false) };
}

pub fn log(line: String) {
    LOG.with(|l| l.borrow_mut().push(line));
}

pub fn take_log() -> Vec<String> {
    LOG.with(|l| std::mem::take(&mut *l.borrow_mut()))
}

pub fn peek_last_obs() -> Option<String> {
    LOG.with(|l| l.borrow().iter().rev().find(|x| x.starts_with("OBS ")).cloned())
}

/// The observation of the most recent executed op whose line starts with `prefix` (e.g. "OP h0 tcp_cpoll s2").
pub fn last_obs_of(prefix: &str) -> Option<String> {
    LOG.with(|l| {
        let l = l.borrow();
        let mut i = l.len();
        while i > 0 {
            i -= 1;
            if l[i].starts_with(prefix) {
                for j in i + 1..l.len() {
                    if l[j].starts_with("OBS ") {
                        return Some(l[j][4..].to_string());
                    }
                    if l[j].starts_with("OP h") || l[j].starts_with("OP ctl") && !l[j].starts_with("OP ctl q") {
                        break;
                    }
                }
                return None;
            }
        }
        None
    })
}

pub fn log_len() -> usize {
    LOG.with(|l| l.borrow().len())
}

pub fn set_capture(on: bool) {
    CAPTURE.with(|c| *c.borrow_mut() = on);
}

/// Mapping between real addresses and the canonical tokens of the trace.
#[derive(Default, Clone)]
pub struct AddrMap {
    pub v6: bool,
    pub hosts: Vec<IpAddr>,
    pub names: Vec<String>,
}

impl AddrMap {
    pub fn ip_of(&self, tok: &str) -> IpAddr {
        if let Some(rest) = tok.strip_prefix('h') {
            return self.hosts[rest.parse::<usize>().unwrap()];
        }
        if let Some(rest) = tok.strip_prefix("mc") {
            let j: u16 = rest.parse().unwrap();
            return if self.v6 {
                IpAddr::V6(Ipv6Addr::new(0xff0e, 0, 0, 0, 0, 0, 0, j + 1))
            } else {
                IpAddr::V4(Ipv4Addr::new(239, 0, 0, (j + 1) as u8))
            };
        }
        if let Some(rest) = tok.strip_prefix('x') {
            let k: u16 = rest.parse().unwrap();
            return if self.v6 {
                IpAddr::V6(Ipv6Addr::new(0xfd00, 0, 0, 0, 0, 0, 0, k + 1))
            } else {
                IpAddr::V4(Ipv4Addr::new(10, 9, 9, (k + 1) as u8))
            };
        }
        match (tok, self.v6) {
            ("lo", false) => IpAddr::V4(Ipv4Addr::LOCALHOST),
            ("lo", true) => IpAddr::V6(Ipv6Addr::LOCALHOST),
            ("any", false) => IpAddr::V4(Ipv4Addr::UNSPECIFIED),
            ("any", true) => IpAddr::V6(Ipv6Addr::UNSPECIFIED),
            ("bc", _) => IpAddr::V4(Ipv4Addr::BROADCAST),
            _ => panic!("bad ip token {tok}"),
        }
    }
    pub fn tok_of(&self, ip: IpAddr) -> String {
        if let Some(i) = self.hosts.iter().position(|h| *h == ip) {
            return format!("h{i}");
        }
        if ip.is_loopback() {
            return "lo".into();
        }
        if ip.is_unspecified() {
            return "any".into();
        }
        match ip {
            IpAddr::V4(v) if v.is_broadcast() => "bc".into(),
            IpAddr::V4(v) if v.is_multicast() => format!("mc{}", v.octets()[3] as u16 - 1),
            IpAddr::V6(v) if v.is_multicast() => format!("mc{}", v.segments()[7] - 1),
            IpAddr::V4(v) if v.octets()[0] == 10 => format!("x{}", v.octets()[3] as u16 - 1),
            IpAddr::V6(v) if v.segments()[0] == 0xfd00 => format!("x{}", v.segments()[7] - 1),
            other => format!("?{other}"),
        }
    }
    pub fn sock_of(&self, tok: &str) -> SocketAddr {
        let (ip, port) = tok.rsplit_once(':').expect("addr token");
        SocketAddr::new(self.ip_of(ip), port.parse().unwrap())
    }
    pub fn sock_tok(&self, a: SocketAddr) -> String {
        format!("{}:{}", self.tok_of(a.ip()), a.port())
    }
}

pub fn set_addrs(m: AddrMap) {
    ADDRS.with(|a| *a.borrow_mut() = m);
}
pub fn addrs<R>(f: impl FnOnce(&AddrMap) -> R) -> R {
    ADDRS.with(|a| f(&a.borrow()))
}
pub fn addrs_mut<R>(f: impl FnOnce(&mut AddrMap) -> R) -> R {
    ADDRS.with(|a| f(&mut a.borrow_mut()))
}

pub fn hex(bytes: &[u8]) -> String {
    if bytes.is_empty() {
        return "-".into();
    }
    let mut s = String::with_capacity(bytes.len() * 2);
    for b in bytes {
        s.push_str(&format!("{b:02x}"));
    }
    s
}

pub fn unhex(s: &str) -> Vec<u8> {
    if s == "-" {
        return Vec::new();
    }
    (0..s.len() / 2)
        .map(|i| u8::from_str_radix(&s[2 * i..2 * i + 2], 16).unwrap())
        .collect()
}

/// Canonical token of turmoil's `Display` for a `Protocol` ("TCP [0x1, 0xAB]", "TCP SYN", …).
pub fn proto_tok(s: &str) -> String {
    let s = s.trim();
    match s {
        "TCP SYN" => return "syn".into(),
        "TCP FIN" => return "fin".into(),
        "TCP RST" => return "rst".into(),
        "TCP SYN-ACK" => return "synack".into(),
        _ => {}
    }
    let (kind, rest) = match s.split_once(' ') {
        Some(x) => x,
        None => return format!("?{s}"),
    };
    let kind = match kind {
        "TCP" => "tcp",
        "UDP" => "udp",
        _ => return format!("?{s}"),
    };
    let inner = rest.trim().trim_start_matches('[').trim_end_matches(']');
    let mut out = String::new();
    for part in inner.split(',') {
        let p = part.trim();
        if p.is_empty() {
            continue;
        }
        let p = p.trim_start_matches("0x").trim_start_matches("0X");
        let v = u8::from_str_radix(p, 16).unwrap_or(0);
        out.push_str(&format!("{v:02x}"));
    }
    if out.is_empty() {
        out.push('-');
    }
    format!("{kind}:{out}")
}

/// A minimal `tracing` subscriber that turns turmoil's events into trace lines.
pub struct Capture;

#[derive(Default)]
struct Fields {
    message: String,
    src: String,
    dst: String,
    protocol: String,
    name: String,
}

impl tracing::field::Visit for Fields {
    fn record_debug(&mut self, field: &tracing::field::Field, value: &dyn std::fmt::Debug) {
        let v = format!("{value:?}");
        match field.name() {
            "message" => self.message = v,
            "src" => self.src = v,
            "dst" => self.dst = v,
            "protocol" => self.protocol = v,
            "name" => self.name = v,
            _ => {}
        }
    }
    fn record_str(&mut self, field: &tracing::field::Field, value: &str) {
        match field.name() {
            "message" => self.message = value.to_string(),
            "name" => self.name = value.to_string(),
            "protocol" => self.protocol = value.to_string(),
            _ => {}
        }
    }
}

fn addr_tok(s: &str) -> String {
    match s.parse::<SocketAddr>() {
        Ok(a) => addrs(|m| m.sock_tok(a)),
        Err(_) => format!("?{s}"),
    }
}

impl tracing::Subscriber for Capture {
    fn enabled(&self, md: &tracing::Metadata<'_>) -> bool {
        md.target() == "turmoil" || md.name() == "node"
    }
    fn new_span(&self, attrs: &tracing::span::Attributes<'_>) -> tracing::span::Id {
        static NEXT: std::sync::atomic::AtomicU64 = std::sync::atomic::AtomicU64::new(1);
        let id = NEXT.fetch_add(1, std::sync::atomic::Ordering::Relaxed);
        let mut f = Fields::default();
        attrs.record(&mut f);
        SPANS.with(|s| s.borrow_mut().insert(id, f.name));
        tracing::span::Id::from_u64(id)
    }
    fn record(&self, _: &tracing::span::Id, _: &tracing::span::Record<'_>) {}
    fn record_follows_from(&self, _: &tracing::span::Id, _: &tracing::span::Id) {}
    fn event(&self, event: &tracing::Event<'_>) {
        if !CAPTURE.with(|c| *c.borrow()) {
            return;
        }
        let mut f = Fields::default();
        event.record(&mut f);
        let kind = match f.message.as_str() {
            "Send" => "send",
            "Delivered" => "delivered",
            "Recv" => "recv",
            "Peek" => "peek",
            "Drop" => "drop",
            "Hold" => "hold",
            _ => return,
        };
        log(format!(
            "EV {kind} {} {} {}",
            addr_tok(&f.src),
            addr_tok(&f.dst),
            proto_tok(&f.protocol)
        ));
    }
    fn enter(&self, id: &tracing::span::Id) {
        if !CAPTURE.with(|c| *c.borrow()) {
            return;
        }
        let name = SPANS.with(|s| s.borrow().get(&id.into_u64()).cloned());
        if let Some(name) = name {
            let idx = addrs(|m| m.names.iter().position(|n| *n == name));
            if let Some(i) = idx {
                log(format!("TURN {i}"));
            }
        }
    }
    fn exit(&self, _: &tracing::span::Id) {}
    fn try_close(&self, id: tracing::span::Id) -> bool {
        SPANS.with(|s| s.borrow_mut().remove(&id.into_u64()));
        true
    }
}

pub fn errkind(e: &std::io::Error) -> String {
    use std::io::ErrorKind::*;
    match e.kind() {
        AddrInUse => "addrinuse".into(),
        AddrNotAvailable => "addrnotavailable".into(),
        ConnectionRefused => "refused".into(),
        ConnectionReset => "reset".into(),
        WouldBlock => "wouldblock".into(),
        BrokenPipe => "brokenpipe".into(),
        NotConnected => "notconnected".into(),
        InvalidInput => "invalidinput".into(),
        PermissionDenied => "permissiondenied".into(),
        NotFound => "notfound".into(),
        TimedOut => "timedout".into(),
        other => format!("other:{other:?}").to_lowercase(),
    }
}
