fn main() {
    let _ = turmoil::verif::drain_decisions();
    println!("ok");
}
