//! tv-sim: correspondence / oracle harness for the `turmoil` crate (area "core").
//!
//! `tv-sim <PROP> --tier quick|thorough|search --seed N --out FILE [--replay CASEFILE] [--cases N]`

mod c11;
mod common;
mod families;
mod script;

use std::io::Write;
use std::panic::{catch_unwind, AssertUnwindSafe};

use common::*;
use script::*;

pub struct Family {
    pub name: &'static str,
    pub cfg: fn(&mut Rng) -> CaseCfg,
    pub run: fn(&mut Case, &mut Rng),
}

fn run_case(n: usize, idx: usize, fam: &Family, seed: u64, out: &mut impl Write) {
    let mut rng = Rng::new(seed);
    let cfg = (fam.cfg)(&mut rng);
    log(format!("CASE {n} family={} seed={seed}", fam.name));
    set_capture(true);
    let r = catch_unwind(AssertUnwindSafe(|| {
        let mut case = Case::new(cfg);
        case.idx = idx;
        (fam.run)(&mut case, &mut rng);
    }));
    set_capture(false);
    if r.is_err() {
        for (k, v) in turmoil::verif::drain_decisions() {
            log(format!("ORA {k} {v}"));
        }
        log("OBS panic".into());
    }
    log("END".into());
    for l in take_log() {
        writeln!(out, "{l}").unwrap();
    }
}

fn replay_case(path: &str, out: &mut impl Write) {
    let text = std::fs::read_to_string(path).expect("case file");
    if text.lines().next().map(|l| l.contains("family=c11")).unwrap_or(false) {
        let mut c = c11::parse_cfg("CFG");
        let mut ctl: Vec<String> = Vec::new();
        for l in text.lines() {
            if l.starts_with("CASE ") {
                log(l.to_string());
            } else if l.starts_with("CFG ") {
                c = c11::parse_cfg(l);
                log(l.to_string());
            } else if let Some(rest) = l.strip_prefix("OP ctl ") {
                ctl.push(rest.to_string());
            }
        }
        c11::execute(&c, &ctl);
        log("END".into());
        for l in take_log() {
            writeln!(out, "{l}").unwrap();
        }
        return;
    }
    let mut cfg = CaseCfg::default();
    let mut header = "CASE 0 family=replay seed=0".to_string();
    let mut ctl: Vec<String> = Vec::new();
    for l in text.lines() {
        if l.starts_with("CASE ") {
            header = l.to_string();
        } else if l.starts_with("CFG ") {
            cfg = CaseCfg::parse(l);
        } else if let Some(rest) = l.strip_prefix("OP ctl ") {
            if !rest.starts_with("reg ") {
                ctl.push(rest.to_string());
            }
        }
    }
    let twin = header.contains("family=c01_");
    if twin {
        // a C01 case file holds several executions: take the controller lines of the first one
        let mut first: Vec<String> = Vec::new();
        for l in text.lines() {
            if l.starts_with("TWIN ") {
                break;
            }
            if let Some(rest) = l.strip_prefix("OP ctl ") {
                if !rest.starts_with("reg ") {
                    first.push(rest.to_string());
                }
            }
        }
        let cfg0 = text.lines().find(|l| l.starts_with("CFG ")).map(CaseCfg::parse).unwrap_or_default();
        writeln!(out, "{header}").unwrap();
        for (i, label) in ["", "same-process", "again-1", "again-2"].iter().enumerate() {
            if i > 0 {
                writeln!(out, "TWIN {label}").unwrap();
            }
            set_capture(true);
            let c2 = cfg0.clone();
            // the second execution runs on a "slow machine" (see c01_main)
            if i == 1 {
                common::SLOW_PCT.store(160, std::sync::atomic::Ordering::Relaxed);
            }
            let _ = catch_unwind(AssertUnwindSafe(|| {
                let mut case = Case::new(c2);
                for c in &first {
                    case.ctl(c);
                }
            }));
            common::SLOW_PCT.store(0, std::sync::atomic::Ordering::Relaxed);
            set_capture(false);
            for l in take_log() {
                writeln!(out, "{l}").unwrap();
            }
        }
        writeln!(out, "END").unwrap();
        return;
    }
    log(header);
    set_capture(true);
    let r = catch_unwind(AssertUnwindSafe(|| {
        let mut case = Case::new(cfg);
        for c in &ctl {
            case.ctl(c);
        }
    }));
    set_capture(false);
    if r.is_err() {
        for (k, v) in turmoil::verif::drain_decisions() {
            log(format!("ORA {k} {v}"));
        }
        log("OBS panic".into());
    }
    log("END".into());
    for l in take_log() {
        writeln!(out, "{l}").unwrap();
    }
}

fn main() {
    let args: Vec<String> = std::env::args().collect();
    if args.len() < 2 {
        eprintln!("usage: tv-sim <PROP> --tier T --seed N --out FILE [--replay F] [--cases N]");
        std::process::exit(2);
    }
    let prop = args[1].clone();
    let mut tier = "quick".to_string();
    let mut seed: u64 = 1;
    let mut out_path = String::new();
    let mut replay: Option<String> = None;
    let mut cases: Option<usize> = None;
    let mut i = 2;
    while i < args.len() {
        match args[i].as_str() {
            "--tier" => { tier = args[i + 1].clone(); i += 2; }
            "--seed" => { seed = args[i + 1].parse().unwrap_or(1); i += 2; }
            "--out" => { out_path = args[i + 1].clone(); i += 2; }
            "--replay" => { replay = Some(args[i + 1].clone()); i += 2; }
            "--cases" => { cases = Some(args[i + 1].parse().unwrap()); i += 2; }
            _ => { i += 1; }
        }
    }
    std::panic::set_hook(Box::new(|_| {}));
    tracing::subscriber::set_global_default(Capture).expect("subscriber");
    let file = std::fs::File::create(&out_path).expect("out file");
    let mut out = std::io::BufWriter::new(file);

    if let Some(path) = replay {
        replay_case(&path, &mut out);
        out.flush().unwrap();
        return;
    }

    if prop == "C01" {
        c01_main(&tier, seed, cases, &out_path, args.iter().any(|a| a == "--child"));
        return;
    }
    if prop == "C11" {
        let total = cases.unwrap_or(match tier.as_str() { "quick" => 1500, "search" => 6000, _ => 40000 });
        let mut master = Rng::new(seed);
        for n in 0..total {
            let s = master.next();
            let mut rng = Rng::new(s);
            let (c, ctl) = c11::generate(&mut rng, n);
            log(format!("CASE {n} family=c11 seed={s}"));
            log(c11::cfg_line(&c));
            c11::execute(&c, &ctl);
            log("END".into());
            for l in take_log() {
                writeln!(out, "{l}").unwrap();
            }
        }
        out.flush().unwrap();
        eprintln!("tv-sim C11 tier={tier} seed={seed} cases={total}");
        return;
    }
    let fams = families::families_for(&prop);
    if fams.is_empty() {
        eprintln!("no families for {prop}");
        std::process::exit(2);
    }
    let default_cases = match tier.as_str() {
        "quick" => 300,
        "search" => 3000,
        _ => 10000,
    };
    let total = cases.unwrap_or(default_cases);
    let mut master = Rng::new(seed);
    let mut hist = std::collections::BTreeMap::<&str, usize>::new();
    let mut n = 0;
    // exhaustive families first (they ignore the case budget), then random ones
    for fam in fams.iter() {
        let quota = (total / fams.len()).max(1);
        for k in 0..quota {
            let s = master.next();
            run_case(n, k, fam, s, &mut out);
            *hist.entry(fam.name).or_default() += 1;
            n += 1;
        }
    }
    out.flush().unwrap();
    eprintln!("tv-sim {prop} tier={tier} seed={seed} cases={n} families={hist:?}");
}

/// Run one case and return its trace lines (without CASE / END).
fn case_lines(idx: usize, fam: &Family, seed: u64) -> Vec<String> {
    let mut rng = Rng::new(seed);
    let cfg = (fam.cfg)(&mut rng);
    set_capture(true);
    let r = catch_unwind(AssertUnwindSafe(|| {
        let mut case = Case::new(cfg);
        case.idx = idx;
        (fam.run)(&mut case, &mut rng);
    }));
    set_capture(false);
    if r.is_err() {
        for (k, v) in turmoil::verif::drain_decisions() {
            log(format!("ORA {k} {v}"));
        }
        log("OBS panic".into());
    }
    take_log()
}

/// C01: every scenario is executed twice in this process and twice in separate OS processes;
/// the trace file holds all four executions of every case.
fn c01_main(tier: &str, seed: u64, cases: Option<usize>, out_path: &str, child: bool) {
    let fams = families::families_for("C01");
    let total = cases.unwrap_or(match tier { "quick" => 160, "search" => 600, _ => 3000 });
    let mut master = Rng::new(seed);
    let mut plan: Vec<(usize, usize, u64)> = Vec::new(); // (family index, idx, seed)
    for (fi, _) in fams.iter().enumerate() {
        for k in 0..(total / fams.len()).max(1) {
            plan.push((fi, k, master.next()));
        }
    }
    let file = std::fs::File::create(out_path).expect("out file");
    let mut out = std::io::BufWriter::new(file);
    if child {
        // child: one execution of every case
        for (n, (fi, k, s)) in plan.iter().enumerate() {
            writeln!(out, "CASE {n} family={} seed={s}", fams[*fi].name).unwrap();
            for l in case_lines(*k, &fams[*fi], *s) {
                writeln!(out, "{l}").unwrap();
            }
            writeln!(out, "END").unwrap();
        }
        out.flush().unwrap();
        return;
    }
    // two fresh processes
    let exe = std::env::current_exe().expect("exe");
    let mut child_traces: Vec<Vec<Vec<String>>> = Vec::new();
    for c in 0..2 {
        let path = format!("{out_path}.child{c}");
        let st = std::process::Command::new(&exe)
            .args(["C01", "--tier", tier, "--seed", &seed.to_string(), "--cases", &total.to_string(), "--out", &path, "--child"])
            .status()
            .expect("spawn child");
        let mut per_case: Vec<Vec<String>> = Vec::new();
        if st.success() {
            let text = std::fs::read_to_string(&path).unwrap_or_default();
            let mut cur: Vec<String> = Vec::new();
            for l in text.lines() {
                if l.starts_with("CASE ") {
                    cur = Vec::new();
                } else if l == "END" {
                    per_case.push(std::mem::take(&mut cur));
                } else {
                    cur.push(l.to_string());
                }
            }
        }
        let _ = std::fs::remove_file(&path);
        child_traces.push(per_case);
    }
    for (n, (fi, k, s)) in plan.iter().enumerate() {
        writeln!(out, "CASE {n} family={} seed={s}", fams[*fi].name).unwrap();
        for l in case_lines(*k, &fams[*fi], *s) {
            writeln!(out, "{l}").unwrap();
        }
        writeln!(out, "TWIN same-process").unwrap();
        // the fs / io_uring family repeats on a "slow machine": 1.6 ticks of real time per step
        let slow = fams[*fi].name == "c01_fs" || fams[*fi].name.starts_with("c01_hold") || n % 8 == 3;
        if slow {
            common::SLOW_PCT.store(160, std::sync::atomic::Ordering::Relaxed);
        }
        for l in case_lines(*k, &fams[*fi], *s) {
            writeln!(out, "{l}").unwrap();
        }
        common::SLOW_PCT.store(0, std::sync::atomic::Ordering::Relaxed);
        for (c, tr) in child_traces.iter().enumerate() {
            writeln!(out, "TWIN process-{c}").unwrap();
            match tr.get(n) {
                Some(ls) => {
                    for l in ls {
                        writeln!(out, "{l}").unwrap();
                    }
                }
                None => writeln!(out, "MISSING").unwrap(),
            }
        }
        writeln!(out, "END").unwrap();
    }
    out.flush().unwrap();
    eprintln!("tv-sim C01 tier={tier} seed={seed} cases={} (x4 executions)", plan.len());
}
