//! tv-sim: correspondence / oracle harness for the `turmoil` crate (area "core").
//!
//! `tv-sim <PROP> --tier quick|thorough|search --seed N --out FILE [--replay CASEFILE] [--cases N]`

mod c11;
mod common;
mod families;
mod script;

use std::io::Write;
use std::panic::{catch_unwind, AssertUnwindSafe};

use common::*;
use script::*;

pub struct Family {
    pub name: &'static str,
    pub cfg: fn(&mut Rng) -> CaseCfg,
    pub run: fn(&mut Case, &mut Rng),
}

fn run_case(n: usize, idx: usize, fam: &Family, seed: u64, out: &mut impl Write) {
    let mut rng = Rng::new(seed);
    let cfg = (fam.cfg)(&mut rng);
    log(format!("CASE {n} family={} seed={seed}", fam.name));
    set_capture(true);
    let r = catch_unwind(AssertUnwindSafe(|| {
        let mut case = Case::new(cfg);
        case.idx = idx;
        (fam.run)(&mut case, &mut rng);
    }));
    set_capture(false);
    if r.is_err() {
        for (k, v) in turmoil::verif::drain_decisions() {
            log(format!("ORA {k} {v}"));
        }
        log("OBS panic".into());
    }
    log("END".into());
    for l in take_log() {
        writeln!(out, "{l}").unwrap();
    }
}

fn replay_case(path: &str, out: &mut impl Write) {
    let text = std::fs::read_to_string(path).expect("case file");
    if text.lines().next().map(|l| l.contains("family=c11")).unwrap_or(false) {
        let mut c = c11::parse_cfg("CFG");
        let mut ctl: Vec<String> = Vec::new();
        for l in text.lines() {
            if l.starts_with("CASE ") {
                log(l.to_string());
            } else if l.starts_with("CFG ") {
                c = c11::parse_cfg(l);
                log(l.to_string());
            } else if let Some(rest) = l.strip_prefix("OP ctl ") {
                ctl.push(rest.to_string());
            }
        }
        c11::execute(&c, &ctl);
        log("END".into());
        for l in take_log() {
            writeln!(out, "{l}").unwrap();
        }
        return;
    }
    let mut cfg = CaseCfg::default();
    let mut header = "CASE 0 family=replay seed=0".to_string();
    let mut ctl: Vec<String> = Vec::new();
    for l in text.lines() {
        if l.starts_with("CASE ") {
            header = l.to_string();
        } else if l.starts_with("CFG ") {
            cfg = CaseCfg::parse(l);
        } else if let Some(rest) = l.strip_prefix("OP ctl ") {
            if !rest.starts_with("reg ") {
                ctl.push(rest.to_string());
            }
        }
    }
    log(header);
    set_capture(true);
    let r = catch_unwind(AssertUnwindSafe(|| {
        let mut case = Case::new(cfg);
        for c in &ctl {
            case.ctl(c);
        }
    }));
    set_capture(false);
    if r.is_err() {
        for (k, v) in turmoil::verif::drain_decisions() {
            log(format!("ORA {k} {v}"));
        }
        log("OBS panic".into());
    }
    log("END".into());
    for l in take_log() {
        writeln!(out, "{l}").unwrap();
    }
}

fn main() {
    let args: Vec<String> = std::env::args().collect();
    if args.len() < 2 {
        eprintln!("usage: tv-sim <PROP> --tier T --seed N --out FILE [--replay F] [--cases N]");
        std::process::exit(2);
    }
    let prop = args[1].clone();
    let mut tier = "quick".to_string();
    let mut seed: u64 = 1;
    let mut out_path = String::new();
    let mut replay: Option<String> = None;
    let mut cases: Option<usize> = None;
    let mut i = 2;
    while i < args.len() {
        match args[i].as_str() {
            "--tier" => { tier = args[i + 1].clone(); i += 2; }
            "--seed" => { seed = args[i + 1].parse().unwrap_or(1); i += 2; }
            "--out" => { out_path = args[i + 1].clone(); i += 2; }
            "--replay" => { replay = Some(args[i + 1].clone()); i += 2; }
            "--cases" => { cases = Some(args[i + 1].parse().unwrap()); i += 2; }
            _ => { i += 1; }
        }
    }
    std::panic::set_hook(Box::new(|_| {}));
    tracing::subscriber::set_global_default(Capture).expect("subscriber");
    let file = std::fs::File::create(&out_path).expect("out file");
    let mut out = std::io::BufWriter::new(file);

    if let Some(path) = replay {
        replay_case(&path, &mut out);
        out.flush().unwrap();
        return;
    }

    if prop == "C11" {
        let total = cases.unwrap_or(match tier.as_str() { "quick" => 1500, "search" => 6000, _ => 40000 });
        let mut master = Rng::new(seed);
        for n in 0..total {
            let s = master.next();
            let mut rng = Rng::new(s);
            let (c, ctl) = c11::generate(&mut rng, n);
            log(format!("CASE {n} family=c11 seed={s}"));
            log(c11::cfg_line(&c));
            c11::execute(&c, &ctl);
            log("END".into());
            for l in take_log() {
                writeln!(out, "{l}").unwrap();
            }
        }
        out.flush().unwrap();
        eprintln!("tv-sim C11 tier={tier} seed={seed} cases={total}");
        return;
    }
    let fams = families::families_for(&prop);
    if fams.is_empty() {
        eprintln!("no families for {prop}");
        std::process::exit(2);
    }
    let default_cases = match tier.as_str() {
        "quick" => 300,
        "search" => 3000,
        _ => 10000,
    };
    let total = cases.unwrap_or(default_cases);
    let mut master = Rng::new(seed);
    let mut hist = std::collections::BTreeMap::<&str, usize>::new();
    let mut n = 0;
    // exhaustive families first (they ignore the case budget), then random ones
    for fam in fams.iter() {
        let quota = (total / fams.len()).max(1);
        for k in 0..quota {
            let s = master.next();
            run_case(n, k, fam, s, &mut out);
            *hist.entry(fam.name).or_default() += 1;
            n += 1;
        }
    }
    out.flush().unwrap();
    eprintln!("tv-sim {prop} tier={tier} seed={seed} cases={n} families={hist:?}");
}
