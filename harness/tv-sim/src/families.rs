//! Scenario families per property.

use crate::common::*;
use crate::script::*;
use crate::Family;

pub fn families_for(prop: &str) -> Vec<Family> {
    if prop == "C01" {
        // every scenario family the harness has, plus the filesystem / io_uring one; each with fault knobs
        let mut v = vec![Family { name: "c01_fs", cfg: c01_fs_cfg, run: c01_fs_run }];
        v.push(Family { name: "c01_mix", cfg: c01_mix_cfg, run: mix_run });
        v.push(Family { name: "c01_udp", cfg: c01_udp_cfg, run: c09_run });
        v.push(Family { name: "c01_tcp", cfg: c01_tcp_cfg, run: c02_rand_run });
        v.push(Family { name: "c01_conn", cfg: c01_conn_cfg, run: c12_run });
        v.push(Family { name: "c01_part", cfg: c03_rand_cfg, run: c03_rand_run });
        v.push(Family { name: "c01_crash", cfg: c04_cfg, run: c04_run });
        v.push(Family { name: "c01_clock", cfg: c05_cfg, run: c05_run });
        v.push(Family { name: "c01_hold", cfg: c01_hold_cfg, run: c08_manual_run });
        v.push(Family { name: "c01_holdr", cfg: c01_hold_cfg, run: c08_rand_run });
        v.push(Family { name: "c01_gcrash", cfg: c01_gcrash_cfg, run: c01_gcrash_run });
        return v;
    }
    match prop {
        "MIX" => vec![Family { name: "mix", cfg: mix_cfg, run: mix_run }],
        "C08" => vec![
            Family { name: "c08_manual", cfg: c08_cfg, run: c08_manual_run },
            Family { name: "c08_rand", cfg: c08_cfg, run: c08_rand_run },
        ],
        "C14" => vec![Family { name: "c14", cfg: c14_cfg, run: c14_run }],
        "C15" => vec![
            Family { name: "c15_ports", cfg: c15_cfg, run: c15_ports_run },
            Family { name: "c15_dns", cfg: c15_dns_cfg, run: c15_dns_run },
        ],
        "C02" => vec![
            Family { name: "c02_perm", cfg: c02_cfg, run: c02_perm_run },
            Family { name: "c02_rand", cfg: c02_cfg, run: c02_rand_run },
            Family { name: "c02_close", cfg: c02_cfg, run: c02_close_run },
            Family { name: "c02_stale", cfg: c02_stale_cfg, run: c02_stale_run },
        ],
        "C12" => vec![Family { name: "c12", cfg: c12_cfg, run: c12_run }],
        "C09" => vec![Family { name: "c09", cfg: c09_cfg, run: c09_run }],
        "C05" => vec![Family { name: "c05", cfg: c05_cfg, run: c05_run }],
        "C04" => vec![Family { name: "c04", cfg: c04_cfg, run: c04_run }],
        "C03" => vec![
            Family { name: "c03_exh", cfg: c03_exh_cfg, run: c03_exh_run },
            Family { name: "c03_rand", cfg: c03_rand_cfg, run: c03_rand_run },
        ],
        _ => vec![],
    }
}

fn payload(rng: &mut Rng, id: u32, maxlen: u64) -> String {
    let extra = rng.below(maxlen);
    let mut v = vec![(id >> 8) as u8, id as u8];
    for i in 0..extra {
        v.push((id as u64 * 7 + i) as u8);
    }
    hex(&v)
}

fn mix_cfg(rng: &mut Rng) -> CaseCfg {
    CaseCfg {
        tick_ms: *rng.pick(&[1, 2, 5]),
        hosts: rng.range(2, 3) as usize,
        tcpcap: *rng.pick(&[1, 2, 4, 64]),
        udpcap: *rng.pick(&[1, 2, 64]),
        ephlo: 49152,
        ephhi: 49152 + rng.range(3, 8) as u16,
        v6: rng.chance(1, 4),
        minlat_ms: 0,
        maxlat_ms: *rng.pick(&[0, 3, 10]),
        fail: *rng.pick(&[0.0, 0.0, 0.3]),
        repair: *rng.pick(&[1.0, 0.5]),
        rng_seed: rng.next(),
        desc: rng.chance(1, 4),
        ..CaseCfg::default()
    }
}

/// A broad random walk over the whole op alphabet (used to validate the model).
fn mix_run(case: &mut Case, rng: &mut Rng) {
    let hosts = case.cfg.hosts;
    let steps = rng.range(10, 40);
    let mut next_id: u32 = 1;
    // slots: 0 = udp socket, 1 = listener, 2.. streams / connects
    for h in 0..hosts {
        case.ctl(&format!("q h{h} udp_bind s0 any:9000"));
        case.ctl(&format!("q h{h} tcp_bind s1 any:80"));
    }
    let mut next_slot = vec![2usize; hosts];
    for _ in 0..steps {
        let nops = rng.below(5);
        for _ in 0..nops {
            let h = rng.below(hosts as u64) as usize;
            let peer = (h + 1 + rng.below(hosts as u64 - 1) as usize) % hosts;
            let peer_tok = match rng.below(8) {
                0 => "lo".to_string(),
                1 => format!("h{h}"),
                2 => "x0".to_string(),
                _ => format!("h{peer}"),
            };
            let slot = if next_slot[h] > 2 { 2 + rng.below((next_slot[h] - 2) as u64) as usize } else { 2 };
            match rng.below(16) {
                0 | 1 => {
                    let p = payload(rng, next_id, 6);
                    next_id += 1;
                    case.ctl(&format!("q h{h} udp_send s0 {peer_tok}:9000 {p}"));
                }
                2 | 3 => case.ctl(&format!("q h{h} udp_tryrecv s0 {}", rng.range(0, 8))),
                4 => {
                    let s = next_slot[h];
                    next_slot[h] += 1;
                    let port = if rng.chance(1, 6) { 81 } else { 80 };
                    case.ctl(&format!("q h{h} tcp_connect s{s} {peer_tok}:{port}"));
                }
                5 => case.ctl(&format!("q h{h} tcp_cpoll s{slot}")),
                6 | 7 => {
                    let s = next_slot[h];
                    next_slot[h] += 1;
                    case.ctl(&format!("q h{h} tcp_accept s1 s{s}"));
                }
                8 | 9 => {
                    let p = payload(rng, next_id, 5);
                    next_id += 1;
                    let op = if rng.chance(1, 3) { "tcp_pwrite" } else { "tcp_write" };
                    case.ctl(&format!("q h{h} {op} s{slot} {p}"));
                }
                10 | 11 => {
                    let op = if rng.chance(1, 4) { "tcp_peek" } else { "tcp_read" };
                    case.ctl(&format!("q h{h} {op} s{slot} {}", rng.range(0, 6)));
                }
                12 => case.ctl(&format!("q h{h} tcp_shutdown s{slot}")),
                13 => {
                    let op = *rng.pick(&["drop", "tcp_dropr", "tcp_dropw"]);
                    case.ctl(&format!("q h{h} {op} s{slot}"));
                }
                14 => case.ctl(&format!("q h{h} count")),
                _ => case.ctl(&format!("q h{h} udp_readable s0")),
            }
        }
        if rng.chance(1, 6) && hosts >= 2 {
            let a = rng.below(hosts as u64) as usize;
            let b = (a + 1 + rng.below(hosts as u64 - 1) as usize) % hosts;
            let op = *rng.pick(&["partition", "partition1", "repair", "repair1", "hold", "release", "links"]);
            if op == "links" {
                case.ctl("links");
            } else {
                case.ctl(&format!("{op} h{a} h{b}"));
            }
        }
        if rng.chance(1, 25) {
            let h = rng.below(hosts as u64) as usize;
            case.ctl(&format!("crash h{h}"));
            if rng.chance(1, 2) {
                case.ctl("step");
            }
            case.ctl(&format!("bounce h{h}"));
            next_slot[h] = 2;
            case.ctl(&format!("q h{h} udp_bind s0 any:9000"));
            case.ctl(&format!("q h{h} tcp_bind s1 any:80"));
        }
        case.ctl("step");
    }
    case.ctl("links");
}

// ---------------------------------------------------------------------------------------------
// C03: explicit partitions

const C03_CALLS: [&str; 6] = ["partition h0 h1", "partition1 h0 h1", "partition1 h1 h0", "repair h0 h1", "repair1 h0 h1", "repair1 h1 h0"];

fn c03_exh_cfg(rng: &mut Rng) -> CaseCfg {
    let lat = *rng.pick(&[0u64, 2, 3]);
    CaseCfg {
        tick_ms: 1,
        hosts: 2,
        minlat_ms: lat,
        maxlat_ms: lat + *rng.pick(&[0u64, 0, 2]),
        fail: *rng.pick(&[0.0, 0.0, 0.3, 0.7, 1.0]),
        repair: *rng.pick(&[0.0, 0.3, 1.0]),
        rng_seed: rng.next(),
        desc: rng.chance(1, 2),
        v6: rng.chance(1, 5),
        ..CaseCfg::default()
    }
}

struct Traffic {
    next_id: u32,
}

impl Traffic {
    fn burst(&mut self, case: &mut Case, rng: &mut Rng, max_per_host: u64) {
        let hosts = case.cfg.hosts;
        for h in 0..hosts {
            if !case.running[h] {
                continue;
            }
            for _ in 0..rng.below(max_per_host + 1) {
                let peer = (h + 1 + rng.below(hosts as u64 - 1) as usize) % hosts;
                let id = self.next_id;
                self.next_id += 1;
                let p = hex(&[(id >> 8) as u8, id as u8, 0xEE]);
                case.ctl(&format!("q h{h} udp_send s0 h{peer}:9000 {p}"));
            }
        }
    }
    fn recv_all(&mut self, case: &mut Case, per_host: usize) {
        for h in 0..case.cfg.hosts {
            if !case.running[h] {
                continue;
            }
            for _ in 0..per_host {
                case.ctl(&format!("q h{h} udp_tryrecv s0 4"));
            }
        }
    }
}

fn c03_drain(case: &mut Case, tr: &mut Traffic) {
    let steps = case.cfg.maxlat_ms / case.cfg.tick_ms + 3;
    for _ in 0..steps {
        tr.recv_all(case, 6);
        case.ctl("step");
    }
    // everything matured by now: empty the receive queues completely
    let per_host = (tr.next_id as usize).min(300) + 2;
    tr.recv_all(case, per_host);
    case.ctl("step");
    case.ctl("mark drained");
}

/// Every sequence of at most three partition / repair calls on one pair, with traffic in both
/// directions before, between and after the calls (index = case.idx, 258 sequences).
fn c03_exh_run(case: &mut Case, rng: &mut Rng) {
    let mut seq: Vec<usize> = Vec::new();
    let mut k = case.idx % 258;
    if k < 6 {
        seq.push(k);
    } else if k < 42 {
        k -= 6;
        seq.push(k / 6);
        seq.push(k % 6);
    } else {
        k -= 42;
        seq.push(k / 36);
        seq.push((k / 6) % 6);
        seq.push(k % 6);
    }
    let mut tr = Traffic { next_id: 1 };
    for h in 0..2 {
        case.ctl(&format!("q h{h} udp_bind s0 any:9000"));
    }
    case.ctl("step");
    for c in seq {
        tr.burst(case, rng, 2);
        case.ctl("step");
        if rng.chance(1, 2) {
            tr.burst(case, rng, 1);
            tr.recv_all(case, 2);
            case.ctl("step");
        }
        case.ctl("links");
        case.ctl(C03_CALLS[c]);
        tr.burst(case, rng, 2);
        tr.recv_all(case, 2);
        case.ctl("step");
    }
    tr.burst(case, rng, 2);
    c03_drain(case, &mut tr);
}

fn c03_rand_cfg(rng: &mut Rng) -> CaseCfg {
    let min = *rng.pick(&[0u64, 0, 1, 4]);
    CaseCfg {
        tick_ms: *rng.pick(&[1u64, 2, 5]),
        hosts: rng.range(2, 4) as usize,
        minlat_ms: min,
        maxlat_ms: min + *rng.pick(&[0u64, 3, 10]),
        fail: *rng.pick(&[0.0, 0.0, 0.0, 0.3, 0.7, 1.0]),
        repair: *rng.pick(&[0.0, 0.3, 0.7, 1.0]),
        rng_seed: rng.next(),
        desc: rng.chance(1, 3),
        v6: rng.chance(1, 5),
        ..CaseCfg::default()
    }
}

/// Long random interleavings: calls from the Sim handle and from host code, several hosts.
fn c03_rand_run(case: &mut Case, rng: &mut Rng) {
    let hosts = case.cfg.hosts;
    let mut tr = Traffic { next_id: 1 };
    for h in 0..hosts {
        case.ctl(&format!("q h{h} udp_bind s0 any:9000"));
    }
    case.ctl("step");
    let rounds = rng.range(6, 30);
    for _ in 0..rounds {
        tr.burst(case, rng, 2);
        if rng.chance(1, 3) {
            let a = rng.below(hosts as u64) as usize;
            let b = (a + 1 + rng.below(hosts as u64 - 1) as usize) % hosts;
            let call = *rng.pick(&["partition", "partition1", "repair", "repair1"]);
            if !case.cfg.desc && rng.chance(1, 4) {
                // host sets (regexes over node names), possibly overlapping, possibly everything
                let pickset = |rng: &mut Rng| -> String {
                    let mut v: Vec<String> = (0..hosts).filter(|_| rng.chance(2, 3)).map(|h| format!("h{h}")).collect();
                    if v.is_empty() {
                        v.push(format!("h{}", rng.below(hosts as u64)));
                    }
                    v.join(",")
                };
                let (sa, sb) = (pickset(rng), pickset(rng));
                case.ctl("links");
                case.ctl(&format!("{call}_set {sa} {sb}"));
                tr.burst(case, rng, 1);
            } else if rng.chance(1, 3) {
                // from host code, in the middle of that host's sends
                let h = rng.below(hosts as u64) as usize;
                case.ctl(&format!("q h{h} net_{call} h{a} h{b}"));
                tr.burst(case, rng, 1);
            } else {
                case.ctl("links");
                case.ctl(&format!("{call} h{a} h{b}"));
                tr.burst(case, rng, 1);
            }
        }
        tr.recv_all(case, 3);
        case.ctl("step");
    }
    c03_drain(case, &mut tr);
}

// ---------------------------------------------------------------------------------------------
// C08: hold / release / manual delivery

fn c08_cfg(rng: &mut Rng) -> CaseCfg {
    let min = *rng.pick(&[0u64, 0, 2]);
    CaseCfg {
        tick_ms: *rng.pick(&[1u64, 2]),
        hosts: rng.range(2, 4) as usize,
        minlat_ms: min,
        maxlat_ms: min + *rng.pick(&[0u64, 3]),
        rng_seed: rng.next(),
        desc: rng.chance(1, 3),
        v6: rng.chance(1, 5),
        udpcap: 512,
        ..CaseCfg::default()
    }
}

fn perms(n: usize) -> Vec<Vec<usize>> {
    if n == 0 {
        return vec![vec![]];
    }
    let mut out = Vec::new();
    for p in perms(n - 1) {
        for i in 0..=p.len() {
            let mut q = p.clone();
            q.insert(i, n - 1);
            out.push(q);
        }
    }
    out
}

/// Hold h0-h1, send k ≤ 4 datagrams (both directions), then manually deliver a subset in a chosen
/// order (all subsets × orders enumerated by case.idx), step, receive, release, drain.
fn c08_manual_run(case: &mut Case, rng: &mut Rng) {
    let hosts = case.cfg.hosts;
    let mut tr = Traffic { next_id: 1 };
    for h in 0..hosts {
        case.ctl(&format!("q h{h} udp_bind s0 any:9000"));
    }
    case.ctl("step");
    // something already in flight when the hold is imposed
    tr.burst(case, rng, 1);
    case.ctl("step");
    case.ctl("links");
    if rng.chance(1, 2) {
        case.ctl("hold h0 h1");
    } else {
        case.ctl("q h0 net_hold h1 h0");
        case.ctl("step");
    }
    let k = 1 + case.idx % 4;
    for i in 0..k {
        let (a, b) = if (case.idx / 4 + i) % 3 == 0 { (1, 0) } else { (0, 1) };
        let id = tr.next_id;
        tr.next_id += 1;
        case.ctl(&format!("q h{a} udp_send s0 h{b}:9000 {}", hex(&[(id >> 8) as u8, id as u8, 0xAA])));
    }
    if hosts > 2 {
        tr.burst(case, rng, 1);
    }
    case.ctl("step");
    tr.recv_all(case, 3);
    case.ctl("step");
    case.ctl("links");
    // choose subset + order
    let sel = case.idx / 4;
    let subset_bits = sel % (1 << k);
    let chosen: Vec<usize> = (0..k).filter(|i| subset_bits & (1 << i) != 0).collect();
    let ps = perms(chosen.len());
    let order = &ps[(sel / (1 << k)) % ps.len()];
    // indexes shift as messages leave the queue only after the next step, so raw indexes are stable here
    if chosen.len() == k && case.idx % 2 == 0 {
        // the whole queue at once
        case.ctl("deliverall h0 h1");
    } else {
        for &oi in order {
            case.ctl(&format!("deliver h0 h1 {}", chosen[oi]));
        }
    }
    case.ctl("links");
    // every third case: the release follows the manual deliveries at once, before any step or send has
    // moved the hand-delivered messages out of the queue (held messages queued behind a delivered one
    // must still be released)
    if case.idx % 3 != 1 {
        case.ctl("step");
        tr.recv_all(case, 6);
        case.ctl("step");
        case.ctl("links");
    }
    if rng.chance(1, 2) {
        case.ctl("release h0 h1");
    } else {
        case.ctl("q h1 net_release h0 h1");
    }
    c03_drain(case, &mut tr);
    case.ctl("links");
}

/// Random hold / release cycles from the Sim handle and from host code, UDP and TCP traffic.
fn c08_rand_run(case: &mut Case, rng: &mut Rng) {
    let hosts = case.cfg.hosts;
    let mut tr = Traffic { next_id: 1 };
    for h in 0..hosts {
        case.ctl(&format!("q h{h} udp_bind s0 any:9000"));
        case.ctl(&format!("q h{h} tcp_bind s1 any:80"));
    }
    case.ctl("step");
    let with_tcp = rng.chance(1, 2);
    if with_tcp {
        case.ctl("q h0 tcp_connect s2 h1:80");
    }
    let rounds = rng.range(6, 24);
    let mut held: Vec<(usize, usize)> = Vec::new();
    let mut tcp_up = false;
    for r in 0..rounds {
        tr.burst(case, rng, 2);
        if with_tcp {
            if !tcp_up {
                case.ctl("q h1 tcp_accept s1 s2");
                case.ctl("q h0 tcp_cpoll s2");
                if r > 3 {
                    tcp_up = true;
                }
            } else {
                match rng.below(4) {
                    0 => case.ctl(&format!("q h0 tcp_write s2 {}", hex(&[r as u8, 1, 2]))),
                    1 => case.ctl("q h1 tcp_read s2 8"),
                    2 => case.ctl(&format!("q h1 tcp_write s2 {}", hex(&[r as u8, 9]))),
                    _ => case.ctl("q h0 tcp_read s2 8"),
                }
            }
        }
        if !case.cfg.desc && rng.chance(1, 8) {
            // host sets (regexes over node names), possibly overlapping: every pair of distinct hosts
            let mut pick = |rng: &mut Rng| -> Vec<usize> {
                let mut v: Vec<usize> = (0..hosts).filter(|_| rng.chance(2, 3)).collect();
                if v.is_empty() {
                    v.push(rng.below(hosts as u64) as usize);
                }
                v
            };
            let (sa, sb) = (pick(rng), pick(rng));
            let txt = |v: &Vec<usize>| v.iter().map(|h| format!("h{h}")).collect::<Vec<_>>().join(",");
            let hold = rng.chance(1, 2);
            case.ctl("links");
            case.ctl(&format!("{}_set {} {}", if hold { "hold" } else { "release" }, txt(&sa), txt(&sb)));
            for &a in &sa {
                for &b in &sb {
                    if a != b {
                        let key = (a.min(b), a.max(b));
                        held.retain(|k| *k != key);
                        if hold {
                            held.push(key);
                        }
                    }
                }
            }
        } else if rng.chance(1, 3) {
            let a = rng.below(hosts as u64) as usize;
            let b = (a + 1 + rng.below(hosts as u64 - 1) as usize) % hosts;
            let key = (a.min(b), a.max(b));
            let is_held = held.contains(&key);
            case.ctl("links");
            if !is_held {
                if rng.chance(1, 3) {
                    let h = rng.below(hosts as u64) as usize;
                    case.ctl(&format!("q h{h} net_hold h{a} h{b}"));
                } else {
                    case.ctl(&format!("hold h{a} h{b}"));
                }
                held.push(key);
            } else {
                if rng.chance(1, 3) {
                    let h = rng.below(hosts as u64) as usize;
                    case.ctl(&format!("q h{h} net_release h{a} h{b}"));
                } else {
                    case.ctl(&format!("release h{a} h{b}"));
                }
                held.retain(|k| *k != key);
            }
        }
        tr.recv_all(case, 4);
        case.ctl("step");
        if rng.chance(1, 4) {
            case.ctl("links");
        }
    }
    for (a, b) in held.clone() {
        case.ctl(&format!("release h{a} h{b}"));
    }
    c03_drain(case, &mut tr);
    case.ctl("links");
}

// ---------------------------------------------------------------------------------------------
// C14: latency window and equal-latency FIFO

fn c14_cfg(rng: &mut Rng) -> CaseCfg {
    let min = *rng.pick(&[0u64, 0, 2, 5, 12]);
    CaseCfg {
        tick_ms: *rng.pick(&[1u64, 3, 7, 10]),
        hosts: rng.range(2, 4) as usize,
        minlat_ms: min,
        maxlat_ms: min + *rng.pick(&[0u64, 4, 15, 40]),
        rng_seed: rng.next(),
        desc: rng.chance(1, 3),
        v6: rng.chance(1, 6),
        ..CaseCfg::default()
    }
}

fn c14_run(case: &mut Case, rng: &mut Rng) {
    let hosts = case.cfg.hosts;
    let tick = case.cfg.tick_ms;
    let mut tr = Traffic { next_id: 1 };
    for h in 0..hosts {
        case.ctl(&format!("q h{h} udp_bind s0 any:9000"));
    }
    case.ctl("step");
    let rounds = rng.range(8, 30);
    let mut link_min: Vec<((usize, usize), u64)> = Vec::new();
    for _ in 0..rounds {
        if rng.chance(1, 5) {
            let a = rng.below(hosts as u64) as usize;
            let b = (a + 1 + rng.below(hosts as u64 - 1) as usize) % hosts;
            // keep max >= min on every link (max < min is a configuration error that panics)
            let key = (a.min(b), a.max(b));
            match rng.below(3) {
                0 => {
                    let v = rng.range(0, 20);
                    link_min.retain(|(k, _)| *k != key);
                    link_min.push((key, v));
                    case.ctl(&format!("setlat h{a} h{b} {v}"));
                }
                1 => {
                    let lm = link_min.iter().find(|(k, _)| *k == key).map(|(_, v)| *v);
                    let lm = match lm {
                        Some(v) => v,
                        None => {
                            link_min.push((key, case.cfg.minlat_ms));
                            case.cfg.minlat_ms
                        }
                    };
                    case.ctl(&format!("setmaxlat h{a} h{b} {}", lm + rng.range(0, 20)));
                }
                _ => case.ctl(&format!("setgmaxlat {}", case.cfg.minlat_ms + rng.range(0, 30))),
            }
        }
        if rng.chance(1, 12) {
            // the curve changes the shape of the distribution, never the range
            case.ctl(&format!("setcurve {}", *rng.pick(&["0.1", "0.8", "1.0", "3.0"])));
        }
        // receive first (phase A), then possibly move inside the window, then send a burst
        tr.recv_all(case, 10);
        for h in 0..hosts {
            if tick > 1 && rng.chance(1, 3) {
                case.ctl(&format!("q h{h} sleep {}", rng.range(1, tick - 1)));
            }
            for _ in 0..rng.below(4) {
                let peer = (h + 1 + rng.below(hosts as u64 - 1) as usize) % hosts;
                let id = tr.next_id;
                tr.next_id += 1;
                case.ctl(&format!("q h{h} udp_send s0 h{peer}:9000 {}", hex(&[(id >> 8) as u8, id as u8])));
            }
        }
        case.ctl("step");
    }
    // drain: longest configured latency is below 64 ms
    for _ in 0..(70 / tick + 3) {
        tr.recv_all(case, 10);
        case.ctl("step");
    }
    case.ctl("mark drained");
}

// ---------------------------------------------------------------------------------------------
// C15: ephemeral ports and DNS

fn c15_cfg(rng: &mut Rng) -> CaseCfg {
    let lo = 40000 + rng.below(10) as u16;
    CaseCfg {
        tick_ms: 1,
        hosts: rng.range(2, 3) as usize,
        minlat_ms: 0,
        maxlat_ms: *rng.pick(&[0u64, 2]),
        ephlo: lo,
        ephhi: lo + rng.range(2, 7) as u16,
        rng_seed: rng.next(),
        v6: rng.chance(1, 5),
        ..CaseCfg::default()
    }
}

/// bind / connect / accept / drop / crash on hosts whose ephemeral range is a handful of ports.
fn c15_ports_run(case: &mut Case, rng: &mut Rng) {
    let hosts = case.cfg.hosts;
    let lo = case.cfg.ephlo as u64;
    let hi = case.cfg.ephhi as u64;
    let n = hi - lo + 1;
    // slot 0: listener on port 80 on every host
    for h in 0..hosts {
        case.ctl(&format!("q h{h} tcp_bind s0 any:80"));
    }
    case.ctl("step");
    let mut next_slot = vec![1usize; hosts];
    let mut live: Vec<Vec<usize>> = vec![vec![]; hosts]; // slots believed to hold something
    let rounds = rng.range(10, 60);
    for _ in 0..rounds {
        let h = rng.below(hosts as u64) as usize;
        let peer = (h + 1 + rng.below(hosts as u64 - 1) as usize) % hosts;
        // keep the number of live sockets below the range most of the time
        let crowded = live[h].len() as u64 + 1 >= n;
        let choice = if crowded && !rng.chance(1, 8) { 6 + rng.below(2) } else { rng.below(9) };
        match choice {
            0 | 1 => {
                let s = next_slot[h];
                next_slot[h] += 1;
                let kind = if rng.chance(1, 2) { "udp_bind" } else { "tcp_bind" };
                let ip = if rng.chance(1, 4) { "lo" } else { "any" };
                case.ctl(&format!("q h{h} {kind} s{s} {ip}:0"));
                live[h].push(s);
            }
            2 => {
                // explicit port inside (or next to) the ephemeral range
                let s = next_slot[h];
                next_slot[h] += 1;
                let kind = if rng.chance(1, 2) { "udp_bind" } else { "tcp_bind" };
                let port = lo + rng.below(n + 1);
                case.ctl(&format!("q h{h} {kind} s{s} any:{port}"));
                live[h].push(s);
            }
            3 | 4 => {
                let s = next_slot[h];
                next_slot[h] += 1;
                // mostly to the listener; sometimes to a closed port (refused) or an unowned address
                // … or to the host itself: by its own address, or through 127.0.0.1 (accepted, refused, or given up
                // while pending — the connector's port must come back in each case)
                let dst = match rng.below(11) {
                    0 => format!("h{peer}:81"),
                    1 => "x0:80".to_string(),
                    2 => format!("h{h}:80"),
                    8 => "lo:80".to_string(),
                    9 => "lo:81".to_string(),
                    10 => format!("h{h}:81"),
                    _ => format!("h{peer}:80"),
                };
                case.ctl(&format!("q h{h} tcp_connect s{s} {dst}"));
                live[h].push(s);
                if dst.starts_with("lo:") && rng.chance(1, 3) {
                    // give up at once, before the request has been looked at
                    case.ctl(&format!("q h{h} drop s{s}"));
                    live[h].pop();
                }
                // the peer accepts now or later
                if rng.chance(2, 3) {
                    let ps = next_slot[peer];
                    next_slot[peer] += 1;
                    case.ctl("step");
                    case.ctl(&format!("q h{peer} tcp_accept s0 s{ps}"));
                    live[peer].push(ps);
                    case.ctl("step");
                    case.ctl(&format!("q h{h} tcp_cpoll s{s}"));
                }
            }
            5 => {
                if let Some(&s) = live[h].last() {
                    case.ctl(&format!("q h{h} tcp_cpoll s{s}"));
                }
            }
            6 | 7 => {
                if !live[h].is_empty() {
                    let i = rng.below(live[h].len() as u64) as usize;
                    let s = live[h].remove(i);
                    case.ctl(&format!("q h{h} drop s{s}"));
                }
            }
            _ => {
                if rng.chance(1, 4) {
                    case.ctl(&format!("crash h{h}"));
                    if rng.chance(1, 2) {
                        case.ctl("step");
                    }
                    case.ctl(&format!("bounce h{h}"));
                    live[h].clear();
                    next_slot[h] = 1;
                    case.ctl(&format!("q h{h} tcp_bind s0 any:80"));
                } else {
                    case.ctl(&format!("q h{h} count"));
                }
            }
        }
        case.ctl("step");
    }
    if rng.chance(1, 3) {
        // the range exactly full, then one port given back — the one just behind the cursor (the socket bound last),
        // or any other — and asked for again: the allocator must find it whichever it is
        let h = rng.below(hosts as u64) as usize;
        case.ctl(&format!("crash h{h}"));
        case.ctl(&format!("bounce h{h}"));
        case.ctl("step");
        for k in 0..n {
            let kind = if rng.chance(1, 2) { "udp_bind" } else { "tcp_bind" };
            case.ctl(&format!("q h{h} {kind} s{} any:0", k + 1));
        }
        case.ctl("step");
        let back = if rng.chance(1, 2) { n } else { 1 + rng.below(n) };
        case.ctl(&format!("q h{h} drop s{back}"));
        case.ctl("step");
        let kind = if rng.chance(1, 2) { "udp_bind" } else { "tcp_bind" };
        case.ctl(&format!("q h{h} {kind} s{} any:0", n + 1));
        case.ctl("step");
        case.ctl(&format!("q h{h} count"));
        case.ctl("step");
    }
}

fn c15_dns_cfg(rng: &mut Rng) -> CaseCfg {
    CaseCfg { hosts: rng.range(1, 3) as usize, v6: rng.chance(1, 2), rng_seed: rng.next(), ..CaseCfg::default() }
}

/// Register and look up a few hundred names in random orders, by name, literal address and regex.
fn c15_dns_run(case: &mut Case, rng: &mut Rng) {
    let pool = rng.range(5, 300) as usize;
    let mut known: Vec<String> = Vec::new(); // ipnums seen
    let ops = rng.range(10, 400);
    // many names at once (more than fit into one byte / one 16-bit group of the address)
    let bulk = if rng.chance(1, 3) { rng.range(200, 1200) as usize } else { 0 };
    if bulk > 0 {
        case.ctl(&format!("dnsbulk bulk- {bulk}"));
    }
    for _ in 0..ops {
        match rng.below(if bulk > 0 { 12 } else { 10 }) {
            10 | 11 => {
                // every name of the bulk keeps its own address, and the address leads back to it
                let k = rng.below(bulk as u64);
                case.ctl(&format!("dns bulk-{k}"));
                if let Some(last) = last_obs() {
                    if let Some(ip) = last.strip_prefix("OBS ok ") {
                        case.ctl(&format!("rdns {ip}"));
                    }
                }
            }
            0..=5 => {
                let k = rng.below(pool as u64);
                let prefix = *rng.pick(&["a", "b", "ab", "srv-"]);
                case.ctl(&format!("dns {prefix}{k}"));
                if let Some(last) = last_obs() {
                    if let Some(ip) = last.strip_prefix("OBS ok ") {
                        if !known.contains(&ip.to_string()) {
                            known.push(ip.to_string());
                        }
                    }
                }
            }
            6 | 7 => {
                if !known.is_empty() {
                    let ip = rng.pick(&known).clone();
                    if rng.chance(1, 2) {
                        case.ctl(&format!("rdns {ip}"));
                    } else {
                        case.ctl(&format!("dnsip {ip}"));
                    }
                }
            }
            8 => case.ctl(&format!("dnsprefix {}", *rng.pick(&["a", "b", "ab", "srv-1", "n", "zz"]))),
            _ => {
                case.ctl(&format!("q h0 lookup q{}", rng.below(20)));
                case.ctl("step");
            }
        }
    }
}

fn last_obs() -> Option<String> {
    crate::common::peek_last_obs()
}

// ---------------------------------------------------------------------------------------------
// C02: TCP byte stream

fn c02_cfg(rng: &mut Rng) -> CaseCfg {
    let min = *rng.pick(&[0u64, 0, 1]);
    CaseCfg {
        tick_ms: *rng.pick(&[1u64, 2]),
        hosts: 2,
        tcpcap: *rng.pick(&[1usize, 1, 2, 3, 5, 64]),
        minlat_ms: min,
        maxlat_ms: min + *rng.pick(&[0u64, 3, 8]),
        rng_seed: rng.next(),
        desc: rng.chance(1, 3),
        v6: rng.chance(1, 5),
        ..CaseCfg::default()
    }
}

/// Establish one connection from h0 (slot 2) to a listener on `server` (slot 2 there as well).
/// `via` selects the destination address form. Returns false if it did not come up.
fn establish(case: &mut Case, server: usize, via: &str) -> bool {
    case.ctl(&format!("q h{server} tcp_bind s1 any:80"));
    case.ctl("step");
    case.ctl(&format!("q h0 tcp_connect s2 {via}:80"));
    let slot_srv = if server == 0 { 3 } else { 2 };
    for _ in 0..(case.cfg.maxlat_ms / case.cfg.tick_ms + 4) {
        case.ctl("step");
        case.ctl(&format!("q h{server} tcp_accept s1 s{slot_srv}"));
        case.ctl("q h0 tcp_cpoll s2");
        case.ctl("step");
        let a = last_obs_of(&format!("OP h{server} tcp_accept s1 s{slot_srv}")).unwrap_or_default();
        let c = last_obs_of("OP h0 tcp_cpoll s2").unwrap_or_default();
        if a.starts_with("ok") {
            // connector may need one more poll
            if !c.starts_with("ok") {
                case.ctl("q h0 tcp_cpoll s2");
                case.ctl("step");
            }
            return true;
        }
    }
    false
}

fn c02_stale_cfg(rng: &mut Rng) -> CaseCfg {
    let mut c = c02_cfg(rng);
    // one ephemeral port: a reconnect after a reset gets the same address pair again
    c.ephlo = 45000;
    c.ephhi = 45000;
    c.tcpcap = *rng.pick(&[2usize, 3, 64]);
    c
}

/// Address-pair reuse: a connection is reset by the peer while the connector still holds its stream object; the
/// connector connects again and (one ephemeral port) gets the same address pair.  Whatever is then done with the
/// OLD stream object — a write, a shutdown, dropping it, dropping one half — must not touch the new connection:
/// the new connection's reader sees exactly what was written on it, and it stays established.
fn c02_stale_run(case: &mut Case, rng: &mut Rng) {
    let (server, via) = (1usize, "h1".to_string());
    if !establish(case, server, &via) {
        return;
    }
    case.ctl("mark established");
    let lat = case.cfg.maxlat_ms / case.cfg.tick_ms + 2;
    let mut src_old = ByteSrc { tag: 0x50, pos: 0 };
    let mut src_new = ByteSrc { tag: 0xB0, pos: 0 };
    case.ctl(&format!("q h0 tcp_write s2 {}", src_old.take(2)));
    for _ in 0..lat {
        case.ctl("step");
    }
    // the server drops the accepted stream with the bytes unread: RST
    case.ctl("q h1 drop s2");
    for _ in 0..lat + 1 {
        case.ctl("step");
    }
    if rng.chance(1, 2) {
        case.ctl(&format!("q h0 tcp_write s2 {}", src_old.take(1))); // broken pipe: the entry is gone
        case.ctl("step");
    }
    // reconnect: same local port, same pair
    case.ctl("q h0 tcp_connect s4 h1:80");
    let mut up = false;
    for _ in 0..lat + 3 {
        case.ctl("step");
        case.ctl("q h1 tcp_accept s1 s5");
        case.ctl("q h0 tcp_cpoll s4");
        case.ctl("step");
        let a = last_obs_of("OP h1 tcp_accept s1 s5").unwrap_or_default();
        if a.starts_with("ok") {
            case.ctl("q h0 tcp_cpoll s4");
            case.ctl("step");
            up = true;
            break;
        }
    }
    if !up {
        return;
    }
    case.ctl(&format!("q h0 tcp_write s4 {}", src_new.take(2)));
    case.ctl("step");
    // the old stream object acts
    match case.idx % 5 {
        0 => case.ctl(&format!("q h0 tcp_write s2 {}", src_old.take(2))),
        1 => case.ctl("q h0 drop s2"),
        2 => case.ctl("q h0 tcp_shutdown s2"),
        3 => {
            case.ctl("q h0 tcp_split s2");
            case.ctl("q h0 tcp_dropw s2");
        }
        _ => {
            case.ctl("q h0 tcp_split s2");
            case.ctl("q h0 tcp_dropr s2");
            case.ctl(&format!("q h0 tcp_pwrite s2 {}", src_old.take(2)));
        }
    }
    case.ctl("step");
    case.ctl(&format!("q h0 tcp_write s4 {}", src_new.take(2)));
    case.ctl("q h0 count");
    for _ in 0..lat + 2 {
        case.ctl("q h1 tcp_read s5 8");
        case.ctl("step");
    }
    case.ctl(&format!("q h0 tcp_write s4 {}", src_new.take(1)));
    case.ctl("q h0 tcp_shutdown s4");
    for _ in 0..lat + 2 {
        case.ctl("q h1 tcp_read s5 8");
        case.ctl("step");
    }
    case.ctl("q h1 count");
    case.ctl("mark drained");
}

struct ByteSrc {
    tag: u8,
    pos: u32,
}

impl ByteSrc {
    fn take(&mut self, n: usize) -> String {
        if n == 0 {
            return "-".into(); // the empty chunk
        }
        let mut v = Vec::new();
        for _ in 0..n {
            // position-dependent, direction-dependent content
            v.push(self.tag ^ (self.pos as u8).wrapping_mul(37).wrapping_add((self.pos >> 8) as u8));
            self.pos += 1;
        }
        hex(&v)
    }
}

/// Hold the link, write k segments and a FIN, deliver them one at a time in every order
/// (k ≤ 4, order = case.idx), reading in between; then release and read to EOF.
fn c02_perm_run(case: &mut Case, rng: &mut Rng) {
    let (server, via) = (1usize, "h1".to_string());
    if !establish(case, server, &via) {
        return;
    }
    case.ctl("mark established");
    let cap = case.cfg.tcpcap;
    let k = (1 + case.idx % 4).min(cap.max(1));
    let ps = perms(k + 1); // k data segments + FIN
    let order = ps[(case.idx / 4) % ps.len()].clone();
    case.ctl("hold h0 h1");
    let mut src = ByteSrc { tag: 0xA0, pos: 0 };
    for _ in 0..k {
        let n = rng.range(1, 4) as usize;
        case.ctl(&format!("q h0 tcp_write s2 {}", src.take(n)));
    }
    case.ctl("q h0 tcp_shutdown s2");
    case.ctl("step");
    case.ctl("links");
    // messages leave the queue one step after `deliver`, so indexes are recomputed after each step
    let mut remaining: Vec<usize> = (0..k + 1).collect();
    for &which in &order {
        let idx = remaining.iter().position(|x| *x == which).unwrap();
        remaining.remove(idx);
        case.ctl(&format!("deliver h0 h1 {idx}"));
        case.ctl("step");
        if rng.chance(1, 2) {
            let op = if rng.chance(1, 4) { "tcp_peek" } else { "tcp_read" };
            case.ctl(&format!("q h1 {op} s2 {}", rng.range(0, 5)));
        }
        case.ctl("step");
    }
    case.ctl("release h0 h1");
    for _ in 0..(case.cfg.maxlat_ms / case.cfg.tick_ms + 2 * k as u64 + 6) {
        case.ctl(&format!("q h1 tcp_read s2 {}", rng.range(1, 6)));
        case.ctl("step");
    }
    case.ctl("mark drained");
}

/// Both directions at once, random chunkings, reads, peeks, split halves, latencies that
/// reorder segments, optional hold / partition in the middle, graceful close.
fn c02_rand_run(case: &mut Case, rng: &mut Rng) {
    let (server, via) = match rng.below(6) {
        0 => (0usize, "h0".to_string()),
        1 => (0usize, "lo".to_string()),
        _ => (1usize, "h1".to_string()),
    };
    if !establish(case, server, &via) {
        return;
    }
    case.ctl("mark established");
    let (c, s, cs, ss) = (0usize, server, 2usize, if server == 0 { 3usize } else { 2usize });
    let mut src_c = ByteSrc { tag: 0x10, pos: 0 };
    let mut src_s = ByteSrc { tag: 0xC0, pos: 0 };
    let rounds = rng.range(6, 40);
    let disturb = server == 1 && rng.chance(1, 3);
    let mut partitioned = false;
    let mut c_open = true;
    let mut s_open = true;
    let mut held_until: Option<u64> = None;
    let mut repair_first = false;
    for r in 0..rounds {
        for _ in 0..rng.below(3) {
            if c_open {
                let op = if rng.chance(1, 3) { "tcp_pwrite" } else { "tcp_write" };
                // chunk sizes include 0: an empty write is accepted as `Ok(0)` and is invisible to the reader
                let n = if rng.chance(1, 7) { 0 } else { rng.range(1, 5) as usize };
                // a write that is refused (WouldBlock/Pending) must not consume bytes of the source:
                // generate, and rewind if it was not accepted
                let before = src_c.pos;
                case.ctl(&format!("q h{c} {op} s{cs} {}", src_c.take(n)));
                case.ctl("step");
                let o = last_obs_of(&format!("OP h{c} {op} s{cs}")).unwrap_or_default();
                if !o.starts_with("ok") {
                    src_c.pos = before;
                }
            }
        }
        for _ in 0..rng.below(3) {
            if s_open {
                let n = if rng.chance(1, 7) { 0 } else { rng.range(1, 5) as usize };
                let before = src_s.pos;
                case.ctl(&format!("q h{s} tcp_write s{ss} {}", src_s.take(n)));
                case.ctl("step");
                let o = last_obs_of(&format!("OP h{s} tcp_write s{ss}")).unwrap_or_default();
                if !o.starts_with("ok") {
                    src_s.pos = before;
                }
            }
        }
        for _ in 0..rng.below(3) {
            let op = if rng.chance(1, 5) { "tcp_peek" } else { "tcp_read" };
            case.ctl(&format!("q h{s} {op} s{ss} {}", *rng.pick(&[0u64, 1, 2, 3, 7, 64])));
        }
        for _ in 0..rng.below(3) {
            let op = if rng.chance(1, 5) { "tcp_peek" } else { "tcp_read" };
            case.ctl(&format!("q h{c} {op} s{cs} {}", *rng.pick(&[0u64, 1, 2, 3, 7, 64])));
        }
        if let Some(until) = held_until {
            if r >= until {
                // end of the hold: whatever was written meanwhile is parked on the link. A `repair` in between makes
                // the link healthy without releasing anything — `release` must still let everything go
                if repair_first {
                    case.ctl("repair h0 h1");
                    case.ctl("step");
                }
                case.ctl("release h0 h1");
                held_until = None;
            }
        }
        if disturb && r == rounds / 2 {
            match rng.below(6) {
                0 => {
                    case.ctl("hold h0 h1");
                    case.ctl("step");
                    case.ctl("step");
                    case.ctl("release h0 h1");
                }
                3 | 4 | 5 => {
                    // a hold that spans a few rounds of writes and reads
                    case.ctl("hold h0 h1");
                    held_until = Some(r + 1 + rng.below(3));
                    repair_first = rng.chance(1, 2);
                }
                1 => {
                    case.ctl("partition h0 h1");
                    partitioned = true;
                }
                _ => {
                    case.ctl("partition1 h0 h1");
                    partitioned = true;
                }
            }
        }
        if rng.chance(1, 6) {
            // owned halves and back: no effect on the stream
            let (h, sl) = if rng.chance(1, 2) { (c, cs) } else { (s, ss) };
            case.ctl(&format!("q h{h} {} s{sl}", if rng.chance(1, 2) { "tcp_split" } else { "tcp_reunite" }));
        }
        if c_open && rng.chance(1, 12) {
            case.ctl(&format!("q h{c} tcp_shutdown s{cs}"));
            c_open = false;
        }
        if s_open && rng.chance(1, 12) {
            case.ctl(&format!("q h{s} tcp_shutdown s{ss}"));
            s_open = false;
        }
        case.ctl("step");
    }
    if held_until.is_some() {
        if repair_first {
            case.ctl("repair h0 h1");
        }
        case.ctl("release h0 h1");
    }
    if partitioned {
        case.ctl("mark partitioned");
    }
    if c_open {
        case.ctl(&format!("q h{c} tcp_shutdown s{cs}"));
    }
    if s_open {
        // drop of the write half also closes the direction gracefully
        case.ctl(&format!("q h{s} tcp_dropw s{ss}"));
    }
    let tail = case.cfg.maxlat_ms / case.cfg.tick_ms + 2 * (src_c.pos.max(src_s.pos) as u64) + 10;
    for _ in 0..tail {
        case.ctl(&format!("q h{s} tcp_read s{ss} 64"));
        case.ctl(&format!("q h{c} tcp_read s{cs} 64"));
        case.ctl("step");
    }
    case.ctl("mark drained");
}

/// Request / response with every way of ending the connection: the client writes a request and
/// half-closes; the server reads all of it, part of it, or none of it (never up to end-of-file,
/// or up to it), answers, and goes away by drop / split drops / shutdown-then-drop, before or
/// after the client's FIN has arrived.  The client then reads to the end: after a graceful close
/// it must see the whole answer and end-of-file, never a reset.
fn c02_close_run(case: &mut Case, rng: &mut Rng) {
    let (server, via) = (1usize, "h1".to_string());
    if !establish(case, server, &via) {
        return;
    }
    case.ctl("mark established");
    let lat = case.cfg.maxlat_ms / case.cfg.tick_ms + 2;
    let cap = case.cfg.tcpcap.max(1);
    let mut src_c = ByteSrc { tag: 0x30, pos: 0 };
    let mut src_s = ByteSrc { tag: 0xE0, pos: 0 };
    // request: k segments (within the channel capacity so that none is refused), then FIN
    let k = rng.range(0, 3.min(cap as u64)) as usize;
    let mut req = 0usize;
    for _ in 0..k {
        let n = rng.range(1, 4) as usize;
        case.ctl(&format!("q h0 tcp_write s2 {}", src_c.take(n)));
        req += n;
    }
    if case.idx % 12 == 5 {
        // "any write chunking": one write around and above 64 KiB, followed by a small one; the server
        // reads it back with a large buffer
        let big = *rng.pick(&[65535usize, 65536, 65537, 70000, 100000]);
        case.ctl(&format!("q h0 tcp_write s2 {}", src_c.take(big)));
        case.ctl("step");
        case.ctl(&format!("q h0 tcp_write s2 {}", src_c.take(3)));
        case.ctl("q h0 tcp_shutdown s2");
        for _ in 0..lat + 2 {
            case.ctl("step");
        }
        for _ in 0..(k + 4) {
            case.ctl("q h1 tcp_read s2 200000");
            case.ctl("step");
        }
        case.ctl("q h1 drop s2");
        for _ in 0..lat + 2 {
            case.ctl("q h0 tcp_read s2 8");
            case.ctl("step");
        }
        case.ctl("mark drained");
        return;
    }
    let client_closes_first = rng.chance(3, 4);
    if client_closes_first {
        case.ctl("q h0 tcp_shutdown s2");
    }
    case.ctl("step");
    // does the server wait for the request (and the FIN) to arrive?
    let wait = match case.idx % 3 { 0 => lat + 1, 1 => rng.below(lat + 1), _ => 0 };
    for _ in 0..wait {
        case.ctl("step");
    }
    // how much the server reads: everything but not the end-of-file, everything and the end-of-file, or less
    let mode = (case.idx / 3) % 4;
    let mut want = match mode { 0 | 1 => req, 2 => req / 2, _ => 0 };
    let mut tries = 0;
    while want > 0 && tries < 12 {
        let n = want.min(rng.range(1, 4) as usize);
        case.ctl(&format!("q h1 tcp_read s2 {n}"));
        case.ctl("step");
        let o = last_obs_of("OP h1 tcp_read s2").unwrap_or_default();
        if let Some(hexs) = o.strip_prefix("ok ") {
            if hexs != "-" {
                want -= (hexs.len() / 2).min(want);
            }
        }
        tries += 1;
    }
    if mode == 1 {
        case.ctl("q h1 tcp_read s2 4"); // reads the end-of-file if the FIN is there
        case.ctl("step");
    }
    // the answer
    let segs = rng.range(0, 3.min(cap as u64)) as usize;
    for _ in 0..segs {
        let n = rng.range(1, 4) as usize;
        case.ctl(&format!("q h1 tcp_write s2 {}", src_s.take(n)));
    }
    // the server goes away
    match rng.below(5) {
        0 | 1 => case.ctl("q h1 drop s2"),
        2 => {
            case.ctl("q h1 tcp_dropr s2");
            case.ctl("q h1 tcp_dropw s2");
        }
        3 => {
            case.ctl("q h1 tcp_dropw s2");
            case.ctl("step");
            case.ctl("q h1 tcp_dropr s2");
        }
        _ => {
            case.ctl("q h1 tcp_shutdown s2");
            case.ctl("step");
            case.ctl("q h1 drop s2");
        }
    }
    case.ctl("step");
    if !client_closes_first {
        case.ctl("q h0 tcp_shutdown s2");
    }
    for _ in 0..(lat + 2 * segs as u64 + 6) {
        case.ctl(&format!("q h0 tcp_read s2 {}", *rng.pick(&[1u64, 3, 64])));
        case.ctl("step");
    }
    case.ctl("mark drained");
}

// ---------------------------------------------------------------------------------------------
// C12: connect / accept pairing

fn c12_cfg(rng: &mut Rng) -> CaseCfg {
    let min = *rng.pick(&[0u64, 0, 1, 3]);
    CaseCfg {
        tick_ms: 1,
        hosts: rng.range(2, 3) as usize,
        minlat_ms: min,
        maxlat_ms: min + *rng.pick(&[0u64, 4, 9]),
        rng_seed: rng.next(),
        desc: rng.chance(1, 3),
        v6: rng.chance(1, 5),
        ..CaseCfg::default()
    }
}

fn c12_run(case: &mut Case, rng: &mut Rng) {
    let hosts = case.cfg.hosts;
    // h0 is the server host; its listener lives in slot 1 (bound to any or lo)
    let bind_ip = if rng.chance(1, 4) { "lo" } else { "any" };
    case.ctl(&format!("q h0 tcp_bind s1 {bind_ip}:80"));
    case.ctl("step");
    let mut listening = true;
    let mut next_slot = vec![2usize; hosts];
    let mut pending: Vec<(usize, usize)> = Vec::new(); // (host, slot) of connects still polled
    let mut streams: Vec<(usize, usize)> = Vec::new();
    let rounds = rng.range(8, 40);
    let mut nonce: u8 = 1;
    for _ in 0..rounds {
        match rng.below(12) {
            0..=3 => {
                // a new connector, possibly several in the same step from different hosts
                for _ in 0..rng.range(1, 3) {
                    let h = rng.below(hosts as u64) as usize;
                    let s = next_slot[h];
                    next_slot[h] += 1;
                    let dst = if h == 0 {
                        (*rng.pick(&["h0:80", "lo:80", "lo:80"])).to_string()
                    } else {
                        match rng.below(10) {
                            0 => "h0:81".to_string(),
                            1 => "x0:80".to_string(),
                            _ => "h0:80".to_string(),
                        }
                    };
                    case.ctl(&format!("q h{h} tcp_connect s{s} {dst}"));
                    pending.push((h, s));
                }
            }
            4..=6 => {
                if listening {
                    let s = next_slot[0];
                    next_slot[0] += 1;
                    case.ctl(&format!("q h0 tcp_accept s1 s{s}"));
                    case.ctl("step");
                    let o = last_obs_of(&format!("OP h0 tcp_accept s1 s{s}")).unwrap_or_default();
                    if o.starts_with("ok") {
                        streams.push((0, s));
                    }
                }
            }
            7 => {
                // listener dropped, maybe re-bound later
                if listening {
                    case.ctl("q h0 drop s1");
                    listening = false;
                } else {
                    case.ctl(&format!("q h0 tcp_bind s1 {bind_ip}:80"));
                    listening = true;
                }
            }
            8 => {
                // a connector gives up
                if !pending.is_empty() {
                    let i = rng.below(pending.len() as u64) as usize;
                    let (h, s) = pending.remove(i);
                    case.ctl(&format!("q h{h} drop s{s}"));
                }
            }
            9 => {
                if hosts > 1 {
                    let b = 1 + rng.below(hosts as u64 - 1) as usize;
                    let op = *rng.pick(&["hold", "release", "partition", "repair", "partition1", "repair1"]);
                    if rng.chance(1, 2) {
                        case.ctl(&format!("{op} h{b} h0"));
                    } else {
                        case.ctl(&format!("{op} h0 h{b}"));
                    }
                }
            }
            10 => {
                // a connect whose request is cut off right behind it: the SYN is still on the link — in flight, or
                // (zero latency, the server host has already had its turn) ready but not yet handed over — when the
                // direction connector → server is explicitly partitioned; it must be refused, never accepted
                if hosts > 1 {
                    let h = 1 + rng.below(hosts as u64 - 1) as usize;
                    let s = next_slot[h];
                    next_slot[h] += 1;
                    case.ctl(&format!("q h{h} tcp_connect s{s} h0:80"));
                    case.ctl("step");
                    match rng.below(3) {
                        0 => case.ctl(&format!("partition1 h{h} h0")),
                        1 => case.ctl(&format!("partition h0 h{h}")),
                        _ => case.ctl(&format!("q h0 net_partition1 h{h} h0")),
                    }
                    pending.push((h, s));
                }
            }
            _ => {}
        }
        // poll every pending connect; successful ones write their nonce
        let mut still = Vec::new();
        for (h, s) in pending.drain(..) {
            case.ctl(&format!("q h{h} tcp_cpoll s{s}"));
            case.ctl("step");
            let o = last_obs_of(&format!("OP h{h} tcp_cpoll s{s}")).unwrap_or_default();
            if o.starts_with("ok") {
                case.ctl(&format!("q h{h} tcp_write s{s} {}", hex(&[nonce])));
                nonce = nonce.wrapping_add(1);
                streams.push((h, s));
            } else if o.starts_with("pending") {
                still.push((h, s));
            }
        }
        pending = still;
        case.ctl("step");
    }
    // heal everything, accept what is left, let refusals surface
    for b in 1..hosts {
        case.ctl(&format!("release h0 h{b}"));
        case.ctl(&format!("repair h0 h{b}"));
    }
    // … one accept per round: keep going until nobody is waiting any more (bounded: a connect that hangs for good
    // must not hang the generator — the oracle reports it at the `settled` mark)
    let mut round = 0;
    while round < case.cfg.maxlat_ms + 4 || (listening && !pending.is_empty() && round < case.cfg.maxlat_ms + 4 + 72) {
        round += 1;
        if listening {
            let s = next_slot[0];
            next_slot[0] += 1;
            case.ctl(&format!("q h0 tcp_accept s1 s{s}"));
            case.ctl("step");
            let o = last_obs_of(&format!("OP h0 tcp_accept s1 s{s}")).unwrap_or_default();
            if o.starts_with("ok") {
                streams.push((0, s));
            }
        }
        let mut still = Vec::new();
        for (h, s) in pending.drain(..) {
            case.ctl(&format!("q h{h} tcp_cpoll s{s}"));
            case.ctl("step");
            let o = last_obs_of(&format!("OP h{h} tcp_cpoll s{s}")).unwrap_or_default();
            if o.starts_with("ok") {
                streams.push((h, s));
            } else if o.starts_with("pending") {
                still.push((h, s));
            }
        }
        pending = still;
        case.ctl("step");
    }
    case.ctl("mark settled");
    // read the nonces on the accepted side, then drop every stream and count
    for (h, s) in streams.clone() {
        if h == 0 {
            case.ctl(&format!("q h0 tcp_read s{s} 4"));
        }
    }
    case.ctl("step");
    for (h, s) in pending.drain(..) {
        case.ctl(&format!("q h{h} drop s{s}"));
    }
    for (h, s) in streams {
        case.ctl(&format!("q h{h} drop s{s}"));
    }
    for _ in 0..(case.cfg.maxlat_ms + 3) {
        case.ctl("step");
    }
    for h in 0..hosts {
        case.ctl(&format!("q h{h} count"));
    }
    case.ctl("step");
    case.ctl("mark counted");
}

// ---------------------------------------------------------------------------------------------
// C09: UDP routing

fn c09_cfg(rng: &mut Rng) -> CaseCfg {
    let min = *rng.pick(&[0u64, 0, 1]);
    CaseCfg {
        tick_ms: 1,
        hosts: rng.range(2, 4) as usize,
        udpcap: *rng.pick(&[1usize, 2, 64, 64, 64]),
        minlat_ms: min,
        maxlat_ms: min + *rng.pick(&[0u64, 3, 6]),
        rng_seed: rng.next(),
        desc: rng.chance(1, 3),
        v6: rng.chance(1, 3),
        ephlo: 50000,
        ephhi: 50020,
        ..CaseCfg::default()
    }
}

fn c09_run(case: &mut Case, rng: &mut Rng) {
    let hosts = case.cfg.hosts;
    let v6 = case.cfg.v6;
    // slot 0: any:9000 everywhere; slot 1: second socket in one of several bind forms (or none)
    let mut second: Vec<Option<String>> = Vec::new();
    for h in 0..hosts {
        case.ctl(&format!("q h{h} udp_bind s0 any:9000"));
        let form = match rng.below(5) {
            0 => None,
            1 => Some("lo:9001".to_string()),
            2 => Some("any:0".to_string()),
            _ => Some("any:9001".to_string()),
        };
        if let Some(f) = &form {
            case.ctl(&format!("q h{h} udp_bind s1 {f}"));
        }
        second.push(form);
    }
    case.ctl("step");
    // the zero corner of "payload sizes": empty datagrams are datagrams.  A pair of probe sockets on
    // port 9009: an empty datagram to a remote host (and over loopback) must arrive as (0, origin).
    if rng.chance(1, 2) {
        let lat = case.cfg.maxlat_ms / case.cfg.tick_ms + 2;
        case.ctl("q h0 udp_bind s9 any:9009");
        case.ctl("q h1 udp_bind s9 any:9009");
        case.ctl("step");
        case.ctl("q h0 udp_send s9 h1:9009 -");
        case.ctl("q h1 udp_send s9 lo:9009 -");
        case.ctl(&format!("q h0 udp_send s9 h1:9009 {}", hex(&[0x7f, 0x01])));
        case.ctl("step"); // the sends happen in this step
        for _ in 0..lat + 1 {
            case.ctl("step");
        }
        for _ in 0..4 {
            case.ctl("q h1 udp_tryrecv s9 8");
        }
        case.ctl("step");
    }
    let mut next_id: u32 = 1;
    let mut alive0 = vec![true; hosts];
    let rounds = rng.range(10, 50);
    for _ in 0..rounds {
        for _ in 0..rng.range(1, 4) {
            let h = rng.below(hosts as u64) as usize;
            let peer = (h + 1 + rng.below(hosts as u64 - 1) as usize) % hosts;
            let slot = if second[h].is_some() && rng.chance(1, 3) { 1 } else { 0 };
            if slot == 0 && !alive0[h] {
                continue;
            }
            let port = if rng.chance(1, 4) { 9001 } else { 9000 };
            match rng.below(20) {
                0..=7 => {
                    let dst = match rng.below(10) {
                        0 => format!("lo:{port}"),
                        1 => format!("h{h}:{port}"),
                        2 => "x0:9000".to_string(),
                        3 => format!("h{peer}:9005"),
                        _ => format!("h{peer}:{port}"),
                    };
                    let id = next_id;
                    next_id += 1;
                    let mut v = vec![(id >> 8) as u8, id as u8];
                    for k in 0..rng.below(5) {
                        v.push((id as u8).wrapping_mul(3).wrapping_add(k as u8));
                    }
                    case.ctl(&format!("q h{h} udp_send s{slot} {dst} {}", hex(&v)));
                }
                8 | 9 => {
                    if !v6 {
                        let id = next_id;
                        next_id += 1;
                        case.ctl(&format!("q h{h} udp_send s{slot} bc:{port} {}", hex(&[(id >> 8) as u8, id as u8, 0xBC])));
                    }
                }
                10 | 11 => {
                    let id = next_id;
                    next_id += 1;
                    let g = rng.below(2);
                    case.ctl(&format!("q h{h} udp_send s{slot} mc{g}:{port} {}", hex(&[(id >> 8) as u8, id as u8, 0x3C])));
                }
                12 => case.ctl(&format!("q h{h} udp_bcast s{slot} {}", rng.below(2))),
                13 => case.ctl(&format!("q h{h} udp_mloop s{slot} {}", rng.below(2))),
                14 | 15 => {
                    let g = rng.below(2);
                    let iface = if rng.chance(1, 6) { "lo" } else { "any" };
                    case.ctl(&format!("q h{h} udp_join s{slot} mc{g} {iface}"));
                }
                16 => {
                    let g = rng.below(2);
                    case.ctl(&format!("q h{h} udp_leave s{slot} mc{g} any"));
                }
                17 => {
                    let pport = if rng.chance(1, 3) { 9001 } else { 9000 };
                    case.ctl(&format!("q h{h} udp_connect s{slot} h{peer}:{pport}"));
                }
                18 => {
                    if slot == 0 && rng.chance(1, 2) {
                        case.ctl(&format!("q h{h} drop s0"));
                        alive0[h] = false;
                    }
                }
                _ => {
                    if !alive0[h] {
                        case.ctl(&format!("q h{h} udp_bind s0 any:9000"));
                        alive0[h] = true;
                    }
                }
            }
        }
        for h in 0..hosts {
            for slot in 0..2 {
                if slot == 0 && !alive0[h] || slot == 1 && second[h].is_none() {
                    continue;
                }
                for _ in 0..rng.below(3) {
                    let n = *rng.pick(&[0u64, 1, 2, 3, 16]);
                    let op = *rng.pick(&["udp_tryrecv", "udp_tryrecv", "udp_recv", "udp_readable"]);
                    if op == "udp_readable" {
                        case.ctl(&format!("q h{h} udp_readable s{slot}"));
                    } else {
                        case.ctl(&format!("q h{h} {op} s{slot} {n}"));
                    }
                }
            }
        }
        case.ctl("step");
    }
    for _ in 0..(case.cfg.maxlat_ms + 3) {
        case.ctl("step");
    }
    for h in 0..hosts {
        for slot in 0..2 {
            if slot == 0 && !alive0[h] || slot == 1 && second[h].is_none() {
                continue;
            }
            for _ in 0..(next_id as usize + 2).min(200) {
                case.ctl(&format!("q h{h} udp_tryrecv s{slot} 16"));
            }
        }
    }
    case.ctl("step");
    case.ctl("mark drained");
}

// ---------------------------------------------------------------------------------------------
// C05: virtual clocks

fn c05_cfg(rng: &mut Rng) -> CaseCfg {
    // whole-millisecond ticks mostly; sub-millisecond / fractional ones exercise the known finding
    let tick_us = *rng.pick(&[1000u64, 3000, 5000, 7000, 10000, 250000, 1000, 2000, 500, 1500, 2500]);
    CaseCfg {
        tick_us,
        tick_ms: (tick_us / 1000).max(1),
        hosts: rng.range(1, 3) as usize,
        late: rng.below(2) as usize,
        rng_seed: rng.next(),
        ..CaseCfg::default()
    }
}

fn c05_run(case: &mut Case, rng: &mut Rng) {
    let steps = rng.range(5, 40);
    let late_at = rng.below(steps);
    let mut exited: Vec<usize> = Vec::new();
    let mut stalls = 0;
    for k in 0..steps {
        if case.cfg.late > 0 && k == late_at {
            case.ctl("reglate");
        }
        let n = case.running.len();
        for h in 0..n {
            if !case.running[h] {
                continue;
            }
            match rng.below(6) {
                0 | 1 => case.ctl(&format!("q h{h} clock")),
                2 | 3 => {
                    case.ctl(&format!("q h{h} clock"));
                    case.ctl(&format!("q h{h} sleep {}", *rng.pick(&[1u64, 1, 2, 3, 5, 8, 20])));
                    case.ctl(&format!("q h{h} clock"));
                }
                _ => {}
            }
        }
        if stalls < 2 && case.cfg.tick_us <= 5000 && rng.chance(1, 8) {
            // a slow controller: a fresh incarnation with a background task whose destructor reads the clock, one
            // step, then real time passes (more than the virtual time that incarnation has seen) before the host
            // is torn down — the destructor runs between steps and must read the step boundary
            stalls += 1;
            let h = rng.below(n as u64) as usize;
            case.ctl(&format!("bounce h{h}"));
            case.ctl(&format!("q h{h} spawn_ticker"));
            case.ctl(&format!("q h{h} clock"));
            case.ctl("step");
            case.ctl(&format!("stall {}", 2 * case.cfg.tick_us / 1000 + 2));
            case.ctl(&format!("{} h{h}", if rng.chance(1, 2) { "crash" } else { "bounce" }));
            if rng.chance(1, 2) {
                case.ctl(&format!("bounce h{h}"));
            }
        }
        if rng.chance(1, 10) {
            let h = rng.below(n as u64) as usize;
            if case.running[h] {
                case.ctl(&format!("crash h{h}"));
            } else {
                case.ctl(&format!("bounce h{h}"));
            }
        }
        if rng.chance(1, 15) {
            let h = rng.below(n as u64) as usize;
            case.ctl(&format!("bounce h{h}"));
            case.running[h] = true;
        }
        if rng.chance(1, 12) {
            // the software of a host returns (possibly after a sleep, i.e. in the middle of a later
            // step); it stays finished for a while and is bounced later
            let h = rng.below(n as u64) as usize;
            if case.running[h] {
                if rng.chance(1, 2) {
                    case.ctl(&format!("q h{h} sleep {}", *rng.pick(&[1u64, 2, 4])));
                }
                case.ctl(&format!("q h{h} exit"));
                exited.push(h);
            }
        }
        case.ctl("step");
        for h in exited.drain(..) {
            // its queue may still hold the exit if it is asleep: it will run when it wakes
            case.running[h] = false;
        }
        if rng.chance(1, 4) {
            case.ctl("simclock");
        }
    }
    // bring finished / crashed hosts back and let every sleeper wake up and report
    for h in 0..case.running.len() {
        if !case.running[h] {
            case.ctl(&format!("bounce h{h}"));
            case.running[h] = true;
        }
    }
    for _ in 0..6 {
        let n = case.running.len();
        for h in 0..n {
            if case.running[h] {
                case.ctl(&format!("q h{h} clock"));
            }
        }
        case.ctl("step");
    }
    case.ctl("simclock");
}

// ---------------------------------------------------------------------------------------------
// C04: crash / bounce

fn c04_cfg(rng: &mut Rng) -> CaseCfg {
    let min = *rng.pick(&[0u64, 0, 1]);
    CaseCfg {
        tick_ms: 1,
        hosts: rng.range(2, 3) as usize,
        minlat_ms: min,
        maxlat_ms: min + *rng.pick(&[0u64, 2]),
        rng_seed: rng.next(),
        desc: rng.chance(1, 4),
        v6: rng.chance(1, 5),
        ephlo: 45000,
        ephhi: 45010,
        tcpcap: *rng.pick(&[64usize, 64, 4, 2]),
        ..CaseCfg::default()
    }
}

/// A small workload on h0 (the victim) and its peers; h0 is crashed after `idx` steps of it
/// (every step index is a crash point), left down for a while, bounced, and probed.
fn c04_run(case: &mut Case, rng: &mut Rng) {
    let hosts = case.cfg.hosts;
    let lat = case.cfg.maxlat_ms + 2;
    let workload = case.idx % 5;
    let crash_at = (case.idx / 5) % 12;
    let mut tr = Traffic { next_id: 1 };
    let mut step_no = 0usize;
    let mut crashed = false;
    // the scripted workload, one entry per step: (host, op)
    let mut plan: Vec<Vec<(usize, String)>> = Vec::new();
    match workload {
        0 => {
            // listener with queued SYNs that are never accepted + a ticker
            plan.push(vec![(0, "tcp_bind s1 any:80".into()), (0, "spawn_ticker".into()), (0, "udp_bind s0 any:9000".into())]);
            plan.push(vec![(1, "tcp_connect s2 h0:80".into())]);
            plan.push(vec![(1, "tcp_cpoll s2".into())]);
            if hosts > 2 {
                plan.push(vec![(2, "tcp_connect s2 h0:80".into())]);
            }
            for _ in 0..8 {
                plan.push(vec![(1, "tcp_cpoll s2".into())]);
            }
        }
        1 => {
            // established stream, data flowing towards the victim which does not read it (unread data at the crash)
            plan.push(vec![(0, "tcp_bind s1 any:80".into()), (0, "spawn_ticker".into())]);
            plan.push(vec![(1, "tcp_connect s2 h0:80".into())]);
            for _ in 0..3 {
                plan.push(vec![(0, "tcp_accept s1 s2".into()), (1, "tcp_cpoll s2".into())]);
            }
            for k in 0..8u8 {
                plan.push(vec![(1, format!("tcp_write s2 {}", hex(&[k, k + 1])))]);
            }
        }
        4 => {
            // established stream, the victim fills the peer's receive queue and the peer does not read: the
            // FIN of the crash is parked behind a full queue; afterwards the peer drains by peek + read
            plan.push(vec![(0, "tcp_bind s1 any:80".into())]);
            plan.push(vec![(1, "tcp_connect s2 h0:80".into())]);
            for _ in 0..3 {
                plan.push(vec![(0, "tcp_accept s1 s2".into()), (1, "tcp_cpoll s2".into())]);
            }
            for k in 0..(case.cfg.tcpcap.min(8) as u8 + 2) {
                plan.push(vec![(0, format!("tcp_write s2 {}", hex(&[k, 0x44])))]);
            }
        }
        2 => {
            // established stream, the victim writes, the peer reads everything (no unread data on the victim)
            plan.push(vec![(0, "tcp_bind s1 any:80".into())]);
            plan.push(vec![(1, "tcp_connect s2 h0:80".into())]);
            for _ in 0..3 {
                plan.push(vec![(0, "tcp_accept s1 s2".into()), (1, "tcp_cpoll s2".into())]);
            }
            for k in 0..8u8 {
                plan.push(vec![(0, format!("tcp_write s2 {}", hex(&[k]))), (1, "tcp_read s2 8".into())]);
            }
        }
        _ => {
            // UDP sockets, multicast membership, a second host talking to the victim
            plan.push(vec![(0, "udp_bind s0 any:9000".into()), (0, "spawn_ticker".into()), (1, "udp_bind s0 any:9000".into())]);
            plan.push(vec![(0, "udp_join s0 mc0 any".into()), (1, "udp_join s0 mc0 any".into())]);
            for _ in 0..10 {
                let id = tr.next_id;
                tr.next_id += 1;
                let dst = if rng.chance(1, 3) { "mc0:9000" } else { "h0:9000" };
                plan.push(vec![(1, format!("udp_send s0 {dst} {}", hex(&[(id >> 8) as u8, id as u8]))), (0, "udp_tryrecv s0 4".into())]);
            }
        }
    }
    for ops in plan.iter() {
        if step_no == crash_at && !crashed {
            break;
        }
        for (h, op) in ops {
            case.ctl(&format!("q h{h} {op}"));
        }
        case.ctl("step");
        step_no += 1;
    }
    case.ctl("q h1 countof h0");
    case.ctl("step");
    case.ctl("isrunning h0");
    case.ctl("crash h0");
    case.ctl("isrunning h0");
    case.ctl("isrunning h1");
    crashed = true;
    let _ = crashed;
    // while it is down: peers keep going, others look at its tables, traffic keeps arriving
    let down = rng.range(0, lat + 2);
    for k in 0..down {
        case.ctl("q h1 countof h0");
        match workload {
            0 => case.ctl("q h1 tcp_cpoll s2"),
            1 => {
                case.ctl("q h1 tcp_read s2 8");
                // the peer keeps writing: with a small window it has no credit left (the victim never read)
                // and must learn from the reset that the stream is gone
                if case.idx % 2 == 0 { case.ctl("q h1 tcp_pwrite s2 7a7b") } else { case.ctl("q h1 tcp_write s2 7a7b") };
            }
            2 => case.ctl("q h1 tcp_read s2 8"),
            4 => {
                case.ctl("q h1 tcp_peek s2 8");
                case.ctl("q h1 tcp_read s2 8");
            }
            _ => {
                let id = 500 + k as u32;
                case.ctl(&format!("q h1 udp_send s0 h0:9000 {}", hex(&[(id >> 8) as u8, id as u8])));
                // the group the victim belonged to still has h1 as a member: datagrams to the group
                // (from the member itself, and from an outsider) must keep reaching it
                let id = 600 + k as u32;
                case.ctl(&format!("q h1 udp_send s0 mc0:9000 {}", hex(&[(id >> 8) as u8, id as u8])));
                if hosts > 2 {
                    let id = 700 + k as u32;
                    if k == 0 {
                        case.ctl("q h2 udp_bind s0 any:9000");
                    }
                    case.ctl(&format!("q h2 udp_send s0 mc0:9000 {}", hex(&[(id >> 8) as u8, id as u8])));
                }
                case.ctl("q h1 udp_tryrecv s0 4");
                case.ctl("q h1 udp_tryrecv s0 4");
            }
        }
        if workload == 0 && hosts > 2 {
            case.ctl("q h2 tcp_cpoll s2");
        }
        if k == 0 && rng.chance(1, 3) {
            // a connection attempt while the host is down
            case.ctl("q h1 tcp_connect s5 h0:80");
        }
        case.ctl("step");
    }
    if rng.chance(1, 6) {
        case.ctl("crash h0"); // crashing a crashed host is a no-op
    }
    case.ctl("bounce h0");
    case.ctl("isrunning h0");
    if workload == 3 {
        case.ctl(&format!("q h1 udp_send s0 mc0:9000 {}", hex(&[0x03, 0x20])));
    }
    // the new incarnation binds the same ports again
    case.ctl("q h0 udp_bind s0 any:9000");
    case.ctl("q h0 tcp_bind s1 any:80");
    case.ctl("q h0 count");
    case.ctl("step");
    for _ in 0..(lat + 3) {
        case.ctl("q h0 udp_tryrecv s0 4");
        case.ctl("q h0 tcp_accept s1 s9");
        match workload {
            0 => case.ctl("q h1 tcp_cpoll s2"),
            1 => {
                case.ctl("q h1 tcp_read s2 8");
                if case.idx % 2 == 0 { case.ctl("q h1 tcp_pwrite s2 7c7d") } else { case.ctl("q h1 tcp_write s2 7c7d") };
            }
            2 => case.ctl("q h1 tcp_read s2 8"),
            4 => {
                case.ctl("q h1 tcp_peek s2 8");
                case.ctl("q h1 tcp_read s2 8");
                case.ctl("q h1 tcp_peek s2 8");
                case.ctl("q h1 tcp_read s2 8");
            }
            _ => {
                case.ctl("q h1 udp_tryrecv s0 4");
                case.ctl("q h1 udp_tryrecv s0 4");
                case.ctl("q h1 udp_tryrecv s0 4");
            }
        }
        case.ctl("q h1 tcp_cpoll s5");
        case.ctl("step");
    }
    if rng.chance(1, 4) {
        // bounce without a crash, and once more — with background tasks of both kinds alive (a task started with
        // `tokio::spawn` belongs to the runtime, one started with `spawn_local` to the software's task set)
        if rng.chance(2, 3) {
            case.ctl("q h0 spawn_rt_ticker");
            if rng.chance(1, 2) {
                case.ctl("q h0 spawn_ticker");
            }
            case.ctl("step");
        }
        case.ctl("bounce h0");
        case.ctl("q h0 udp_bind s0 any:9000");
        case.ctl("step");
        case.ctl("q h0 count");
        case.ctl("step");
    }
    if hosts > 2 && !case.cfg.desc {
        // a group crash (regex selector) in which an earlier selected host is already down:
        // every selected host must be down afterwards
        case.ctl("q h2 spawn_ticker");
        case.ctl("step");
        case.ctl("crash h0");
        case.ctl("step");
        case.ctl("crash_set h0,h2");
        case.ctl("step");
        case.ctl("q h1 countof h2");
        case.ctl("step");
        if case.idx % 2 == 0 {
            case.ctl("bounce_set h0,h2");
        } else {
            case.ctl("bounce h2");
            case.ctl("bounce h0");
        }
        case.ctl("isrunning h0");
        case.ctl("isrunning h2");
        case.ctl("q h2 count");
        case.ctl("step");
    }
    if case.idx % 7 == 3 {
        // blocked-writer probe on a private Sim (see `xprobe_bw`)
        let cap = 1 + (case.idx / 7) % 3;
        // … the writer parked in `write_all`, or (suffix `w`) in `writable()` before `try_write`
        let mode = match ((case.idx / 21) % 2, (case.idx / 84) % 2) {
            (0, 0) => "crash",
            (1, 0) => "drop",
            (0, _) => "crashw",
            _ => "dropw",
        };
        let dir = if (case.idx / 42) % 2 == 0 { "c2s" } else { "s2c" };
        case.ctl(&format!("xprobe_bw {cap} {mode} {dir}"));
    }
    case.ctl("mark done");
}

// ---------------------------------------------------------------------------------------------
// C01: determinism — the existing families under every fault knob, plus fs / io_uring activity

fn knobs(mut c: CaseCfg, rng: &mut Rng) -> CaseCfg {
    c.fail = *rng.pick(&[0.0, 0.0, 0.2, 0.6]);
    c.repair = *rng.pick(&[1.0, 0.5, 0.1]);
    c.random_order = rng.chance(1, 2);
    c.fs_sync_pct = *rng.pick(&[0u64, 0, 30, 70]);
    c.fs_block = *rng.pick(&[0u64, 0, 2, 3]);
    if c.maxlat_ms == c.minlat_ms {
        c.maxlat_ms += *rng.pick(&[0u64, 5, 20]);
    }
    // "for all rng seeds": the boundary values too
    match rng.below(8) {
        0 => c.rng_seed = 0,
        1 => c.rng_seed = 1,
        2 => c.rng_seed = u64::MAX,
        _ => {}
    }
    c
}

fn c01_mix_cfg(rng: &mut Rng) -> CaseCfg { let c = mix_cfg(rng); knobs(c, rng) }
fn c01_udp_cfg(rng: &mut Rng) -> CaseCfg { let c = c09_cfg(rng); knobs(c, rng) }
fn c01_tcp_cfg(rng: &mut Rng) -> CaseCfg { let c = c02_cfg(rng); knobs(c, rng) }
fn c01_conn_cfg(rng: &mut Rng) -> CaseCfg { let c = c12_cfg(rng); knobs(c, rng) }

fn c01_hold_cfg(rng: &mut Rng) -> CaseCfg { let c = c08_cfg(rng); knobs(c, rng) }

fn c01_gcrash_cfg(rng: &mut Rng) -> CaseCfg {
    CaseCfg {
        tick_ms: 1,
        hosts: 4,
        minlat_ms: 1,
        maxlat_ms: 1 + *rng.pick(&[5u64, 20]),
        rng_seed: rng.next(),
        // (registration by name: the regex selector needs names)
        ..CaseCfg::default()
    }
}

/// A host-set call (regex selector) that tears down several hosts with live connections at once: every FIN / RST sent
/// by the destructors draws its latency from the world's generator, so the order in which the selected hosts are
/// visited is visible in the delivery times — it must be the same in every execution.
fn c01_gcrash_run(case: &mut Case, rng: &mut Rng) {
    let lat = case.cfg.maxlat_ms;
    case.ctl("q h0 tcp_bind s0 any:80");
    case.ctl("step");
    for h in 1..4 {
        case.ctl(&format!("q h{h} tcp_connect s1 h0:80"));
    }
    for _ in 0..lat + 2 {
        case.ctl("step");
    }
    for k in 0..3 {
        case.ctl(&format!("q h0 tcp_accept s0 s{}", 1 + k));
        case.ctl("step");
    }
    for _ in 0..lat + 2 {
        case.ctl("step");
    }
    for h in 1..4 {
        case.ctl(&format!("q h{h} tcp_cpoll s1"));
    }
    case.ctl("step");
    for h in 1..4 {
        case.ctl(&format!("q h{h} tcp_write s1 {}", hex(&[0x50 + h as u8, 0x51])));
    }
    case.ctl("step");
    match rng.below(4) {
        0 => case.ctl("crash_set h1,h2"),
        1 => case.ctl("crash_set h2,h3"),
        _ => case.ctl("crash_set h1,h2,h3"),
    }
    for _ in 0..lat + 3 {
        for k in 0..3 {
            case.ctl(&format!("q h0 tcp_read s{} 4", 1 + k));
        }
        case.ctl("step");
    }
    if rng.chance(1, 2) {
        case.ctl("bounce_set h1,h2,h3");
        case.ctl("step");
    }
}

fn c01_fs_cfg(rng: &mut Rng) -> CaseCfg {
    let c = CaseCfg { hosts: rng.range(1, 3) as usize, rng_seed: rng.next(), tick_ms: *rng.pick(&[1u64, 2, 5]), ..CaseCfg::default() };
    knobs(c, rng)
}

fn c01_fs_run(case: &mut Case, rng: &mut Rng) {
    let hosts = case.cfg.hosts;
    let names = ["alpha", "b", "c7", "delta", "e", "file-10", "file-2", "g", "zz", "m", "n0", "x"];
    let rounds = rng.range(4, 14);
    if rng.chance(1, 2) {
        for h in 0..hosts {
            case.ctl(&format!("q h{h} fs_direct_hold"));
        }
        case.ctl("step");
    }
    for _ in 0..rounds {
        for h in 0..hosts {
            if !case.running[h] {
                continue;
            }
            for _ in 0..rng.range(1, 4) {
                match rng.below(10) {
                    0..=3 => {
                        let n = *rng.pick(&names);
                        let dir = *rng.pick(&["d", "d", "d/sub", "e"]);
                        let sync = if rng.chance(1, 3) { " sync" } else { "" };
                        case.ctl(&format!("q h{h} fs_mk {dir}/{n} {}{sync}", hex(&[rng.below(256) as u8, rng.below(256) as u8, 7])));
                    }
                    4 | 5 => case.ctl(&format!("q h{h} fs_ls {}", *rng.pick(&["d", "d", "e", "d/sub", ""]))),
                    6 => {
                        case.ctl(&format!("q h{h} fs_syncdir {}", *rng.pick(&["d", "", "e"])));
                        case.ctl(&format!("q h{h} select4"));
                    }
                    7 => {
                        let n = *rng.pick(&names);
                        case.ctl(&format!("q h{h} fs_cat d/{n}"));
                        case.ctl(&format!("q h{h} fs_stat d/{n}"));
                        case.ctl(&format!("q h{h} fs_stat d"));
                    }
                    8 => {
                        case.ctl(&format!("q h{h} uring_submit {}", rng.range(1, 8)));
                        if rng.chance(1, 2) {
                            case.ctl(&format!("q h{h} uring_drain"));
                        }
                    }
                    _ => {
                        if rng.chance(1, 4) {
                            case.ctl(&format!("q h{h} fs_rmall {}", *rng.pick(&["d/sub", "e"])));
                        }
                    }
                }
            }
        }
        case.ctl("step");
        if rng.chance(1, 6) {
            let h = rng.below(hosts as u64) as usize;
            case.ctl(&format!("crash h{h}"));
            case.ctl(&format!("bounce h{h}"));
            case.ctl(&format!("q h{h} fs_ls d"));
            case.ctl(&format!("q h{h} fs_cat d/alpha"));
            for _ in 0..4 {
                case.ctl(&format!("q h{h} select4"));
            }
            case.ctl("step");
        }
    }
    for h in 0..hosts {
        case.ctl(&format!("q h{h} fs_ls d"));
        case.ctl(&format!("q h{h} fs_ls e"));
        case.ctl(&format!("q h{h} uring_drain"));
    }
    case.ctl("step");
    for h in 0..hosts {
        case.ctl(&format!("q h{h} uring_drain"));
    }
    case.ctl("step");
    case.ctl("simclock");
}
