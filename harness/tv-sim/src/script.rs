//! Lock-step scripting of `turmoil::Sim`: every simulated host runs one task that waits to be
//! notified and then executes the operations queued for it, each polled exactly once, so every
//! API call is a synchronous observation.  See DESIGN.md 5.00.

use std::cell::RefCell;
use std::collections::VecDeque;
use std::future::Future;
use std::net::{IpAddr, SocketAddr};
use std::pin::Pin;
use std::rc::Rc;
use std::task::{Context, Poll, Waker};
use std::time::Duration;

use tokio::io::{AsyncRead, AsyncWrite, ReadBuf};
use tokio::sync::Notify;
use turmoil::net::tcp::{OwnedReadHalf, OwnedWriteHalf};
use turmoil::net::{TcpListener, TcpStream, UdpSocket};

use crate::common::*;

pub fn poll_once<F: Future + ?Sized>(f: Pin<&mut F>) -> Poll<F::Output> {
    let w = Waker::noop();
    let mut cx = Context::from_waker(w);
    f.poll(&mut cx)
}

fn now_or<T>(f: impl Future<Output = T>) -> Option<T> {
    let mut f = std::pin::pin!(f);
    match poll_once(f.as_mut()) {
        Poll::Ready(v) => Some(v),
        Poll::Pending => None,
    }
}

type ConnFut = Pin<Box<dyn Future<Output = std::io::Result<TcpStream>>>>;

pub enum Obj {
    Udp(UdpSocket),
    Listener(TcpListener),
    Connecting(ConnFut),
    Stream(TcpStream),
    Halves(Option<OwnedReadHalf>, Option<OwnedWriteHalf>),
}

pub struct Shared {
    pub queues: RefCell<Vec<VecDeque<String>>>,
    pub notifies: Vec<Rc<Notify>>,
    pub start: RefCell<Option<tokio::time::Instant>>,
}

pub struct HostCtx {
    h: usize,
    slots: Vec<Option<Obj>>,
    t0: tokio::time::Instant,
    #[allow(clippy::type_complexity)]
    ring: Option<(turmoil::io_uring::IoUring, turmoil::fs::shim::std::fs::File, Vec<Vec<u8>>, u64)>,
    direct_held: Option<turmoil::fs::shim::std::fs::File>,
}

fn slot_of(tok: &str) -> usize {
    tok.trim_start_matches('s').parse().expect("slot token")
}

/// A probe on a private `Sim` (not traced, not modelled): a writer task parked on TCP flow control — a real task
/// with a real waker, which the poll-once operations of the scripts cannot exhibit — whose peer host crashes
/// (`mode = crash`) or drops its stream with unread data (`mode = drop`) must be woken and finish with an error.
/// `dir = c2s`: the connecting side writes; `dir = s2c`: the accepting side writes.
fn xprobe_bw(cap: usize, mode: &str, dir: &str) -> String {
    use tokio::io::AsyncWriteExt;
    crate::common::set_capture(false);
    let crash = mode.starts_with("crash");
    let form_w = mode.ends_with('w');
    let writer_accepts = dir == "s2c";
    let mut sim = turmoil::Builder::new()
        .tcp_capacity(cap)
        .tick_duration(Duration::from_millis(1))
        .min_message_latency(Duration::from_millis(1))
        .max_message_latency(Duration::from_millis(3))
        .rng_seed(17 + cap as u64)
        .simulation_duration(Duration::from_secs(5))
        .build();
    let write_until_error = move |mut s: turmoil::net::TcpStream| async move {
        let r = tokio::time::timeout(Duration::from_millis(1000), async {
            loop {
                if form_w {
                    // the non-blocking form: wait until the stream is writable, then try; a reset stream is
                    // "writable" (the write reports the error)
                    s.writable().await?;
                    match s.try_write(&[0x77, 0x78]) {
                        Ok(_) => {}
                        Err(e) if e.kind() == std::io::ErrorKind::WouldBlock => {}
                        Err(e) => return Err(e),
                    }
                } else {
                    s.write_all(&[0x77, 0x78]).await?;
                }
            }
            #[allow(unreachable_code)]
            Ok::<(), std::io::Error>(())
        })
        .await;
        // the error must come when the reset arrives (the crash is at 60 ms, the drop before 40 ms, latency ≤ 3 ms),
        // not from the last poll `timeout` gives the future when its own timer fires
        let at = turmoil::sim_elapsed().unwrap_or_default();
        match r {
            Ok(Err(_)) if at < Duration::from_millis(150) => Ok(()),
            Ok(Err(_)) => Err::<(), Box<dyn std::error::Error>>("blocked-writer-not-woken".into()),
            _ => Err::<(), Box<dyn std::error::Error>>("blocked-writer-hung".into()),
        }
    };
    // the reader never reads; in `drop` mode it lets go of the stream (with unread data) after 20 ms
    let hold = move |s: turmoil::net::TcpStream| async move {
        if crash {
            std::future::pending::<()>().await;
        } else {
            tokio::time::sleep(Duration::from_millis(20)).await;
            drop(s);
            std::future::pending::<()>().await;
        }
        Ok::<(), Box<dyn std::error::Error>>(())
    };
    if writer_accepts {
        sim.host("reader", move || async move {
            // retry until the writer's listener is there
            loop {
                match turmoil::net::TcpStream::connect("writer:9000").await {
                    Ok(s) => return hold(s).await,
                    Err(_) => tokio::time::sleep(Duration::from_millis(1)).await,
                }
            }
        });
        sim.client("writer", async move {
            let l = turmoil::net::TcpListener::bind("0.0.0.0:9000").await?;
            let (s, _) = l.accept().await?;
            write_until_error(s).await
        });
    } else {
        sim.host("reader", move || async move {
            let l = turmoil::net::TcpListener::bind("0.0.0.0:9000").await?;
            let (s, _) = l.accept().await?;
            hold(s).await
        });
        sim.client("writer", async move {
            let s = loop {
                match turmoil::net::TcpStream::connect("reader:9000").await {
                    Ok(s) => break s,
                    Err(_) => tokio::time::sleep(Duration::from_millis(1)).await,
                }
            };
            write_until_error(s).await
        });
    }
    let mut out = String::from("ok");
    for _ in 0..60 {
        match sim.step() {
            Ok(true) => break,
            Ok(false) => {}
            Err(e) => {
                out = format!("err {e}");
                break;
            }
        }
    }
    if out == "ok" {
        if crash {
            sim.crash("reader");
        }
        if let Err(e) = sim.run() {
            out = format!("err {e}");
        }
    }
    drop(sim);
    let _ = turmoil::verif::drain_decisions();
    let _ = turmoil::verif::drain_turns();
    crate::common::set_capture(true);
    out.split_whitespace().collect::<Vec<_>>().join(" ")
}

fn drain_oracle() {
    for (k, v) in turmoil::verif::drain_decisions() {
        log(format!("ORA {k} {v}"));
    }
}

impl HostCtx {
    pub fn new(h: usize) -> Self {
        HostCtx { h, slots: Vec::new(), t0: tokio::time::Instant::now(), ring: None, direct_held: None }
    }

    fn put(&mut self, s: usize, o: Obj) {
        while self.slots.len() <= s {
            self.slots.push(None);
        }
        // dropping a previous object in the slot is a drop op the generator must not rely on
        self.slots[s] = Some(o);
    }

    fn take(&mut self, s: usize) -> Option<Obj> {
        self.slots.get_mut(s).and_then(|x| x.take())
    }

    pub fn exec(&mut self, line: &str) -> String {
        let t: Vec<&str> = line.split_whitespace().collect();
        let sock = |tok: &str| addrs(|m| m.sock_of(tok));
        let ip = |tok: &str| addrs(|m| m.ip_of(tok));
        let stok = |a: SocketAddr| addrs(|m| m.sock_tok(a));
        // ops that create an object refuse to overwrite an occupied slot (an implicit drop would be
        // an unlogged operation)
        let target = match t[0] {
            "udp_bind" | "tcp_bind" | "tcp_connect" => Some(slot_of(t[1])),
            "tcp_accept" => Some(slot_of(t[2])),
            _ => None,
        };
        if let Some(s) = target {
            if self.slots.get(s).map(|x| x.is_some()).unwrap_or(false) {
                return "err slotbusy".into();
            }
        }
        match t[0] {
            "udp_bind" => {
                let s = slot_of(t[1]);
                match now_or(UdpSocket::bind(sock(t[2]))) {
                    Some(Ok(u)) => {
                        let p = u.local_addr().unwrap().port();
                        self.put(s, Obj::Udp(u));
                        format!("ok {p}")
                    }
                    Some(Err(e)) => format!("err {}", errkind(&e)),
                    None => "pending?".into(),
                }
            }
            "tcp_bind" => {
                let s = slot_of(t[1]);
                match now_or(TcpListener::bind(sock(t[2]))) {
                    Some(Ok(l)) => {
                        let p = l.local_addr().unwrap().port();
                        self.put(s, Obj::Listener(l));
                        format!("ok {p}")
                    }
                    Some(Err(e)) => format!("err {}", errkind(&e)),
                    None => "pending?".into(),
                }
            }
            "udp_send" => {
                let s = slot_of(t[1]);
                let dst = sock(t[2]);
                let payload = unhex(t[3]);
                match self.slots.get(s).and_then(|x| x.as_ref()) {
                    // the two send entry points are interchangeable: datagrams of odd length go through
                    // `try_send_to`, the others through `send_to`
                    Some(Obj::Udp(u)) => match if payload.len() % 2 == 1 { Some(u.try_send_to(&payload, dst)) } else { now_or(u.send_to(&payload, dst)) } {
                        Some(Ok(n)) => format!("ok {n}"),
                        Some(Err(e)) => format!("err {}", errkind(&e)),
                        None => "pending?".into(),
                    },
                    _ => "err badslot".into(),
                }
            }
            "udp_tryrecv" | "udp_recv" => {
                let s = slot_of(t[1]);
                let n: usize = t[2].parse().unwrap();
                let mut buf = vec![0u8; n];
                match self.slots.get(s).and_then(|x| x.as_ref()) {
                    Some(Obj::Udp(u)) => {
                        let r = if t[0] == "udp_tryrecv" {
                            Some(u.try_recv_from(&mut buf))
                        } else {
                            now_or(u.recv_from(&mut buf))
                        };
                        match r {
                            Some(Ok((k, src))) => format!("ok {k} {} {}", stok(src), hex(&buf[..k])),
                            Some(Err(e)) => format!("err {}", errkind(&e)),
                            None => "pending".into(),
                        }
                    }
                    _ => "err badslot".into(),
                }
            }
            "udp_readable" => {
                let s = slot_of(t[1]);
                match self.slots.get(s).and_then(|x| x.as_ref()) {
                    Some(Obj::Udp(u)) => match now_or(u.readable()) {
                        Some(Ok(())) => "ok".into(),
                        Some(Err(e)) => format!("err {}", errkind(&e)),
                        None => "pending".into(),
                    },
                    _ => "err badslot".into(),
                }
            }
            "udp_connect" => {
                let s = slot_of(t[1]);
                match self.slots.get(s).and_then(|x| x.as_ref()) {
                    Some(Obj::Udp(u)) => match now_or(u.connect(sock(t[2]))) {
                        Some(Ok(())) => "ok".into(),
                        Some(Err(e)) => format!("err {}", errkind(&e)),
                        None => "pending?".into(),
                    },
                    _ => "err badslot".into(),
                }
            }
            "udp_bcast" | "udp_mloop" => {
                let s = slot_of(t[1]);
                let on = t[2] == "1";
                match self.slots.get(s).and_then(|x| x.as_ref()) {
                    Some(Obj::Udp(u)) => {
                        let r = if t[0] == "udp_bcast" {
                            u.set_broadcast(on)
                        } else if addrs(|m| m.v6) {
                            u.set_multicast_loop_v6(on)
                        } else {
                            u.set_multicast_loop_v4(on)
                        };
                        match r {
                            Ok(()) => {
                                let got = if t[0] == "udp_bcast" {
                                    if addrs(|m| m.v6) {
                                        // SO_BROADCAST is documented as a no-op on IPv6 sockets
                                        return "ok".into();
                                    }
                                    u.broadcast()
                                } else if addrs(|m| m.v6) {
                                    u.multicast_loop_v6()
                                } else {
                                    u.multicast_loop_v4()
                                };
                                match got {
                                    Ok(b) if b == on => "ok".into(),
                                    Ok(b) => format!("ok getter-says-{b}"),
                                    Err(e) => format!("ok getter-err-{}", errkind(&e)),
                                }
                            }
                            Err(e) => format!("err {}", errkind(&e)),
                        }
                    }
                    _ => "err badslot".into(),
                }
            }
            "udp_join" | "udp_leave" => {
                let s = slot_of(t[1]);
                let g = ip(t[2]);
                let iface = ip(t[3]);
                match self.slots.get(s).and_then(|x| x.as_ref()) {
                    Some(Obj::Udp(u)) => {
                        let r = match (g, iface) {
                            (IpAddr::V4(g), IpAddr::V4(i)) => {
                                if t[0] == "udp_join" {
                                    u.join_multicast_v4(g, i)
                                } else {
                                    u.leave_multicast_v4(g, i)
                                }
                            }
                            (IpAddr::V6(g), _) => {
                                if t[0] == "udp_join" {
                                    u.join_multicast_v6(&g, 0)
                                } else {
                                    u.leave_multicast_v6(&g, 0)
                                }
                            }
                            _ => return "err badargs".into(),
                        };
                        match r {
                            Ok(()) => "ok".into(),
                            Err(e) => format!("err {}", errkind(&e)),
                        }
                    }
                    _ => "err badslot".into(),
                }
            }
            "tcp_connect" => {
                let s = slot_of(t[1]);
                let dst = sock(t[2]);
                let fut: ConnFut = Box::pin(TcpStream::connect(dst));
                self.put(s, Obj::Connecting(fut));
                self.conn_poll(s)
            }
            "tcp_cpoll" => self.conn_poll(slot_of(t[1])),
            "tcp_accept" => {
                let ls = slot_of(t[1]);
                let s = slot_of(t[2]);
                let r = match self.slots.get(ls).and_then(|x| x.as_ref()) {
                    Some(Obj::Listener(l)) => now_or(l.accept()),
                    _ => return "err badslot".into(),
                };
                match r {
                    Some(Ok((st, _peer))) => {
                        let out = format!(
                            "ok {} {}",
                            stok(st.local_addr().unwrap()),
                            stok(st.peer_addr().unwrap())
                        );
                        self.put(s, Obj::Stream(st));
                        out
                    }
                    Some(Err(e)) => format!("err {}", errkind(&e)),
                    None => "pending".into(),
                }
            }
            "tcp_write" | "tcp_pwrite" => {
                let s = slot_of(t[1]);
                let payload = unhex(t[2]);
                let poll = t[0] == "tcp_pwrite";
                let w = Waker::noop();
                let mut cx = Context::from_waker(w);
                // split halves that are both still here: `try_write` exists only on the whole stream, so a
                // non-polling write reunites them for the call and splits them again (both are no-ops for the stream)
                if !poll {
                    if let Some(Obj::Halves(Some(_), Some(_))) = self.slots.get(s).and_then(|x| x.as_ref()) {
                        if let Some(Obj::Halves(Some(r), Some(w))) = self.take(s) {
                            let (la, pa) = (r.local_addr().unwrap(), r.peer_addr().unwrap());
                            match r.reunite(w) {
                                Ok(st) => {
                                    let same = st.local_addr().unwrap() == la && st.peer_addr().unwrap() == pa;
                                    let res = st.try_write(&payload);
                                    let (r2, w2) = st.into_split();
                                    self.put(s, Obj::Halves(Some(r2), Some(w2)));
                                    if !same {
                                        return "err reunite-changed-addresses".into();
                                    }
                                    return match res {
                                        Ok(n) => format!("ok {n}"),
                                        Err(e) => format!("err {}", errkind(&e)),
                                    };
                                }
                                Err(e) => {
                                    let turmoil::net::tcp::ReuniteError(r, w) = e;
                                    self.put(s, Obj::Halves(Some(r), Some(w)));
                                    return "err reunite-refused".into();
                                }
                            }
                        }
                    }
                }
                let r = match self.slots.get_mut(s).and_then(|x| x.as_mut()) {
                    Some(Obj::Stream(st)) => {
                        if poll {
                            // `writable()` and `poll_write` must agree (for a non-empty buffer)
                            let ready = {
                                let f = st.writable();
                                tokio::pin!(f);
                                f.poll(&mut cx)
                            };
                            let res = Pin::new(&mut *st).poll_write(&mut cx, &payload);
                            if !payload.is_empty() {
                                match (&ready, &res) {
                                    (Poll::Ready(Ok(())), Poll::Pending) => return "err writable-but-write-pending".into(),
                                    (Poll::Pending, Poll::Ready(Ok(_))) => return "err write-ok-but-not-writable".into(),
                                    _ => {}
                                }
                            }
                            res
                        } else {
                            Poll::Ready(st.try_write(&payload))
                        }
                    }
                    Some(Obj::Halves(_, Some(wh))) => Pin::new(wh).poll_write(&mut cx, &payload),
                    _ => return "err badslot".into(),
                };
                match r {
                    Poll::Ready(Ok(n)) => format!("ok {n}"),
                    Poll::Ready(Err(e)) => format!("err {}", errkind(&e)),
                    Poll::Pending => "pending".into(),
                }
            }
            "tcp_shutdown" => {
                let s = slot_of(t[1]);
                let w = Waker::noop();
                let mut cx = Context::from_waker(w);
                let r = match self.slots.get_mut(s).and_then(|x| x.as_mut()) {
                    Some(Obj::Stream(st)) => Pin::new(st).poll_shutdown(&mut cx),
                    Some(Obj::Halves(_, Some(wh))) => Pin::new(wh).poll_shutdown(&mut cx),
                    _ => return "err badslot".into(),
                };
                match r {
                    Poll::Ready(Ok(())) => "ok".into(),
                    Poll::Ready(Err(e)) => format!("err {}", errkind(&e)),
                    Poll::Pending => "pending".into(),
                }
            }
            "tcp_read" | "tcp_peek" => {
                let s = slot_of(t[1]);
                let n: usize = t[2].parse().unwrap();
                let mut store = vec![0u8; n];
                let mut buf = ReadBuf::new(&mut store);
                let w = Waker::noop();
                let mut cx = Context::from_waker(w);
                let peek = t[0] == "tcp_peek";
                let r: Poll<std::io::Result<()>> = match self.slots.get_mut(s).and_then(|x| x.as_mut()) {
                    Some(Obj::Stream(st)) => {
                        if peek {
                            st.poll_peek(&mut cx, &mut buf).map(|r| r.map(|_| ()))
                        } else {
                            Pin::new(st).poll_read(&mut cx, &mut buf)
                        }
                    }
                    Some(Obj::Halves(Some(rh), _)) => {
                        if peek {
                            Pin::new(rh).poll_peek(&mut cx, &mut buf).map(|r| r.map(|_| ()))
                        } else {
                            Pin::new(rh).poll_read(&mut cx, &mut buf)
                        }
                    }
                    _ => return "err badslot".into(),
                };
                match r {
                    Poll::Ready(Ok(())) => format!("ok {}", hex(buf.filled())),
                    Poll::Ready(Err(e)) => format!("err {}", errkind(&e)),
                    Poll::Pending => "pending".into(),
                }
            }
            "drop" => {
                let s = slot_of(t[1]);
                match self.take(s) {
                    Some(o) => {
                        drop(o);
                        "ok".into()
                    }
                    None => "err badslot".into(),
                }
            }
            "tcp_split" | "tcp_reunite" => {
                // into_split / reunite: no effect on the connection; ok iff both halves are held in this slot
                let s = slot_of(t[1]);
                match self.take(s) {
                    Some(Obj::Stream(st)) => {
                        if t[0] == "tcp_split" {
                            let (la, pa) = (st.local_addr().unwrap(), st.peer_addr().unwrap());
                            let (r, w) = st.into_split();
                            let same = r.local_addr().unwrap() == la && r.peer_addr().unwrap() == pa
                                && w.local_addr().unwrap() == la && w.peer_addr().unwrap() == pa;
                            self.put(s, Obj::Halves(Some(r), Some(w)));
                            if same { "ok".into() } else { "err split-changed-addresses".into() }
                        } else {
                            self.put(s, Obj::Stream(st));
                            "ok".into()
                        }
                    }
                    Some(Obj::Halves(Some(r), Some(w))) => {
                        if t[0] == "tcp_reunite" {
                            match r.reunite(w) {
                                Ok(st) => {
                                    self.put(s, Obj::Stream(st));
                                    "ok".into()
                                }
                                Err(e) => {
                                    let turmoil::net::tcp::ReuniteError(r, w) = e;
                                    self.put(s, Obj::Halves(Some(r), Some(w)));
                                    "err reunite-refused".into()
                                }
                            }
                        } else {
                            self.put(s, Obj::Halves(Some(r), Some(w)));
                            "ok".into()
                        }
                    }
                    Some(o) => {
                        self.put(s, o);
                        "err badslot".into()
                    }
                    None => "err badslot".into(),
                }
            }
            "tcp_dropr" | "tcp_dropw" => {
                let s = slot_of(t[1]);
                let (r, w) = match self.take(s) {
                    Some(Obj::Stream(st)) => {
                        let (r, w) = st.into_split();
                        (Some(r), Some(w))
                    }
                    Some(Obj::Halves(r, w)) => (r, w),
                    Some(o) => {
                        self.put(s, o);
                        return "err badslot".into();
                    }
                    None => return "err badslot".into(),
                };
                let (r, w) = if t[0] == "tcp_dropr" {
                    if r.is_none() {
                        self.put(s, Obj::Halves(r, w));
                        return "err badslot".into();
                    }
                    drop(r);
                    (None, w)
                } else {
                    if w.is_none() {
                        self.put(s, Obj::Halves(r, w));
                        return "err badslot".into();
                    }
                    drop(w);
                    (r, None)
                };
                if r.is_some() || w.is_some() {
                    self.put(s, Obj::Halves(r, w));
                }
                "ok".into()
            }
            "count" => {
                let c = turmoil::verif::host_counts(addrs(|m| m.hosts[self.h]));
                let api = turmoil::established_tcp_stream_count();
                if api != c.tcp_streams {
                    return format!("ok streams={api}!={}", c.tcp_streams);
                }
                format!("ok streams={} udp={} tcpb={}", c.tcp_streams, c.udp_binds, c.tcp_binds)
            }
            "clock" => {
                if !turmoil::in_simulation() {
                    return "err in_simulation-false-inside-host-code".into();
                }
                let e = turmoil::elapsed();
                let se = turmoil::sim_elapsed().unwrap();
                let ep = turmoil::since_epoch().unwrap();
                let inst = tokio::time::Instant::now() - self.t0;
                format!(
                    "ok elapsed={} sim={} epoch={} inst={}",
                    e.as_nanos(),
                    se.as_nanos(),
                    ep.as_nanos(),
                    inst.as_nanos()
                )
            }
            "fs_mk" => {
                use std::io::Write as _;
                use turmoil::fs::shim::std::fs as sfs;
                let path = format!("/{}", t[1]);
                let r = (|| -> std::io::Result<()> {
                    if let Some(dir) = std::path::Path::new(&path).parent() {
                        if dir != std::path::Path::new("/") {
                            sfs::create_dir_all(dir)?;
                        }
                    }
                    let mut f = sfs::OpenOptions::new().write(true).create(true).truncate(true).open(&path)?;
                    f.write_all(&unhex(t[2]))?;
                    if t.get(3) == Some(&"sync") {
                        f.sync_all()?;
                    }
                    Ok(())
                })();
                match r {
                    Ok(()) => "ok".into(),
                    Err(e) => format!("err {}", errkind(&e)),
                }
            }
            "fs_ls" => {
                // directory listing in the order the implementation returns it (not sorted)
                use turmoil::fs::shim::std::fs as sfs;
                let path = format!("/{}", if t.len() > 1 { t[1] } else { "" });
                match sfs::read_dir(&path) {
                    Ok(rd) => {
                        let mut names = Vec::new();
                        for e in rd {
                            match e {
                                Ok(e) => names.push(e.file_name().to_string_lossy().to_string()),
                                Err(e) => names.push(format!("!{}", errkind(&e))),
                            }
                        }
                        format!("ok {}", if names.is_empty() { "-".to_string() } else { names.join(",") })
                    }
                    Err(e) => format!("err {}", errkind(&e)),
                }
            }
            "fs_stat" => {
                // length and the three timestamps (ns since the epoch)
                use turmoil::fs::shim::std::fs as sfs;
                let ns = |t: std::io::Result<std::time::SystemTime>| match t {
                    Ok(t) => t.duration_since(std::time::UNIX_EPOCH).map(|d| d.as_nanos().to_string()).unwrap_or("neg".into()),
                    Err(e) => errkind(&e),
                };
                match sfs::metadata(format!("/{}", t[1])) {
                    Ok(m) => format!("ok len={} mtime={} ctime={}", m.len(), ns(m.modified()), ns(m.created())),
                    Err(e) => format!("err {}", errkind(&e)),
                }
            }
            "fs_cat" => {
                use turmoil::fs::shim::std::fs as sfs;
                match sfs::read(format!("/{}", t[1])) {
                    Ok(b) => format!("ok {}", hex(&b)),
                    Err(e) => format!("err {}", errkind(&e)),
                }
            }
            "fs_rmall" => {
                use turmoil::fs::shim::std::fs as sfs;
                match sfs::remove_dir_all(format!("/{}", t[1])) {
                    Ok(()) => "ok".into(),
                    Err(e) => format!("err {}", errkind(&e)),
                }
            }
            "fs_syncdir" => {
                use turmoil::fs::shim::std::fs as sfs;
                let path = format!("/{}", if t.len() > 1 { t[1] } else { "" });
                let r = sfs::OpenOptions::new().read(true).open(&path).and_then(|d| d.sync_all());
                match r {
                    Ok(()) => "ok".into(),
                    Err(e) => format!("err {}", errkind(&e)),
                }
            }
            "fs_direct_hold" => {
                // a journal opened with O_DIRECT and held open for as long as this incarnation lives (the first
                // descriptor it opens): after crash + bounce the descriptor numbers start again
                use turmoil::fs::shim::std::fs as sfs;
                match sfs::OpenOptions::new().read(true).write(true).create(true).direct_io(true).open("/journal") {
                    Ok(f) => {
                        self.direct_held = Some(f);
                        "ok".into()
                    }
                    Err(e) => format!("err {}", errkind(&e)),
                }
            }
            "uring_submit" => {
                // submit n writes to one file through a ring kept in the host context
                use std::os::fd::AsRawFd;
                use turmoil::fs::shim::std::fs as sfs;
                use turmoil::io_uring::{opcode, types, IoUring};
                let n: usize = t[1].parse().unwrap();
                let r = (|| -> std::io::Result<usize> {
                    if self.ring.is_none() {
                        let file = sfs::OpenOptions::new().read(true).write(true).create(true).open("/ring.dat")?;
                        let ring = IoUring::new(32)?;
                        self.ring = Some((ring, file, Vec::new(), 0));
                    }
                    let (ring, file, bufs, next) = self.ring.as_mut().unwrap();
                    let fd = types::Fd(file.as_raw_fd());
                    for _ in 0..n {
                        *next += 1;
                        // even batches: sector-sized writes at sector offsets (the shape O_DIRECT I/O has; on this plain
                        // file it is ordinary I/O and must not depend on where the buffer happens to live)
                        let (len, at) = if n % 2 == 0 { (512usize, *next * 512) } else { (4usize, *next * 4) };
                        bufs.push(vec![*next as u8; len]);
                        let b = bufs.last().unwrap();
                        let e = opcode::Write::new(fd, b.as_ptr(), b.len() as u32).offset(at as u64).build().user_data(*next);
                        unsafe {
                            ring.submission().push(&e).map_err(|_| std::io::Error::other("sq full"))?;
                        }
                    }
                    ring.submit()
                })();
                match r {
                    Ok(k) => format!("ok {k}"),
                    Err(e) => format!("err {}", errkind(&e)),
                }
            }
            "uring_drain" => match self.ring.as_mut() {
                Some((ring, _, _, _)) => {
                    let _ = ring.submit();
                    let mut order = Vec::new();
                    let mut cq = ring.completion();
                    cq.sync();
                    for cqe in cq {
                        order.push(format!("{}:{}", cqe.user_data(), cqe.result()));
                    }
                    format!("ok {}", if order.is_empty() { "-".to_string() } else { order.join(",") })
                }
                None => "ok -".into(),
            },
            "spawn_ticker" => {
                // a background task with a destructor: proves that crash drops every task of the host
                let h = self.h;
                tokio::task::spawn_local(async move {
                    let _g = DropGuard(h);
                    loop {
                        tokio::time::sleep(Duration::from_millis(1)).await;
                        log(format!("EV ticker {h}"));
                    }
                });
                "ok".into()
            }
            "spawn_rt_ticker" => {
                // the same, started with `tokio::spawn`: it lives on the host's runtime, not on the LocalSet of its
                // software — crash and bounce must tear it down all the same
                let h = self.h;
                tokio::spawn(async move {
                    let _g = DropGuard(h);
                    loop {
                        tokio::time::sleep(Duration::from_millis(1)).await;
                        log(format!("EV ticker {h}"));
                    }
                });
                "ok".into()
            }
            "countof" => {
                let c = turmoil::verif::host_counts(ip(t[1]));
                // the public per-host counter must agree with the table
                let api = turmoil::established_tcp_stream_count_on(ip(t[1]));
                if api != c.tcp_streams {
                    return format!("ok streams={api}!={}", c.tcp_streams);
                }
                format!("ok streams={} udp={} tcpb={}", c.tcp_streams, c.udp_binds, c.tcp_binds)
            }
            "net_partition" => { turmoil::partition(ip(t[1]), ip(t[2])); "ok".into() }
            "net_partition1" => { turmoil::partition_oneway(ip(t[1]), ip(t[2])); "ok".into() }
            "net_repair" => { turmoil::repair(ip(t[1]), ip(t[2])); "ok".into() }
            "net_repair1" => { turmoil::repair_oneway(ip(t[1]), ip(t[2])); "ok".into() }
            "net_hold" => { turmoil::hold(ip(t[1]), ip(t[2])); "ok".into() }
            "net_release" => { turmoil::release(ip(t[1]), ip(t[2])); "ok".into() }
            "lookup" => {
                let a = turmoil::lookup(t[1]);
                let n = match a { IpAddr::V4(v) => u32::from(v) as u128, IpAddr::V6(v) => u128::from(v) };
                format!("ok {n}")
            }
            other => format!("err unknownop:{other}"),
        }
    }

    fn conn_poll(&mut self, s: usize) -> String {
        let r = match self.slots.get_mut(s).and_then(|x| x.as_mut()) {
            Some(Obj::Connecting(f)) => poll_once(f.as_mut()),
            _ => return "err badslot".into(),
        };
        match r {
            Poll::Pending => "pending".into(),
            Poll::Ready(Ok(st)) => {
                let out = addrs(|m| {
                    format!(
                        "ok {} {}",
                        m.sock_tok(st.local_addr().unwrap()),
                        m.sock_tok(st.peer_addr().unwrap())
                    )
                });
                self.slots[s] = Some(Obj::Stream(st));
                out
            }
            Poll::Ready(Err(e)) => {
                self.slots[s] = None;
                format!("err {}", errkind(&e))
            }
        }
    }
}

struct DropGuard(usize);

impl Drop for DropGuard {
    fn drop(&mut self) {
        // the destructor also reads the host's clock: crash / bounce run it outside any step, where the only
        // meaningful reading is the virtual time of the step boundary (never the wall clock)
        let t = match turmoil::sim_elapsed() {
            Some(d) => d.as_nanos().to_string(),
            None => "-".into(),
        };
        log(format!("EV guarddrop {} t={t}", self.0));
    }
}

pub async fn host_main(h: usize, sh: Rc<Shared>) -> turmoil::Result {
    let mut ctx = HostCtx::new(h);
    log(format!("EV start {h}"));
    loop {
        sh.notifies[h].notified().await;
        loop {
            let op = sh.queues.borrow_mut()[h].pop_front();
            let Some(op) = op else { break };
            if let Some(ms) = op.strip_prefix("sleep ") {
                // phase marker: let virtual time pass inside the window
                log(format!("OP h{h} {op}"));
                tokio::time::sleep(Duration::from_millis(ms.parse().unwrap())).await;
                log("OBS ok".into());
                continue;
            }
            if op == "select4" {
                // an unbiased select over four ready branches: the pick comes from the runtime's
                // (seeded) rng, so it must be the same in every execution of the scenario
                log(format!("OP h{h} {op}"));
                let pick = tokio::select! {
                    _ = std::future::ready(()) => 0,
                    _ = std::future::ready(()) => 1,
                    _ = std::future::ready(()) => 2,
                    _ = std::future::ready(()) => 3,
                };
                log(format!("OBS ok {pick}"));
                continue;
            }
            if op == "exit" {
                // the software returns: the host is finished until it is bounced
                log(format!("OP h{h} {op}"));
                log("OBS ok".into());
                return Ok(());
            }
            log(format!("OP h{h} {op}"));
            let obs = ctx.exec(&op);
            drain_oracle();
            log(format!("OBS {obs}"));
        }
    }
}

/// Configuration of one case (also printed as the CFG line and parsed back for replays).
#[derive(Clone, Debug)]
pub struct CaseCfg {
    /// tick in microseconds when non-zero (overrides tick_ms)
    pub tick_us: u64,
    /// hosts registered later with `reglate`
    pub late: usize,
    /// fs knobs (percent / bytes; 0 = default)
    pub fs_sync_pct: u64,
    pub fs_block: u64,
    pub random_order: bool,
    pub tick_ms: u64,
    pub hosts: usize,
    pub tcpcap: usize,
    pub udpcap: usize,
    pub ephlo: u16,
    pub ephhi: u16,
    pub v6: bool,
    pub minlat_ms: u64,
    pub maxlat_ms: u64,
    pub fail: f64,
    pub repair: f64,
    pub rng_seed: u64,
    pub desc: bool,
}

impl Default for CaseCfg {
    fn default() -> Self {
        CaseCfg {
            tick_us: 0,
            late: 0,
            fs_sync_pct: 0,
            fs_block: 0,
            random_order: false,
            tick_ms: 1,
            hosts: 2,
            tcpcap: 64,
            udpcap: 64,
            ephlo: 49152,
            ephhi: 65535,
            v6: false,
            minlat_ms: 0,
            maxlat_ms: 100,
            fail: 0.0,
            repair: 1.0,
            rng_seed: 0,
            desc: false,
        }
    }
}

impl CaseCfg {
    pub fn line(&self) -> String {
        format!(
            "CFG fs_sync_pct={} fs_block={} random_order={} tick_us={} late={} tick_ms={} hosts={} tcpcap={} udpcap={} ephlo={} ephhi={} ipv={} minlat_ms={} maxlat_ms={} fail={} repair={} rng_seed={} order={}",
            self.fs_sync_pct, self.fs_block, self.random_order as u8, self.tick_us, self.late, self.tick_ms, self.hosts, self.tcpcap, self.udpcap, self.ephlo, self.ephhi,
            if self.v6 { 6 } else { 4 }, self.minlat_ms, self.maxlat_ms, self.fail, self.repair, self.rng_seed,
            if self.desc { "desc" } else { "asc" }
        )
    }
    pub fn parse(line: &str) -> CaseCfg {
        let mut c = CaseCfg::default();
        for kv in line.split_whitespace().skip(1) {
            let Some((k, v)) = kv.split_once('=') else { continue };
            match k {
                "tick_ms" => c.tick_ms = v.parse().unwrap(),
                "tick_us" => c.tick_us = v.parse().unwrap(),
                "late" => c.late = v.parse().unwrap(),
                "fs_sync_pct" => c.fs_sync_pct = v.parse().unwrap(),
                "fs_block" => c.fs_block = v.parse().unwrap(),
                "random_order" => c.random_order = v == "1",
                "hosts" => c.hosts = v.parse().unwrap(),
                "tcpcap" => c.tcpcap = v.parse().unwrap(),
                "udpcap" => c.udpcap = v.parse().unwrap(),
                "ephlo" => c.ephlo = v.parse().unwrap(),
                "ephhi" => c.ephhi = v.parse().unwrap(),
                "ipv" => c.v6 = v == "6",
                "minlat_ms" => c.minlat_ms = v.parse().unwrap(),
                "maxlat_ms" => c.maxlat_ms = v.parse().unwrap(),
                "fail" => c.fail = v.parse().unwrap(),
                "repair" => c.repair = v.parse().unwrap(),
                "rng_seed" => c.rng_seed = v.parse().unwrap(),
                "order" => c.desc = v == "desc",
                _ => {}
            }
        }
        c
    }
}

/// A running case: the simulation plus the shared queues.
pub struct Case<'a> {
    pub sim: turmoil::Sim<'a>,
    pub sh: Rc<Shared>,
    pub cfg: CaseCfg,
    pub running: Vec<bool>,
    /// index of this case within its family (for exhaustive enumerations)
    pub idx: usize,
}

fn ipnum(ip: IpAddr) -> u128 {
    match ip {
        IpAddr::V4(v) => u32::from(v) as u128,
        IpAddr::V6(v) => u128::from(v),
    }
}

impl<'a> Case<'a> {
    pub fn new(cfg: CaseCfg) -> Case<'a> {
        let mut b = turmoil::Builder::new();
        let tick = if cfg.tick_us > 0 { Duration::from_micros(cfg.tick_us) } else { Duration::from_millis(cfg.tick_ms) };
        b.tick_duration(tick)
            .tcp_capacity(cfg.tcpcap)
            .udp_capacity(cfg.udpcap)
            .ephemeral_ports(cfg.ephlo..=cfg.ephhi)
            .min_message_latency(Duration::from_millis(cfg.minlat_ms))
            .max_message_latency(Duration::from_millis(cfg.maxlat_ms))
            .fail_rate(cfg.fail)
            .repair_rate(cfg.repair)
            .rng_seed(cfg.rng_seed)
            // an epoch with a sub-millisecond part: since_epoch must be exactly epoch + virtual time, to the nanosecond
            .epoch(std::time::UNIX_EPOCH + Duration::new(1_700_000_000, 123_456_789))
            .simulation_duration(Duration::from_secs(3600 * 24));
        if cfg.v6 {
            b.ip_version(turmoil::IpVersion::V6);
        }
        if cfg.random_order {
            b.enable_random_order();
        }
        if cfg.fs_sync_pct > 0 {
            b.fs().sync_probability(cfg.fs_sync_pct as f64 / 100.0);
        }
        if cfg.fs_block > 0 {
            b.fs().block_size(cfg.fs_block);
        }
        let mut sim = b.build();
        let total = cfg.hosts + cfg.late;
        let notifies: Vec<Rc<Notify>> = (0..total).map(|_| Rc::new(Notify::new())).collect();
        let sh = Rc::new(Shared {
            queues: RefCell::new((0..total).map(|_| VecDeque::new()).collect()),
            notifies,
            start: RefCell::new(None),
        });
        set_addrs(AddrMap { v6: cfg.v6, hosts: vec![], names: vec![] });
        log(cfg.line());
        for i in 0..cfg.hosts {
            let sh2 = sh.clone();
            let name: String = if cfg.desc {
                // literal addresses in descending order: exercises the other branch of Pair::new
                if cfg.v6 {
                    format!("fe80::5:{:x}", 0x100 - i)
                } else {
                    format!("192.168.5.{}", 200 - i)
                }
            } else {
                format!("n{i}")
            };
            sim.host(name.as_str(), move || host_main(i, sh2.clone()));
            let ip = sim.lookup(name.as_str());
            let nodename = sim.reverse_lookup(ip).unwrap_or_else(|| ip.to_string());
            addrs_mut(|m| {
                m.hosts.push(ip);
                m.names.push(nodename);
            });
            log(format!(
                "OP ctl reg {i} ip={} kind=host name={}",
                ipnum(ip),
                if cfg.desc { "-" } else { name.as_str() }
            ));
            log("OBS ok".into());
        }
        let _ = turmoil::verif::drain_decisions();
        let _ = turmoil::verif::drain_turns();
        Case { sim, sh, running: vec![true; cfg.hosts], cfg, idx: 0 }
    }

    /// Register one more host while the simulation is running.
    fn reglate(&mut self) -> String {
        let i = addrs(|m| m.hosts.len());
        if i >= self.cfg.hosts + self.cfg.late {
            return "err nolate".into();
        }
        let sh2 = self.sh.clone();
        let name = format!("n{i}");
        self.sim.host(name.as_str(), move || host_main(i, sh2.clone()));
        let ip = self.sim.lookup(name.as_str());
        let nodename = self.sim.reverse_lookup(ip).unwrap_or_else(|| ip.to_string());
        addrs_mut(|m| {
            m.hosts.push(ip);
            m.names.push(nodename);
        });
        self.running.push(true);
        format!("ok {i} ip={}", ipnum(ip))
    }

    /// Execute one controller line.
    pub fn ctl(&mut self, line: &str) {
        let t: Vec<&str> = line.split_whitespace().collect();
        let hi = |tok: &str| -> usize { tok.trim_start_matches('h').parse().unwrap() };
        let ip = |tok: &str| addrs(|m| m.ip_of(tok));
        if t[0] == "q" {
            // queue a host op; it is logged when the host executes it
            let h = hi(t[1]);
            let op = t[2..].join(" ");
            log(format!("OP ctl {line}"));
            self.sh.queues.borrow_mut()[h].push_back(op);
            return;
        }
        log(format!("OP ctl {line}"));
        let obs: String = match t[0] {
            "step" => {
                for h in 0..self.running.len() {
                    self.sh.notifies[h].notify_one();
                }
                // "slow machine": real time passes between steps (more than one tick of virtual time),
                // which no observable result may depend on
                let slow = crate::common::SLOW_PCT.load(std::sync::atomic::Ordering::Relaxed);
                if slow > 0 {
                    let tick_us = if self.cfg.tick_us > 0 { self.cfg.tick_us } else { self.cfg.tick_ms * 1000 };
                    std::thread::sleep(std::time::Duration::from_micros(tick_us * slow / 100));
                }
                let r = self.sim.step();
                drain_oracle();
                let turns = turmoil::verif::drain_turns();
                let order: Vec<String> = turns.iter().map(|a| addrs(|m| m.tok_of(*a))).collect();
                match r {
                    Ok(f) => format!("step finished={f} order={}", order.join(",")),
                    Err(e) => format!("step err {e}"),
                }
            }
            // the controller is slow: real time passes, virtual time does not
            "stall" => { std::thread::sleep(Duration::from_millis(t[1].parse().unwrap())); "ok".into() }
            "partition" => { self.sim.partition(ip(t[1]), ip(t[2])); "ok".into() }
            "partition1" => { self.sim.partition_oneway(ip(t[1]), ip(t[2])); "ok".into() }
            "repair" => { self.sim.repair(ip(t[1]), ip(t[2])); "ok".into() }
            "repair1" => { self.sim.repair_oneway(ip(t[1]), ip(t[2])); "ok".into() }
            "hold" => { self.sim.hold(ip(t[1]), ip(t[2])); "ok".into() }
            "release" => { self.sim.release(ip(t[1]), ip(t[2])); "ok".into() }
            "partition_re" | "repair_re" | "hold_re" | "release_re" => {
                // host sets selected by regex over node names
                let a = regex::Regex::new(t[1]).unwrap();
                let b = regex::Regex::new(t[2]).unwrap();
                match t[0] {
                    "partition_re" => self.sim.partition(a, b),
                    "repair_re" => self.sim.repair(a, b),
                    "hold_re" => self.sim.hold(a, b),
                    _ => self.sim.release(a, b),
                }
                "ok".into()
            }
            "partition_set" | "partition1_set" | "repair_set" | "repair1_set" | "hold_set" | "release_set" => {
                // host sets (comma separated host tokens) passed to the Sim as regexes over node names;
                // the two sets may overlap
                let re = |set: &str| {
                    let names: Vec<String> = set.split(',').map(|h| format!("n{}", &h[1..])).collect();
                    regex::Regex::new(&format!("^({})$", names.join("|"))).unwrap()
                };
                let (a, b) = (re(t[1]), re(t[2]));
                match t[0] {
                    "partition_set" => self.sim.partition(a, b),
                    "partition1_set" => self.sim.partition_oneway(a, b),
                    "repair_set" => self.sim.repair(a, b),
                    "repair1_set" => self.sim.repair_oneway(a, b),
                    "hold_set" => self.sim.hold(a, b),
                    _ => self.sim.release(a, b),
                }
                "ok".into()
            }
            "crash_set" | "bounce_set" => {
                // several hosts at once, selected by a regex over node names
                let hs: Vec<usize> = t[1].split(',').map(|h| h[1..].parse().unwrap()).collect();
                let names: Vec<String> = hs.iter().map(|h| format!("n{h}")).collect();
                let re = regex::Regex::new(&format!("^({})$", names.join("|"))).unwrap();
                let up = t[0] == "bounce_set";
                if up {
                    self.sim.bounce(re);
                } else {
                    self.sim.crash(re);
                }
                for h in hs {
                    self.sh.queues.borrow_mut()[h].clear();
                    self.running[h] = up;
                }
                drain_oracle();
                "ok".into()
            }
            "crash" => {
                let h = hi(t[1]);
                self.sim.crash(ip(t[1]));
                self.sh.queues.borrow_mut()[h].clear();
                self.running[h] = false;
                drain_oracle();
                "ok".into()
            }
            "bounce" => {
                let h = hi(t[1]);
                self.sim.bounce(ip(t[1]));
                self.sh.queues.borrow_mut()[h].clear();
                self.running[h] = true;
                drain_oracle();
                "ok".into()
            }
            "links" => {
                let mut parts = Vec::new();
                let mut pairs_seen: Vec<(IpAddr, IpAddr)> = Vec::new();
                let mut return_obs: Option<String> = None;
                self.sim.links(|links| {
                    for link in links {
                        let (a, b) = link.pair();
                        pairs_seen.push((a, b));
                        let mut ms = Vec::new();
                        for sent in link {
                            let (s, d) = sent.pair();
                            ms.push(addrs(|m| {
                                format!("{}>{}/{}", m.sock_tok(s), m.sock_tok(d), proto_tok(&sent.protocol().to_string()))
                            }));
                        }
                        parts.push(addrs(|m| format!("{}-{}[{}]", m.tok_of(a), m.tok_of(b), ms.join(","))));
                    }
                });
                // Sim::reverse_lookup_pair must agree with two single reverse lookups (named hosts only)
                for (a, b) in pairs_seen {
                    if let (Some(na), Some(nb)) = (self.sim.reverse_lookup(a), self.sim.reverse_lookup(b)) {
                        let (pa, pb) = self.sim.reverse_lookup_pair((a, b));
                        if pa != na || pb != nb {
                            return_obs = Some(format!("err reverse_lookup_pair ({pa},{pb}) != ({na},{nb})"));
                        }
                    }
                }
                match return_obs.take() {
                    Some(e) => e,
                    None => format!("links {}", parts.join(" ")),
                }
            }
            "deliverall" => {
                // LinkIter::deliver_all on the link between two hosts
                let (x, y) = (ip(t[1]), ip(t[2]));
                let mut done = false;
                self.sim.links(|links| {
                    for link in links {
                        let (a, b) = link.pair();
                        if (a == x && b == y) || (a == y && b == x) {
                            link.deliver_all();
                            done = true;
                        }
                    }
                });
                if done { "ok".into() } else { "err nolink".into() }
            }
            "deliver" => {
                // deliver the idx-th in-flight message of the link between two hosts
                let (x, y) = (ip(t[1]), ip(t[2]));
                let idx: usize = t[3].parse().unwrap();
                let mut done = false;
                self.sim.links(|links| {
                    for link in links {
                        let (a, b) = link.pair();
                        if (a == x && b == y) || (a == y && b == x) {
                            for (i, sent) in link.enumerate() {
                                if i == idx {
                                    sent.deliver();
                                    done = true;
                                }
                            }
                        }
                    }
                });
                if done { "ok".into() } else { "err noidx".into() }
            }
            "setlat" => {
                self.sim.set_link_latency(ip(t[1]), ip(t[2]), Duration::from_millis(t[3].parse().unwrap()));
                "ok".into()
            }
            "setmaxlat" => {
                self.sim.set_link_max_message_latency(ip(t[1]), ip(t[2]), Duration::from_millis(t[3].parse().unwrap()));
                "ok".into()
            }
            "setgmaxlat" => {
                self.sim.set_max_message_latency(Duration::from_millis(t[1].parse().unwrap()));
                "ok".into()
            }
            "setfail" => { self.sim.set_fail_rate(t[1].parse().unwrap()); "ok".into() }
            "setlinkfail" => { self.sim.set_link_fail_rate(ip(t[1]), ip(t[2]), t[3].parse().unwrap()); "ok".into() }
            "mark" => "ok".into(),
            "xprobe_bw" => xprobe_bw(t[1].parse().unwrap(), t[2], t[3]),
            "reglate" => self.reglate(),
            "dns" => {
                let ip = self.sim.lookup(t[1]);
                format!("ok {}", ipnum(ip))
            }
            "dnsbulk" => {
                // many fresh names at once: summary of the addresses handed out
                let n: usize = t[2].parse().unwrap();
                let mut seen = std::collections::HashSet::new();
                let mut last = String::from("-");
                let mut x: u128 = 0;
                for i in 0..n {
                    let ip = self.sim.lookup(format!("{}{}", t[1], i).as_str());
                    seen.insert(ip);
                    let v = ipnum(ip);
                    x ^= v.to_string().parse::<u128>().unwrap();
                    last = v.to_string();
                }
                format!("ok distinct={} last={} xor={}", seen.len(), last, x)
            }
            "dnsip" => {
                // literal address passes through and registers nothing
                let lit: IpAddr = if self.cfg.v6 {
                    IpAddr::V6(std::net::Ipv6Addr::from(t[1].parse::<u128>().unwrap()))
                } else {
                    IpAddr::V4(std::net::Ipv4Addr::from(t[1].parse::<u32>().unwrap()))
                };
                let ip = self.sim.lookup(lit.to_string().as_str());
                format!("ok {}", ipnum(ip))
            }
            "rdns" => {
                let ip: IpAddr = if self.cfg.v6 {
                    IpAddr::V6(std::net::Ipv6Addr::from(t[1].parse::<u128>().unwrap()))
                } else {
                    IpAddr::V4(std::net::Ipv4Addr::from(t[1].parse::<u32>().unwrap()))
                };
                match self.sim.reverse_lookup(ip) {
                    Some(n) => format!("ok {n}"),
                    None => "none".into(),
                }
            }
            "dnsprefix" => {
                let re = regex::Regex::new(&format!("^{}", t[1])).unwrap();
                let ips = self.sim.lookup_many(re);
                let v: Vec<String> = ips.iter().map(|i| ipnum(*i).to_string()).collect();
                format!("ok {}", if v.is_empty() { "-".to_string() } else { v.join(",") })
            }
            "simclock" => {
                if turmoil::in_simulation() {
                    "err in_simulation-true-on-the-controller-thread".into()
                } else {
                    format!("ok elapsed={} epoch={}", self.sim.elapsed().as_nanos(), self.sim.since_epoch().as_nanos())
                }
            }
            "isrunning" => {
                // Sim::is_host_running
                format!("ok {}", self.sim.is_host_running(ip(t[1])))
            }
            "setcurve" => {
                // shape of the latency distribution only: the range is unchanged
                self.sim.set_message_latency_curve(t[1].parse::<f64>().unwrap());
                "ok".into()
            }
            other => format!("err unknownctl:{other}"),
        };
        log(format!("OBS {obs}"));
    }
}
