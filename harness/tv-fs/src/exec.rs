//! Executes OP lines against the real turmoil-fs (direct `Fs` + shims).

use crate::Case;
use std::future::Future;
use std::io::{ErrorKind, Read, Seek, SeekFrom, Write};
use std::os::unix::fs::FileExt;
use std::pin::Pin;
use std::sync::{Arc, Mutex};
use std::task::{Context, Poll, Waker};
use std::time::Duration;
use turmoil_fs::shim::std::fs as sfs;
use turmoil_fs::shim::tokio::fs as tfs;
use turmoil_fs::{EnterCtx, Fs, FsConfig};

pub const NSLOTS: usize = 4;
pub const NHOSTS: usize = 2;

pub enum Slot {
    Std(sfs::File),
    Tok(tfs::File),
}

pub struct Host {
    pub fs: Arc<Mutex<Fs>>,
    pub slots: Vec<Option<Slot>>,
    /// path each slot was opened with (for the `File::path` cross-check)
    pub paths: Vec<Option<String>>,
    /// op counter: decides deterministically which of two equivalent API calls is used
    pub tick: u64,
}

impl Host {
    pub fn new(fs: Arc<Mutex<Fs>>) -> Self {
        Host { fs, slots: (0..NSLOTS).map(|_| None).collect(), paths: (0..NSLOTS).map(|_| None).collect(), tick: 0 }
    }
}

pub fn block_on<F: Future>(fut: F) -> F::Output {
    let mut fut = Box::pin(fut);
    let waker = Waker::noop();
    let mut cx = Context::from_waker(waker);
    for _ in 0..10_000 {
        if let Poll::Ready(v) = Pin::as_mut(&mut fut).poll(&mut cx) {
            return v;
        }
    }
    panic!("future did not complete");
}

pub fn hex(b: &[u8]) -> String {
    if b.is_empty() {
        return "-".to_string();
    }
    let mut s = String::with_capacity(b.len() * 2);
    for x in b {
        s.push_str(&format!("{:02x}", x));
    }
    s
}

pub fn unhex(s: &str) -> Vec<u8> {
    if s == "-" {
        return vec![];
    }
    let bytes = s.as_bytes();
    let mut out = Vec::with_capacity(bytes.len() / 2);
    let mut i = 0;
    while i + 1 < bytes.len() {
        let h = (bytes[i] as char).to_digit(16).unwrap_or(0) as u8;
        let l = (bytes[i + 1] as char).to_digit(16).unwrap_or(0) as u8;
        out.push(h * 16 + l);
        i += 2;
    }
    out
}

pub fn err_class(e: &std::io::Error) -> String {
    match e.kind() {
        ErrorKind::NotFound => "notfound".into(),
        ErrorKind::AlreadyExists => "alreadyexists".into(),
        ErrorKind::PermissionDenied => "permissiondenied".into(),
        ErrorKind::InvalidInput => "invalidinput".into(),
        ErrorKind::InvalidData => "invaliddata".into(),
        _ => {
            let m = e.to_string();
            if m.contains("No such file or directory") {
                "notfound".into()
            } else if m.contains("File exists") {
                "alreadyexists".into()
            } else if m.contains("Directory not empty") {
                "notempty".into()
            } else if m.contains("Is a directory") {
                "isdir".into()
            } else if m.contains("Not a directory") {
                "notdir".into()
            } else if m.contains("No space left") {
                "nospace".into()
            } else {
                let c: String = m
                    .chars()
                    .map(|c| if c.is_ascii_alphanumeric() { c.to_ascii_lowercase() } else { '_' })
                    .take(24)
                    .collect();
                format!("other:{}", c)
            }
        }
    }
}

fn res_unit(r: std::io::Result<()>) -> String {
    match r {
        Ok(()) => "ok".into(),
        Err(e) => format!("err {}", err_class(&e)),
    }
}

/// Knob values under which C07 / C10 are stated (fault probabilities 0, capacity never reached):
/// every second fs seed sets them explicitly instead of leaving the defaults (`noatime(false)` is
/// documented to panic, so only `true`).  None of this may change an observation.
pub fn neutral_knobs(c: &mut FsConfig, fsseed: u64) {
    if fsseed % 2 == 0 {
        c.capacity(1 << 30);
        c.io_error_probability(0.0);
        c.corruption_probability(0.0);
        c.short_read_probability(0.0);
        c.noatime(true);
    }
}

pub fn new_fs(cfg: &crate::Cfg, host: usize) -> Fs {
    let mut c = FsConfig::default();
    if cfg.sync_p > 0 {
        c.sync_probability(cfg.sync_p as f64 / 100.0);
    }
    if cfg.block > 0 {
        c.block_size(cfg.block);
    }
    neutral_knobs(&mut c, cfg.fsseed);
    Fs::new(c, cfg.fsseed.wrapping_add(host as u64))
}

fn names_of(rd: sfs::ReadDir) -> Vec<String> {
    let mut v: Vec<String> = rd
        .filter_map(|e| e.ok())
        .map(|e| e.file_name().to_string_lossy().to_string())
        .collect();
    v.sort();
    v.dedup();
    v
}

/// Canonical view of one path (used by `dump`).
pub fn view_path(p: &str, tok: bool) -> String {
    let md = if tok { block_on(tfs::metadata(p)) } else { sfs::metadata(p) };
    match md {
        Err(_) => "n".into(),
        Ok(m) => {
            if m.is_dir() {
                let rd = if tok { block_on(tfs::read_dir(p)) } else { sfs::read_dir(p) };
                match rd {
                    Ok(rd) => format!("d:[{}]", names_of(rd).join(";")),
                    Err(e) => format!("d:!{}", err_class(&e)),
                }
            } else {
                let r = if tok { block_on(tfs::read(p)) } else { sfs::read(p) };
                match r {
                    Ok(b) => format!("f:{}:{}", m.len(), hex(&b)),
                    Err(e) => format!("f:!{}", err_class(&e)),
                }
            }
        }
    }
}

pub fn dump(pool: &[String], tok: bool) -> String {
    let mut parts = vec![format!("/={}", view_path("/", tok))];
    for p in pool {
        parts.push(format!("{}={}", p, view_path(p, tok)));
    }
    format!("dump {}", parts.join(" "))
}

fn open_opts_std(flags: &str) -> sfs::OpenOptions {
    let mut o = sfs::OpenOptions::new();
    o.read(flags.contains('r'))
        .write(flags.contains('w'))
        .append(flags.contains('a'))
        .truncate(flags.contains('t'))
        .create(flags.contains('c'))
        .create_new(flags.contains('n'));
    o
}

fn open_opts_tok(flags: &str) -> tfs::OpenOptions {
    let mut o = tfs::OpenOptions::new();
    o.read(flags.contains('r'))
        .write(flags.contains('w'))
        .append(flags.contains('a'))
        .truncate(flags.contains('t'))
        .create(flags.contains('c'))
        .create_new(flags.contains('n'));
    o
}

/// Execute one op (tokens after the actor) with the host's Fs entered.
/// Returns the canonical observation.
pub fn exec_op(host: &mut Host, tok: bool, t: &[&str], pool: &[String]) -> String {
    use tokio::io::{AsyncReadExt, AsyncSeekExt, AsyncWriteExt};
    let name = t[0];
    let slot_of = |s: &str| -> usize { s.parse::<usize>().unwrap_or(0) % NSLOTS };
    // every second op uses the alternative, equivalent API entry point where there is one
    host.tick += 1;
    let alt = host.tick % 2 == 0;
    let alt3 = host.tick % 3 == 0;
    match name {
        "open" => {
            let s = slot_of(t[1]);
            let path = t[2];
            let flags = t[3];
            // an occupied slot is closed first (drop) so that the table stays a function
            host.slots[s] = None;
            host.paths[s] = None;
            // File::open == OpenOptions r, File::create == OpenOptions w+create+truncate;
            // tokio File::from_std(std open) == tokio open
            let r = if tok {
                if alt && flags == "r" {
                    block_on(tfs::File::open(path)).map(Slot::Tok)
                } else if alt && flags == "wct" {
                    block_on(tfs::File::create(path)).map(Slot::Tok)
                } else if alt3 {
                    open_opts_std(flags).open(path).map(|f| Slot::Tok(tfs::File::from_std(f)))
                } else {
                    block_on(open_opts_tok(flags).open(path)).map(Slot::Tok)
                }
            } else if alt && flags == "r" {
                sfs::File::open(path).map(Slot::Std)
            } else if alt && flags == "wct" {
                sfs::File::create(path).map(Slot::Std)
            } else {
                open_opts_std(flags).open(path).map(Slot::Std)
            };
            match r {
                Ok(f) => {
                    host.slots[s] = Some(f);
                    host.paths[s] = Some(path.to_string());
                    "ok".into()
                }
                Err(e) => format!("err {}", err_class(&e)),
            }
        }
        "close" => {
            let s = slot_of(t[1]);
            host.paths[s] = None;
            match host.slots[s].take() {
                // tokio File::into_std then drop == drop
                Some(Slot::Tok(mut f)) if alt => {
                    // AsyncWriteExt::shutdown is a no-op that must succeed
                    if block_on(f.shutdown()).is_err() {
                        return "xcheck shutdown".into();
                    }
                    drop(f.into_std());
                    "ok".into()
                }
                Some(_) => "ok".into(),
                None => "noslot".into(),
            }
        }
        "clone" => {
            // File::try_clone: a second handle on the same file, own cursor at 0
            let s = slot_of(t[1]);
            let s2 = slot_of(t[2]);
            let r = match host.slots[s].as_ref() {
                None => return "noslot".into(),
                Some(Slot::Std(f)) => f.try_clone().map(Slot::Std),
                Some(Slot::Tok(f)) => block_on(f.try_clone()).map(Slot::Tok),
            };
            match r {
                Ok(f) => {
                    let p = host.paths[s].clone();
                    host.slots[s2] = Some(f);
                    host.paths[s2] = p;
                    "ok".into()
                }
                Err(e) => format!("err {}", err_class(&e)),
            }
        }
        "copy" => {
            let r = if tok { block_on(tfs::copy(t[1], t[2])) } else { sfs::copy(t[1], t[2]) };
            match r {
                Ok(n) => format!("ok {}", n),
                Err(e) => format!("err {}", err_class(&e)),
            }
        }
        "write_at" => {
            let s = slot_of(t[1]);
            let off: u64 = t[2].parse().unwrap();
            let data = unhex(t[3]);
            match host.slots[s].as_ref() {
                None => "noslot".into(),
                Some(Slot::Std(f)) => match f.write_at(&data, off) {
                    Ok(n) => format!("ok {}", n),
                    Err(e) => format!("err {}", err_class(&e)),
                },
                Some(Slot::Tok(f)) => match block_on(f.write_at(&data, off)) {
                    Ok(n) => format!("ok {}", n),
                    Err(e) => format!("err {}", err_class(&e)),
                },
            }
        }
        "read_at" => {
            let s = slot_of(t[1]);
            let off: u64 = t[2].parse().unwrap();
            let len: usize = t[3].parse().unwrap();
            let mut buf = vec![0xEEu8; len];
            match host.slots[s].as_ref() {
                None => "noslot".into(),
                Some(Slot::Std(f)) => match f.read_at(&mut buf, off) {
                    Ok(n) => format!("data {}", hex(&buf[..n])),
                    Err(e) => format!("err {}", err_class(&e)),
                },
                Some(Slot::Tok(f)) => match block_on(f.read_at(&mut buf, off)) {
                    Ok(n) => format!("data {}", hex(&buf[..n])),
                    Err(e) => format!("err {}", err_class(&e)),
                },
            }
        }
        "write" => {
            let s = slot_of(t[1]);
            let data = unhex(t[2]);
            match host.slots[s].as_mut() {
                None => "noslot".into(),
                Some(Slot::Std(f)) => match f.write(&data) {
                    Ok(n) => match f.flush() { Ok(()) => format!("ok {}", n), Err(_) => "xcheck flush".into() },
                    Err(e) => format!("err {}", err_class(&e)),
                },
                Some(Slot::Tok(f)) => match block_on(f.write(&data)) {
                    Ok(n) => match block_on(f.flush()) { Ok(()) => format!("ok {}", n), Err(_) => "xcheck flush".into() },
                    Err(e) => format!("err {}", err_class(&e)),
                },
            }
        }
        "read" => {
            let s = slot_of(t[1]);
            let len: usize = t[2].parse().unwrap();
            let mut buf = vec![0xEEu8; len];
            match host.slots[s].as_mut() {
                None => "noslot".into(),
                Some(Slot::Std(f)) => match f.read(&mut buf) {
                    Ok(n) => format!("data {}", hex(&buf[..n])),
                    Err(e) => format!("err {}", err_class(&e)),
                },
                Some(Slot::Tok(f)) => match block_on(f.read(&mut buf)) {
                    Ok(n) => format!("data {}", hex(&buf[..n])),
                    Err(e) => format!("err {}", err_class(&e)),
                },
            }
        }
        "seek" => {
            let s = slot_of(t[1]);
            let off: i64 = t[3].parse().unwrap();
            let pos = match t[2] {
                "start" => SeekFrom::Start(off.max(0) as u64),
                "cur" => SeekFrom::Current(off),
                _ => SeekFrom::End(off),
            };
            match host.slots[s].as_mut() {
                None => "noslot".into(),
                Some(Slot::Std(f)) => match f.seek(pos) {
                    Ok(n) => format!("ok {}", n),
                    Err(e) => format!("err {}", err_class(&e)),
                },
                Some(Slot::Tok(f)) => match block_on(f.seek(pos)) {
                    Ok(n) => format!("ok {}", n),
                    Err(e) => format!("err {}", err_class(&e)),
                },
            }
        }
        "set_len" => {
            let s = slot_of(t[1]);
            let n: u64 = t[2].parse().unwrap();
            match host.slots[s].as_ref() {
                None => "noslot".into(),
                Some(Slot::Std(f)) => res_unit(f.set_len(n)),
                Some(Slot::Tok(f)) => res_unit(block_on(f.set_len(n))),
            }
        }
        "sync_all" => {
            let s = slot_of(t[1]);
            match host.slots[s].as_ref() {
                None => "noslot".into(),
                Some(Slot::Std(f)) => res_unit(f.sync_all()),
                Some(Slot::Tok(f)) => res_unit(block_on(f.sync_all())),
            }
        }
        "sync_data" => {
            let s = slot_of(t[1]);
            match host.slots[s].as_ref() {
                None => "noslot".into(),
                Some(Slot::Std(f)) => res_unit(f.sync_data()),
                Some(Slot::Tok(f)) => res_unit(block_on(f.sync_data())),
            }
        }
        "hmeta" => {
            let s = slot_of(t[1]);
            let r = match host.slots[s].as_ref() {
                None => return "noslot".into(),
                Some(Slot::Std(f)) => f.metadata(),
                Some(Slot::Tok(f)) => block_on(f.metadata()),
            };
            // File::path / is_direct_io cross-check
            let (fp, dio) = match host.slots[s].as_ref() {
                Some(Slot::Std(f)) => (f.path(), f.is_direct_io()),
                Some(Slot::Tok(_)) | None => (host.paths[s].clone().map(std::path::PathBuf::from), false),
            };
            if fp != host.paths[s].clone().map(std::path::PathBuf::from) || dio {
                return "xcheck file-path".into();
            }
            match r {
                Ok(m) => {
                    use std::os::unix::fs::MetadataExt;
                    if m.size() != m.len() || !m.is_file() || m.is_dir() || m.file_type().is_dir() {
                        return "xcheck file-metadata".into();
                    }
                    format!("file {}", m.len())
                }
                Err(e) => format!("err {}", err_class(&e)),
            }
        }
        // DirBuilder::create == create_dir, DirBuilder::recursive(true).create == create_dir_all
        "mkdir" => res_unit(if tok {
            if alt { block_on(tfs::DirBuilder::new().create(t[1])) } else { block_on(tfs::create_dir(t[1])) }
        } else if alt {
            sfs::DirBuilder::new().create(t[1])
        } else {
            sfs::create_dir(t[1])
        }),
        "mkdir_all" => res_unit(if tok {
            if alt { block_on(tfs::DirBuilder::new().recursive(true).create(t[1])) } else { block_on(tfs::create_dir_all(t[1])) }
        } else if alt {
            sfs::DirBuilder::new().recursive(true).create(t[1])
        } else {
            sfs::create_dir_all(t[1])
        }),
        "rmdir" => res_unit(if tok { block_on(tfs::remove_dir(t[1])) } else { sfs::remove_dir(t[1]) }),
        "rmdir_all" => res_unit(if tok { block_on(tfs::remove_dir_all(t[1])) } else { sfs::remove_dir_all(t[1]) }),
        "unlink" => res_unit(if tok { block_on(tfs::remove_file(t[1])) } else { sfs::remove_file(t[1]) }),
        "rename" => res_unit(if tok { block_on(tfs::rename(t[1], t[2])) } else { sfs::rename(t[1], t[2]) }),
        "sync_dir" => res_unit(if tok { block_on(tfs::sync_dir(t[1])) } else { sfs::sync_dir(t[1]) }),
        "read_dir" => {
            let r = if tok { block_on(tfs::read_dir(t[1])) } else { sfs::read_dir(t[1]) };
            match r {
                Ok(rd) => {
                    // DirEntry::{path, file_name, file_type, metadata} against metadata(path)
                    let ents: Vec<sfs::DirEntry> = rd.filter_map(|e| e.ok()).collect();
                    for e in &ents {
                        let p = e.path();
                        if p != std::path::Path::new(t[1]).join(e.file_name()) {
                            return "xcheck direntry-path".into();
                        }
                        match (e.metadata(), e.file_type(), sfs::metadata(&p)) {
                            (Ok(em), Ok(ft), Ok(m)) => {
                                if em.is_dir() != m.is_dir() || ft.is_dir() != m.is_dir() || ft.is_file() != m.is_file()
                                    || em.len() != m.len() || ft.is_symlink()
                                {
                                    return "xcheck direntry-metadata".into();
                                }
                            }
                            _ => return "xcheck direntry-missing".into(),
                        }
                    }
                    let mut v: Vec<String> = ents.iter().map(|e| e.file_name().to_string_lossy().to_string()).collect();
                    v.sort();
                    v.dedup();
                    format!("entries [{}]", v.join(";"))
                }
                Err(e) => format!("err {}", err_class(&e)),
            }
        }
        "stat" => {
            let r = if tok { block_on(tfs::metadata(t[1])) } else { sfs::metadata(t[1]) };
            // symlink_metadata == metadata (there are no symlinks); Metadata accessors agree
            let r2 = if tok { block_on(tfs::symlink_metadata(t[1])) } else { sfs::symlink_metadata(t[1]) };
            match (&r, &r2) {
                (Ok(m), Ok(m2)) => {
                    use std::os::unix::fs::MetadataExt;
                    if m.is_dir() != m2.is_dir() || m.len() != m2.len() || m.is_symlink() || m2.is_symlink()
                        || m.is_file() == m.is_dir() || m.file_type().is_dir() != m.is_dir() || m.size() != m.len()
                    {
                        return "xcheck symlink-metadata".into();
                    }
                }
                (Err(_), Err(_)) => {}
                _ => return "xcheck symlink-metadata-result".into(),
            }
            match r {
                Ok(m) => if m.is_dir() { "dir".into() } else { format!("file {}", m.len()) },
                Err(e) => format!("err {}", err_class(&e)),
            }
        }
        "exists" => {
            let b = if tok { block_on(tfs::try_exists(t[1])).unwrap_or(false) } else { sfs::exists(t[1]) };
            format!("{}", b)
        }
        "readfile" => {
            let r = if tok { block_on(tfs::read(t[1])) } else { sfs::read(t[1]) };
            // read_to_string == read for utf-8 contents
            let r2 = if tok { block_on(tfs::read_to_string(t[1])) } else { sfs::read_to_string(t[1]) };
            match (&r, &r2) {
                (Ok(b), Ok(s2)) => if b.as_slice() != s2.as_bytes() { return "xcheck read_to_string".into(); },
                (Ok(b), Err(_)) => if std::str::from_utf8(b).is_ok() { return "xcheck read_to_string-err".into(); },
                (Err(_), Ok(_)) => return "xcheck read_to_string-ok".into(),
                (Err(_), Err(_)) => {}
            }
            match r {
                Ok(b) => format!("data {}", hex(&b)),
                Err(e) => format!("err {}", err_class(&e)),
            }
        }
        "writefile" => {
            let data = unhex(t[2]);
            res_unit(if tok { block_on(tfs::write(t[1], &data)) } else { sfs::write(t[1], &data) })
        }
        "dump" => dump(pool, tok),
        "crash" => {
            // mirrors Sim::crash: the host's tasks (and with them every File) are
            // dropped first, then the fs crash hook runs.
            for s in host.slots.iter_mut() {
                *s = None;
            }
            for p in host.paths.iter_mut() {
                *p = None;
            }
            host.fs.lock().unwrap().crash();
            "ok".into()
        }
        other => format!("unknownop {}", other),
    }
}

pub fn run_case(case: &Case) -> Vec<String> {
    let mut out = Vec::with_capacity(case.ops.len() * 2 + 2);
    let r = std::panic::catch_unwind(std::panic::AssertUnwindSafe(|| {
        let mut hosts: Vec<Host> = (0..NHOSTS)
            .map(|h| Host::new(Arc::new(Mutex::new(new_fs(&case.cfg, h)))))
            .collect();
        let _ = turmoil_fs::verif::take();
        let mut lines: Vec<String> = vec![];
        for (i, op) in case.ops.iter().enumerate() {
            lines.push(format!("OP {}", op));
            let toks: Vec<&str> = op.split_whitespace().collect();
            if toks.len() < 2 {
                lines.push("OBS badop".into());
                continue;
            }
            let actor = toks[0];
            let tok = actor.starts_with('t');
            let h: usize = actor[1..].parse::<usize>().unwrap_or(0) % NHOSTS;
            let arc = Arc::clone(&hosts[h].fs);
            let obs = {
                let _g = turmoil_fs::enter(
                    &arc,
                    EnterCtx { now: Duration::from_millis(i as u64 + 1), on_corruption: None },
                );
                let r = std::panic::catch_unwind(std::panic::AssertUnwindSafe(|| {
                    exec_op(&mut hosts[h], tok, &toks[1..], &case.cfg.pool)
                }));
                match r {
                    Ok(o) => o,
                    Err(_) => "panic op".to_string(),
                }
            };
            for (k, v) in turmoil_fs::verif::take() {
                lines.push(format!("ORA {} {}", k, v));
            }
            lines.push(format!("OBS {}", obs));
        }
        // drop files with their fs entered so that Drop can unregister
        for h in hosts.iter_mut() {
            let arc = Arc::clone(&h.fs);
            let _g = turmoil_fs::enter(&arc, EnterCtx { now: Duration::ZERO, on_corruption: None });
            for s in h.slots.iter_mut() {
                *s = None;
            }
        }
        lines
    }));
    match r {
        Ok(l) => out.extend(l),
        Err(_) => out.push("OBS panic case".into()),
    }
    out
}
