//! Case generators for C10 (no crash) and C07 (crash after every prefix).

use crate::exec::hex;
use crate::rng::Rng;
use crate::{Case, Cfg};
use std::collections::BTreeMap;

pub fn default_pool() -> Vec<String> {
    ["/a", "/b", "/d", "/e", "/d/a", "/d/b", "/d/e", "/d/e/a", "/e/a", "/e/b"]
        .iter()
        .map(|s| s.to_string())
        .collect()
}

fn small_pool() -> Vec<String> {
    ["/a", "/b", "/d", "/e", "/d/a", "/e/a"].iter().map(|s| s.to_string()).collect()
}

fn cfg(sync_p: u32, block: u64, fsseed: u64, pool: Vec<String>) -> Cfg {
    Cfg { sync_p, block, fsseed, pool, via: "direct".into() }
}

// ---------------------------------------------------------------- macro ops

/// A macro op expands to a few OP lines on slot 3 (reserved for macros).
#[derive(Clone, Debug)]
pub enum M {
    WriteFile(&'static str, &'static [u8]),
    Create(&'static str),
    PWrite(&'static str, u64, &'static [u8]),
    Trunc(&'static str, u64),
    Fsync(&'static str),
    Fdsync(&'static str),
    SyncDir(&'static str),
    Rename(&'static str, &'static str),
    Unlink(&'static str),
    Mkdir(&'static str),
    Rmdir(&'static str),
    Append(&'static str, &'static [u8]),
}

pub fn expand(m: &M, actor: &str, out: &mut Vec<String>) {
    let a = actor;
    match m {
        M::WriteFile(p, d) => out.push(format!("{a} writefile {p} {}", hex(d))),
        M::Create(p) => {
            out.push(format!("{a} open 3 {p} wc"));
            out.push(format!("{a} close 3"));
        }
        M::PWrite(p, off, d) => {
            out.push(format!("{a} open 3 {p} w"));
            out.push(format!("{a} write_at 3 {off} {}", hex(d)));
            out.push(format!("{a} close 3"));
        }
        M::Append(p, d) => {
            out.push(format!("{a} open 3 {p} a"));
            out.push(format!("{a} write 3 {}", hex(d)));
            out.push(format!("{a} close 3"));
        }
        M::Trunc(p, n) => {
            out.push(format!("{a} open 3 {p} w"));
            out.push(format!("{a} set_len 3 {n}"));
            out.push(format!("{a} close 3"));
        }
        M::Fsync(p) => {
            out.push(format!("{a} open 3 {p} r"));
            out.push(format!("{a} sync_all 3"));
            out.push(format!("{a} close 3"));
        }
        M::Fdsync(p) => {
            out.push(format!("{a} open 3 {p} r"));
            out.push(format!("{a} sync_data 3"));
            out.push(format!("{a} close 3"));
        }
        M::SyncDir(p) => out.push(format!("{a} sync_dir {p}")),
        M::Rename(p, q) => out.push(format!("{a} rename {p} {q}")),
        M::Unlink(p) => out.push(format!("{a} unlink {p}")),
        M::Mkdir(p) => out.push(format!("{a} mkdir {p}")),
        M::Rmdir(p) => out.push(format!("{a} rmdir {p}")),
    }
}

/// Reduced alphabet for exhaustive enumeration: 2 files, 1 dir (+ its rename target).
pub fn alphabet(full: bool) -> Vec<M> {
    let mut v = vec![
        M::WriteFile("/a", b"AB"),
        M::PWrite("/a", 1, b"CDE"),
        M::Trunc("/a", 1),
        M::Trunc("/a", 3),
        M::Fsync("/a"),
        M::SyncDir("/"),
        M::Rename("/a", "/b"),
        M::Rename("/b", "/a"),
        M::Unlink("/a"),
        M::Mkdir("/d"),
        M::Rename("/a", "/d/a"),
        M::SyncDir("/d"),
    ];
    if full {
        v.extend(vec![
            M::WriteFile("/b", b"Z"),
            M::Rmdir("/d"),
            M::Rename("/d", "/e"),
            M::PWrite("/b", 0, b"XY"),
            M::Create("/a"),
            M::Rename("/d/a", "/a"),
            M::Rename("/a", "/d"),
            M::Rename("/d", "/a"),
        ]);
    }
    v
}

fn enumerate(alpha: &[M], len: usize, f: &mut dyn FnMut(&[usize])) {
    let mut idx = vec![0usize; len];
    if len == 0 {
        f(&idx);
        return;
    }
    loop {
        f(&idx);
        let mut i = len;
        loop {
            if i == 0 {
                return;
            }
            i -= 1;
            idx[i] += 1;
            if idx[i] < alpha.len() {
                break;
            }
            idx[i] = 0;
        }
    }
}

// ---------------------------------------------------------------- random ops

const DATA: [&[u8]; 6] = [b"A", b"BC", b"DEF", b"GHIJ", b"KLMNO", b"PQRSTUV"];
const FLAGS: [&str; 14] = [
    "r", "w", "rw", "wc", "rwc", "wct", "rwct", "wn", "rwn", "a", "ac", "ra", "wt", "rwt",
];

struct Shadow {
    files: Vec<String>,
    dirs: Vec<String>,
    open: [bool; 3],
    /// a name may be file and directory at once (create over a directory): remove_dir_all's
    /// HashSet iteration order then decides where it fails, so it is no longer generated
    weird: bool,
}

impl Shadow {
    fn new() -> Self {
        Shadow { files: vec![], dirs: vec![], open: [false; 3], weird: false }
    }
    fn parent_ok(&self, p: &str) -> bool {
        match p.rfind('/') {
            Some(0) | None => true,
            Some(i) => self.dirs.iter().any(|d| d == &p[..i]),
        }
    }
}

fn rand_op(r: &mut Rng, sh: &mut Shadow, pool: &[String], with_sync: bool, actor: &str) -> String {
    let file_cands: Vec<&String> = pool.iter().filter(|p| p.ends_with("/a") || p.ends_with("/b")).collect();
    let dir_cands: Vec<&String> = pool.iter().filter(|p| p.ends_with("/d") || p.ends_with("/e")).collect();
    let pick_file = |r: &mut Rng, sh: &Shadow| -> String {
        if !sh.files.is_empty() && r.chance(3, 4) {
            r.pick(&sh.files).clone()
        } else {
            let ok: Vec<&&String> = file_cands.iter().filter(|p| sh.parent_ok(p)).collect();
            if !ok.is_empty() && r.chance(7, 8) { (**r.pick(&ok)).clone() } else { (*r.pick(&file_cands)).clone() }
        }
    };
    let pick_dir = |r: &mut Rng, sh: &Shadow| -> String {
        if !sh.dirs.is_empty() && r.chance(3, 4) {
            r.pick(&sh.dirs).clone()
        } else {
            (*r.pick(&dir_cands)).clone()
        }
    };
    let a = actor;
    loop {
        let k = r.below(100);
        let slot = r.below(3);
        let any_open = sh.open.iter().any(|b| *b);
        let oslot = if any_open {
            let mut s = r.below(3);
            while !sh.open[s] {
                s = (s + 1) % 3;
            }
            s
        } else {
            slot
        };
        match k {
            0..=13 => {
                let p = pick_file(r, sh);
                let mut fl = *r.pick(&FLAGS[..]);
                if !sh.files.contains(&p) && r.chance(4, 5) {
                    fl = *r.pick(&["wc", "rwc", "wct", "rwn", "ac", "rwct"][..]);
                }
                if (fl.contains('c') || fl.contains('n')) && sh.parent_ok(&p) && !sh.files.contains(&p) && !sh.dirs.contains(&p) {
                    sh.files.push(p.clone());
                }
                if sh.files.contains(&p) {
                    sh.open[slot] = true;
                }
                return format!("{a} open {slot} {p} {fl}");
            }
            14..=17 => {
                if !any_open { continue; }
                sh.open[oslot] = false;
                return format!("{a} close {oslot}");
            }
            18..=29 => {
                if !any_open { continue; }
                return format!("{a} write_at {oslot} {} {}", r.below(7), hex(*r.pick(&DATA[..])));
            }
            30..=35 => {
                if !any_open { continue; }
                return format!("{a} read_at {oslot} {} {}", r.below(7), 1 + r.below(8));
            }
            36..=41 => {
                if !any_open { continue; }
                return format!("{a} write {oslot} {}", hex(*r.pick(&DATA[..])));
            }
            42..=45 => {
                if !any_open { continue; }
                return format!("{a} read {oslot} {}", 1 + r.below(6));
            }
            46..=49 => {
                if !any_open { continue; }
                let wh = *r.pick(&["start", "cur", "end"][..]);
                let off: i64 = match wh {
                    "start" => r.below(8) as i64,
                    _ => r.below(7) as i64 - 3,
                };
                return format!("{a} seek {oslot} {wh} {off}");
            }
            50..=57 => {
                if !any_open { continue; }
                return format!("{a} set_len {oslot} {}", r.below(9));
            }
            58..=61 => {
                if !any_open || !with_sync { continue; }
                return format!("{a} sync_all {oslot}");
            }
            62..=63 => {
                if !any_open || !with_sync { continue; }
                return format!("{a} sync_data {oslot}");
            }
            64 => {
                if !any_open { continue; }
                return format!("{a} hmeta {oslot}");
            }
            65..=69 => {
                let p = pick_dir(r, sh);
                if sh.parent_ok(&p) && !sh.dirs.contains(&p) && !sh.files.contains(&p) {
                    sh.dirs.push(p.clone());
                }
                return format!("{a} mkdir {p}");
            }
            70 => {
                let p = pick_dir(r, sh);
                return format!("{a} mkdir_all {p}");
            }
            71..=72 => {
                let p = pick_dir(r, sh);
                sh.dirs.retain(|d| d != &p);
                return format!("{a} rmdir {p}");
            }
            73 => {
                if sh.weird { continue; }
                let p = pick_dir(r, sh);
                let pre = format!("{}/", p);
                sh.dirs.retain(|d| d != &p && !d.starts_with(&pre));
                sh.files.retain(|d| !d.starts_with(&pre));
                return format!("{a} rmdir_all {p}");
            }
            74..=78 => {
                if sh.files.is_empty() && r.chance(5, 6) { continue; }
                let p = pick_file(r, sh);
                sh.files.retain(|d| d != &p);
                return format!("{a} unlink {p}");
            }
            79..=86 => {
                // rename file
                if sh.files.is_empty() && r.chance(5, 6) { continue; }
                let p = if !sh.files.is_empty() && r.chance(9, 10) { r.pick(&sh.files).clone() } else { pick_file(r, sh) };
                let q = pick_file(r, sh);
                if p == q { continue; }
                if sh.files.contains(&p) && sh.parent_ok(&q) && !sh.dirs.contains(&q) {
                    sh.files.retain(|d| d != &p);
                    if !sh.files.contains(&q) {
                        sh.files.push(q.clone());
                    }
                }
                return format!("{a} rename {p} {q}");
            }
            87..=88 => {
                let p = pick_dir(r, sh);
                let q = pick_dir(r, sh);
                if p == q || q.starts_with(&format!("{}/", p)) { continue; }
                if sh.dirs.contains(&p) && sh.parent_ok(&q) && !sh.files.contains(&q) {
                    let pre = format!("{}/", p);
                    let mv = |s: &String| -> String {
                        if s == &p { q.clone() } else if s.starts_with(&pre) { format!("{}/{}", q, &s[pre.len()..]) } else { s.clone() }
                    };
                    sh.dirs = sh.dirs.iter().map(mv).collect();
                    sh.files = sh.files.iter().map(mv).collect();
                }
                return format!("{a} rename {p} {q}");
            }
            89..=91 => {
                if !with_sync { continue; }
                let p = if r.chance(1, 2) { "/".to_string() } else { pick_dir(r, sh) };
                return format!("{a} sync_dir {p}");
            }
            92 => {
                let p = if r.chance(1, 3) { "/".to_string() } else { pick_dir(r, sh) };
                return format!("{a} read_dir {p}");
            }
            93..=94 => {
                let p = if r.chance(1, 2) { pick_file(r, sh) } else { pick_dir(r, sh) };
                return format!("{a} stat {p}");
            }
            95 => {
                // kind confusion: rename file <-> directory names, mkdir over a file, create over a dir
                let f = pick_file(r, sh);
                let d = pick_dir(r, sh);
                sh.weird = true;
                match r.below(5) {
                    0 => return format!("{a} rename {f} {d}"),
                    1 => {
                        if f.starts_with(&format!("{}/", d)) { continue; }
                        return format!("{a} rename {d} {f}");
                    }
                    2 => return format!("{a} mkdir {f}"),
                    3 => return format!("{a} open {slot} {d} wc"),
                    _ => return format!("{a} exists {f}"),
                }
            }
            96 => {
                let p = pick_file(r, sh);
                return format!("{a} readfile {p}");
            }
            _ => {
                let p = pick_file(r, sh);
                if sh.parent_ok(&p) && !sh.files.contains(&p) && !sh.dirs.contains(&p) {
                    sh.files.push(p.clone());
                }
                return format!("{a} writefile {p} {}", hex(*r.pick(&DATA[..])));
            }
        }
    }
}

fn rand_history(r: &mut Rng, len: usize, pool: &[String], with_sync: bool, mixed: bool, host: usize) -> Vec<String> {
    let mut sh = Shadow::new();
    let mut ops = vec![];
    // usually start with some structure so that the interesting ops are valid
    if r.chance(2, 3) {
        ops.push(format!("s{host} mkdir /d"));
        sh.dirs.push("/d".into());
    }
    for _ in 0..len {
        let front = if mixed && r.chance(1, 3) { "t" } else { "s" };
        let actor = format!("{front}{host}");
        ops.push(rand_op(r, &mut sh, pool, with_sync, &actor));
    }
    ops
}

/// like `rand_history`, with `copy` (fs::copy) and `clone` (File::try_clone) mixed in
fn rand_history_api(r: &mut Rng, len: usize, pool: &[String], host: usize) -> Vec<String> {
    let mut sh = Shadow::new();
    let mut ops = vec![];
    if r.chance(2, 3) {
        ops.push(format!("s{host} mkdir /d"));
        sh.dirs.push("/d".into());
    }
    let files: Vec<&String> = pool.iter().filter(|p| p.ends_with("/a") || p.ends_with("/b")).collect();
    for _ in 0..len {
        let front = if r.chance(1, 3) { "t" } else { "s" };
        let actor = format!("{front}{host}");
        match r.below(10) {
            0 | 1 => {
                let p = if !sh.files.is_empty() && r.chance(5, 6) { r.pick(&sh.files).clone() } else { (*r.pick(&files)).clone() };
                let q = if r.chance(1, 8) { "/d".to_string() } else { (*r.pick(&files)).clone() };
                if sh.files.contains(&p) && sh.parent_ok(&q) && !sh.dirs.contains(&q) && !sh.files.contains(&q) {
                    sh.files.push(q.clone());
                }
                ops.push(format!("{actor} copy {p} {q}"));
            }
            2 | 3 => {
                let s = r.below(3);
                let s2 = r.below(3);
                // move the source cursor away from 0 first and use the clone's cursor right after
                let probe = sh.open[s] && r.chance(2, 3);
                if probe {
                    ops.push(format!("{actor} seek {s} start {}", 1 + r.below(4)));
                }
                if sh.open[s] {
                    sh.open[s2] = true;
                }
                ops.push(format!("{actor} clone {s} {s2}"));
                if probe {
                    match r.below(4) {
                        0 => ops.push(format!("{actor} write {s2} {}", hex(*r.pick(&DATA[..])))),
                        1 => ops.push(format!("{actor} read {s2} 3")),
                        2 => ops.push(format!("{actor} seek {s2} cur 0")),
                        _ => ops.push(format!("{actor} write {s} {}", hex(*r.pick(&DATA[..])))),
                    }
                }
            }
            _ => ops.push(rand_op(r, &mut sh, pool, true, &actor)),
        }
    }
    ops
}

// ---------------------------------------------------------------- families

pub fn generate(
    prop: &str,
    tier: &str,
    seed: u64,
    cases: Option<usize>,
    family: Option<&str>,
    emit: &mut dyn FnMut(Case),
) {
    let want = |f: &str| family.map(|x| x == f).unwrap_or(true);
    let mut r = Rng::new(seed);
    let thorough = tier == "thorough";
    let search = tier == "search";
    match prop {
        "C10" => {
            if want("exh") && !search {
                // all macro histories of length L with a dump after every macro op
                let plan: Vec<(bool, usize)> =
                    if thorough { vec![(true, 3), (true, 4)] } else { vec![(true, 3), (false, 4)] };
                for (full, len) in plan {
                    let alpha = alphabet(full);
                    enumerate(&alpha, len, &mut |idx| {
                        let mut ops = vec![];
                        for (k, i) in idx.iter().enumerate() {
                            let actor = if k % 2 == 1 && idx[0] % 2 == 0 { "t0" } else { "s0" };
                            expand(&alpha[*i], actor, &mut ops);
                            ops.push("s0 dump".to_string());
                        }
                        emit(Case { family: format!("exh{}{}", len, if full { "f" } else { "r" }), seed, cfg: cfg(0, 0, 1, small_pool()), ops });
                    });
                }
            }
            if want("rand") {
                let n = cases.unwrap_or(if thorough { 60_000 } else if search { 8_000 } else { 12_000 });
                for i in 0..n {
                    let len = 3 + r.below(14);
                    let with_sync = r.chance(2, 3);
                    let mut ops = rand_history(&mut r, len, &default_pool(), with_sync, true, 0);
                    // a couple of probes along the way, and a dump at the end
                    let at = r.below(ops.len() + 1);
                    ops.insert(at, "s0 dump".to_string());
                    ops.push("t0 dump".to_string());
                    emit(Case { family: "rand".into(), seed: seed.wrapping_add(i as u64), cfg: cfg(0, 0, 1, default_pool()), ops });
                }
            }
            if want("syncins") && !search {
                // a sync-free history, then the same history with one sync inserted at each position
                let n = cases.map(|c| c / 20).unwrap_or(if thorough { 1500 } else { 60 });
                for i in 0..n {
                    let len = 3 + r.below(8);
                    let base = rand_history(&mut r, len, &default_pool(), false, false, 0);
                    let syncs = ["s0 sync_dir /", "s0 sync_dir /d", "s0 sync_all 0", "s0 sync_data 1", "s0 sync_all 2"];
                    for pos in 0..=base.len() {
                        let mut ops = base.clone();
                        ops.insert(pos, r.pick(&syncs[..]).to_string());
                        ops.push("s0 dump".into());
                        emit(Case { family: "syncins".into(), seed: seed.wrapping_add(i as u64), cfg: cfg(0, 0, 1, default_pool()), ops });
                    }
                }
            }
            if want("iso") && !search {
                // two independent Fs instances, identical path names, interleaved
                let n = cases.map(|c| c / 10).unwrap_or(if thorough { 4000 } else { 200 });
                for i in 0..n {
                    let la = 2 + r.below(8);
                    let lb = 2 + r.below(8);
                    let a = rand_history(&mut r, la, &default_pool(), true, true, 0);
                    let b = rand_history(&mut r, lb, &default_pool(), true, true, 1);
                    let (mut ia, mut ib) = (0, 0);
                    let mut ops = vec![];
                    while ia < a.len() || ib < b.len() {
                        if ib >= b.len() || (ia < a.len() && r.chance(1, 2)) {
                            ops.push(a[ia].clone());
                            ia += 1;
                        } else {
                            ops.push(b[ib].clone());
                            ib += 1;
                        }
                    }
                    ops.push("s0 dump".into());
                    ops.push("s1 dump".into());
                    emit(Case { family: "iso".into(), seed: seed.wrapping_add(i as u64), cfg: cfg(0, 0, 1, default_pool()), ops });
                }
            }
            if want("api") && !search {
                // fs::copy and File::try_clone (own rng: the families above stay byte-identical)
                let mut ra = Rng::new(seed ^ 0xA11CE);
                let n = cases.map(|c| c / 10).unwrap_or(if thorough { 8000 } else { 1500 });
                for i in 0..n {
                    let len = 3 + ra.below(10);
                    let mut ops = rand_history_api(&mut ra, len, &default_pool(), 0);
                    let at = ra.below(ops.len() + 1);
                    ops.insert(at, "s0 dump".to_string());
                    ops.push("t0 dump".to_string());
                    emit(Case { family: "api".into(), seed: seed.wrapping_add(i as u64), cfg: cfg(0, 0, 1 + i as u64, default_pool()), ops });
                }
            }
        }
        "C07" => {
            if want("exh") && !search {
                // every macro history of length <= L, then crash, then dump: since all
                // lengths are enumerated this is a crash after every prefix of every history.
                let plan: Vec<(bool, usize)> = if thorough {
                    vec![(true, 1), (true, 2), (true, 3), (true, 4)]
                } else {
                    vec![(true, 1), (true, 2), (true, 3), (false, 4)]
                };
                for (full, len) in plan {
                    let alpha = alphabet(full);
                    enumerate(&alpha, len, &mut |idx| {
                        let mut ops = vec![];
                        for i in idx.iter() {
                            expand(&alpha[*i], "s0", &mut ops);
                        }
                        ops.push("s0 crash".into());
                        ops.push("s0 dump".into());
                        emit(Case { family: format!("exh{}{}", len, if full { "f" } else { "r" }), seed, cfg: cfg(0, 0, 1, small_pool()), ops });
                    });
                }
            }
            if want("ent") && !search {
                // directory-entry durability: every history of length L over two narrow alphabets
                // (one flat, one with a sub-directory) whose letters only create, sync, move and
                // remove entries - long enough for establish / move / sync / re-create / crash.
                let flat = vec![
                    M::WriteFile("/a", b"AB"),
                    M::Fsync("/a"),
                    M::SyncDir("/"),
                    M::Rename("/a", "/b"),
                    M::Rename("/b", "/a"),
                    M::Unlink("/a"),
                    M::WriteFile("/b", b"Z"),
                ];
                let sub = vec![
                    M::WriteFile("/a", b"AB"),
                    M::SyncDir("/"),
                    M::Mkdir("/d"),
                    M::Rename("/a", "/d/a"),
                    M::Rename("/d/a", "/a"),
                    M::SyncDir("/d"),
                    M::Fsync("/a"),
                ];
                // a durable *directory* name is removed, the removal made durable, and the name comes
                // back as a file that is fsynced but never entered durably (and the other way round in
                // thorough): the entry bookkeeping of a flushed remove_dir is what decides the outcome
                let kind = if thorough {
                    vec![
                        M::Mkdir("/d"),
                        M::SyncDir("/"),
                        M::Rmdir("/d"),
                        M::WriteFile("/d", b"AB"),
                        M::Fsync("/d"),
                        M::Unlink("/d"),
                        M::SyncDir("/d"),
                    ]
                } else {
                    vec![M::Mkdir("/d"), M::SyncDir("/"), M::Rmdir("/d"), M::WriteFile("/d", b"AB"), M::Fsync("/d")]
                };
                enumerate(&kind, 6, &mut |idx| {
                    let mut ops = vec![];
                    for i in idx.iter() {
                        expand(&kind[*i], "s0", &mut ops);
                    }
                    ops.push("s0 crash".into());
                    ops.push("s0 dump".into());
                    emit(Case { family: "entk6".into(), seed, cfg: cfg(0, 0, 1, small_pool()), ops });
                });
                // two levels of directories: an entry can be durable while its parent, or only its
                // grandparent, is not — the crash image must still be a tree (every proper ancestor)
                let deep = vec![
                    M::Mkdir("/d"),
                    M::Mkdir("/d/e"),
                    M::WriteFile("/d/e/a", b"AB"),
                    M::Fsync("/d/e/a"),
                    M::SyncDir("/d/e"),
                    M::SyncDir("/d"),
                    M::SyncDir("/"),
                ];
                enumerate(&deep, if thorough { 6 } else { 5 }, &mut |idx| {
                    let mut ops = vec![];
                    for i in idx.iter() {
                        expand(&deep[*i], "s0", &mut ops);
                    }
                    ops.push("s0 crash".into());
                    ops.push("s0 dump".into());
                    emit(Case { family: "entd".into(), seed, cfg: cfg(0, 0, 1, default_pool()), ops });
                });
                let lens: Vec<usize> = if thorough { vec![5, 6] } else { vec![5] };
                for (name, alpha) in [("entf", &flat), ("ents", &sub)] {
                    for len in lens.iter() {
                        enumerate(alpha, *len, &mut |idx| {
                            let mut ops = vec![];
                            for i in idx.iter() {
                                expand(&alpha[*i], "s0", &mut ops);
                            }
                            ops.push("s0 crash".into());
                            ops.push("s0 dump".into());
                            emit(Case { family: format!("{}{}", name, len), seed, cfg: cfg(0, 0, 1, small_pool()), ops });
                        });
                    }
                }
            }
            if want("rand") {
                let n = cases.unwrap_or(if thorough { 6_000 } else if search { 1_500 } else { 2_000 });
                for i in 0..n {
                    let len = 3 + r.below(12);
                    let hist = rand_history(&mut r, len, &default_pool(), true, true, 0);
                    let (sp, bl) = match i % 4 {
                        0 => (0, 0),
                        1 => (0, 2),
                        2 => (50, 0),
                        _ => (30, 3),
                    };
                    let fsseed = r.next() % 1000;
                    for k in 0..=hist.len() {
                        let mut ops: Vec<String> = hist[..k].to_vec();
                        ops.push("s0 crash".into());
                        ops.push("s0 dump".into());
                        let cont = k < hist.len() && r.chance(1, 3);
                        if cont {
                            // crash - continue - crash
                            ops.extend(hist[k..].iter().cloned());
                            ops.push("s0 crash".into());
                            ops.push("t0 dump".into());
                            if r.chance(1, 2) {
                                ops.push("s0 crash".into());
                                ops.push("s0 dump".into());
                            }
                        }
                        emit(Case { family: if cont { "randcc".into() } else { "rand".into() }, seed: seed.wrapping_add(i as u64), cfg: cfg(sp, bl, fsseed, default_pool()), ops });
                    }
                }
            }
            if want("iso") && !search {
                let n = cases.map(|c| c / 10).unwrap_or(if thorough { 1500 } else { 100 });
                for i in 0..n {
                    let la = 2 + r.below(8);
                    let lb = 2 + r.below(8);
                    let a = rand_history(&mut r, la, &default_pool(), true, false, 0);
                    let b = rand_history(&mut r, lb, &default_pool(), true, false, 1);
                    let mut ops = vec![];
                    let ca = r.below(a.len() + 1);
                    for (j, x) in a.iter().enumerate() {
                        if j == ca { ops.push("s0 crash".into()); }
                        ops.push(x.clone());
                        if j < b.len() { ops.push(b[j].clone()); }
                    }
                    ops.push("s0 dump".into());
                    ops.push("s1 dump".into());
                    ops.push("s1 crash".into());
                    ops.push("s0 dump".into());
                    ops.push("s1 dump".into());
                    emit(Case { family: "iso".into(), seed: seed.wrapping_add(i as u64), cfg: cfg(0, 0, 1, default_pool()), ops });
                }
            }
            if want("sim") && !search {
                // through a real turmoil::Sim: the software parks, or has already returned Ok when
                // Sim::crash comes (host down); crash by name / by regex set / twice; the dump runs in
                // the next incarnation; crash - continue - crash - crash-after-return.
                let n = cases.map(|c| c / 20).unwrap_or(if thorough { 1500 } else { 150 });
                let vias = ["sim", "sim-ret", "sim-retlate"];
                let crashes = ["s0 crash", "s0 crash re", "s0 crash twice"];
                for i in 0..n {
                    let len = 2 + r.below(8);
                    let hist = rand_history(&mut r, len, &default_pool(), true, true, 0);
                    let k = r.below(hist.len() + 1);
                    let (sp, bl) = match i % 5 { 3 => (50, 0), 4 => (0, 2), _ => (0, 0) };
                    for via in vias.iter() {
                        // (a) crash after a prefix, dump from the next incarnation
                        let mut ops: Vec<String> = hist[..k].to_vec();
                        ops.push(r.pick(&crashes[..]).to_string());
                        ops.push("s0 dump".into());
                        let mut c = cfg(sp, bl, 1 + i as u64, default_pool());
                        c.via = via.to_string();
                        emit(Case { family: via.to_string(), seed: seed.wrapping_add(i as u64), cfg: c.clone(), ops });
                        // (b) crash - continue - crash, and once more after the last incarnation is over
                        let mut ops: Vec<String> = hist[..k].to_vec();
                        ops.push(r.pick(&crashes[..]).to_string());
                        ops.push("s0 dump".into());
                        ops.extend(hist[k..].iter().cloned());
                        ops.push(r.pick(&crashes[..]).to_string());
                        ops.push("t0 dump".into());
                        ops.push("s0 crash".into());
                        ops.push("s0 dump".into());
                        emit(Case { family: format!("{}-cc", via), seed: seed.wrapping_add(i as u64), cfg: c, ops });
                    }
                }
                // the macro alphabet, every history of length 2 (thorough: 3), software returns, crash, dump
                let alpha = alphabet(true);
                let l = if thorough { 3 } else { 2 };
                enumerate(&alpha, l, &mut |idx| {
                    let mut ops = vec![];
                    for i in idx.iter() {
                        expand(&alpha[*i], "s0", &mut ops);
                    }
                    ops.push("s0 crash".into());
                    ops.push("s0 dump".into());
                    let mut c = cfg(0, 0, 1, small_pool());
                    c.via = "sim-ret".into();
                    emit(Case { family: format!("sim-ret-exh{}", l), seed, cfg: c, ops });
                });
            }
            if want("api") && !search {
                // fs::copy and File::try_clone before a crash (own rng, see C10)
                let mut ra = Rng::new(seed ^ 0xA11CE);
                let n = cases.map(|c| c / 10).unwrap_or(if thorough { 3000 } else { 400 });
                for i in 0..n {
                    let len = 3 + ra.below(9);
                    let hist = rand_history_api(&mut ra, len, &default_pool(), 0);
                    let (sp, bl) = match i % 4 { 1 => (0, 2), 2 => (50, 0), _ => (0, 0) };
                    for k in 1..=hist.len() {
                        if !(hist[k - 1].contains(" copy ") || hist[k - 1].contains(" clone ") || k == hist.len() || ra.chance(1, 3)) {
                            continue;
                        }
                        let mut ops: Vec<String> = hist[..k].to_vec();
                        ops.push("s0 crash".into());
                        ops.push("s0 dump".into());
                        emit(Case { family: "api".into(), seed: seed.wrapping_add(i as u64), cfg: cfg(sp, bl, 1 + i as u64, default_pool()), ops });
                    }
                }
            }
        }
        _ => {
            eprintln!("unknown property {prop}");
            std::process::exit(2);
        }
    }
}

// ---------------------------------------------------------------- stats

#[derive(Default)]
pub struct Stats {
    cases: usize,
    ops: usize,
    by_family: BTreeMap<String, usize>,
    by_op: BTreeMap<String, usize>,
    by_obs: BTreeMap<String, usize>,
    ora: usize,
    len_hist: BTreeMap<usize, usize>,
}

impl Stats {
    pub fn record(&mut self, case: &Case, lines: &[String]) {
        self.cases += 1;
        *self.by_family.entry(case.family.clone()).or_default() += 1;
        *self.len_hist.entry(case.ops.len().min(40)).or_default() += 1;
        for l in lines {
            if let Some(rest) = l.strip_prefix("OP ") {
                self.ops += 1;
                let name = rest.split_whitespace().nth(1).unwrap_or("?");
                *self.by_op.entry(name.to_string()).or_default() += 1;
            } else if let Some(rest) = l.strip_prefix("OBS ") {
                let mut it = rest.split_whitespace();
                let a = it.next().unwrap_or("?");
                let key = if a == "err" { format!("err:{}", it.next().unwrap_or("?")) } else { a.to_string() };
                *self.by_obs.entry(key).or_default() += 1;
            } else if l.starts_with("ORA ") {
                self.ora += 1;
            }
        }
    }
    pub fn print(&self, prop: &str, tier: &str, seed: u64) {
        eprintln!("tv-fs {prop} tier={tier} seed={seed}: cases={} ops={} ora={}", self.cases, self.ops, self.ora);
        eprintln!("  families: {:?}", self.by_family);
        eprintln!("  ops: {:?}", self.by_op);
        eprintln!("  observations: {:?}", self.by_obs);
        eprintln!("  case length histogram (ops, capped 40): {:?}", self.len_hist);
    }
}
