//! Runs a case through a real `turmoil::Sim`: ops execute inside a host's
//! software, `crash` is `Sim::crash` + `Sim::bounce`, later ops run in the
//! restarted software.

use crate::exec::{exec_op, Host, NSLOTS};
use crate::Case;
use std::sync::{Arc, Mutex};
use std::time::Duration;

struct Shared {
    segments: Vec<Vec<String>>, // ops split at "crash"
    next_segment: usize,
    lines: Vec<String>,
    done: bool,
}

pub fn run_case(case: &Case) -> Vec<String> {
    let r = std::panic::catch_unwind(std::panic::AssertUnwindSafe(|| run(case)));
    match r {
        Ok(l) => l,
        Err(_) => vec!["OBS panic case".into()],
    }
}

fn run(case: &Case) -> Vec<String> {
    let mut segments: Vec<Vec<String>> = vec![vec![]];
    for op in &case.ops {
        let name = op.split_whitespace().nth(1).unwrap_or("");
        if name == "crash" {
            segments.push(vec![]);
        } else {
            segments.last_mut().unwrap().push(op.clone());
        }
    }
    let nseg = segments.len();
    let shared = Arc::new(Mutex::new(Shared { segments, next_segment: 0, lines: vec![], done: false }));
    let pool = case.cfg.pool.clone();

    let mut b = turmoil::Builder::new();
    b.rng_seed(case.cfg.fsseed)
        .tick_duration(Duration::from_millis(1))
        .simulation_duration(Duration::from_secs(60));
    let mut sim = b.build();
    let sh = Arc::clone(&shared);
    sim.host("h", move || {
        let sh = Arc::clone(&sh);
        let pool = pool.clone();
        async move {
            let seg = {
                let mut g = sh.lock().unwrap();
                let i = g.next_segment;
                g.next_segment += 1;
                g.segments.get(i).cloned().unwrap_or_default()
            };
            // a dummy Fs: exec_op only touches `fs` for the direct-mode crash op
            let mut host = Host {
                fs: Arc::new(Mutex::new(turmoil_fs::Fs::default())),
                slots: (0..NSLOTS).map(|_| None).collect(),
            };
            let _ = turmoil_fs::verif::take();
            for op in seg {
                let toks: Vec<&str> = op.split_whitespace().collect();
                let tok = toks[0].starts_with('t');
                let obs = exec_op(&mut host, tok, &toks[1..], &pool);
                let mut g = sh.lock().unwrap();
                g.lines.push(format!("OP {}", op));
                for (k, v) in turmoil_fs::verif::take() {
                    g.lines.push(format!("ORA {} {}", k, v));
                }
                g.lines.push(format!("OBS {}", obs));
            }
            sh.lock().unwrap().done = true;
            // keep the files open until the crash cancels this task
            std::future::pending::<()>().await;
            drop(host);
            Ok(())
        }
    });

    for s in 0..nseg {
        let mut guard = 0;
        while !shared.lock().unwrap().done {
            sim.step().expect("sim step");
            guard += 1;
            if guard > 1000 {
                panic!("segment did not finish");
            }
        }
        if s + 1 < nseg {
            sim.crash("h");
            {
                let mut g = shared.lock().unwrap();
                g.lines.push("OP s0 crash".into());
                g.lines.push("OBS ok".into());
                g.done = false;
            }
            sim.bounce("h");
        }
    }
    let g = shared.lock().unwrap();
    g.lines.clone()
}
