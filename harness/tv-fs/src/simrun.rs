//! Runs a case through a real `turmoil::Sim`: ops execute inside a host's
//! software, `crash` is `Sim::crash` (+ `Sim::bounce` before the next ops), later
//! ops run in the restarted software.
//!
//! `via=sim`          the software parks on `pending().await` after its ops (files stay open
//!                    until the crash cancels the task)
//! `via=sim-ret`      the software returns `Ok(())` right after its ops: the host is *down*
//!                    (`is_host_running == false`) when `Sim::crash` is called
//! `via=sim-retlate`  as above, but it sleeps a few ticks before returning
//!
//! `crash` variants (second token after the op name): none = by host name, `re` = by a regex
//! that also matches an idle second host, `twice` = crash, crash again (a no-op for the fs),
//! `dcrash` (op name) is not used here.

use crate::exec::{exec_op, Host};
use crate::Case;
use std::sync::{Arc, Mutex};
use std::time::Duration;

struct Shared {
    segments: Vec<Vec<String>>, // ops split at "crash"
    next_segment: usize,
    lines: Vec<String>,
    done: bool,
}

pub fn run_case(case: &Case) -> Vec<String> {
    let r = std::panic::catch_unwind(std::panic::AssertUnwindSafe(|| run(case)));
    match r {
        Ok(l) => l,
        Err(_) => vec!["OBS panic case".into()],
    }
}

fn run(case: &Case) -> Vec<String> {
    let mode = case.cfg.via.clone();
    let mut segments: Vec<Vec<String>> = vec![vec![]];
    let mut crash_lines: Vec<String> = vec![];
    for op in &case.ops {
        let name = op.split_whitespace().nth(1).unwrap_or("");
        if name == "crash" {
            segments.push(vec![]);
            crash_lines.push(op.clone());
        } else {
            segments.last_mut().unwrap().push(op.clone());
        }
    }
    let nseg = segments.len();
    let shared = Arc::new(Mutex::new(Shared { segments, next_segment: 0, lines: vec![], done: false }));
    let pool = case.cfg.pool.clone();

    let mut b = turmoil::Builder::new();
    b.rng_seed(case.cfg.fsseed)
        .tick_duration(Duration::from_millis(1))
        .simulation_duration(Duration::from_secs(60));
    if case.cfg.sync_p > 0 {
        b.fs().sync_probability(case.cfg.sync_p as f64 / 100.0);
    }
    if case.cfg.block > 0 {
        b.fs().block_size(case.cfg.block);
    }
    crate::exec::neutral_knobs(b.fs(), case.cfg.fsseed);
    let mut sim = b.build();
    // an idle second host with its own fs: the regex crash matches both
    sim.host("h2", || async move {
        std::future::pending::<()>().await;
        Ok(())
    });
    let sh = Arc::clone(&shared);
    let mode2 = mode.clone();
    sim.host("h", move || {
        let sh = Arc::clone(&sh);
        let pool = pool.clone();
        let mode = mode2.clone();
        async move {
            let seg = {
                let mut g = sh.lock().unwrap();
                let i = g.next_segment;
                g.next_segment += 1;
                g.segments.get(i).cloned().unwrap_or_default()
            };
            // a dummy Fs: exec_op only touches `fs` for the direct-mode crash op
            let mut host = Host::new(Arc::new(Mutex::new(turmoil_fs::Fs::default())));
            let _ = turmoil_fs::verif::take();
            for op in seg {
                let toks: Vec<&str> = op.split_whitespace().collect();
                let tok = toks[0].starts_with('t');
                let obs = exec_op(&mut host, tok, &toks[1..], &pool);
                let mut g = sh.lock().unwrap();
                g.lines.push(format!("OP {}", op));
                for (k, v) in turmoil_fs::verif::take() {
                    g.lines.push(format!("ORA {} {}", k, v));
                }
                g.lines.push(format!("OBS {}", obs));
            }
            match mode.as_str() {
                "sim-ret" => {
                    // the files are closed by the return, the software is gone before the crash
                    drop(host);
                    sh.lock().unwrap().done = true;
                    Ok(())
                }
                "sim-retlate" => {
                    tokio::time::sleep(Duration::from_millis(3)).await;
                    drop(host);
                    sh.lock().unwrap().done = true;
                    Ok(())
                }
                _ => {
                    sh.lock().unwrap().done = true;
                    // keep the files open until the crash cancels this task
                    std::future::pending::<()>().await;
                    drop(host);
                    Ok(())
                }
            }
        }
    });

    for s in 0..nseg {
        let mut guard = 0;
        while !shared.lock().unwrap().done {
            sim.step().expect("sim step");
            guard += 1;
            if guard > 1000 {
                panic!("segment did not finish");
            }
        }
        if mode != "sim" {
            // let the runtime notice that the software future completed
            sim.step().expect("sim step");
            sim.step().expect("sim step");
            if sim.is_host_running("h") {
                panic!("software still running after it returned");
            }
        }
        if s + 1 < nseg {
            let line = crash_lines[s].clone();
            let variant = line.split_whitespace().nth(2).unwrap_or("");
            match variant {
                "re" => sim.crash(regex::Regex::new("^h.*$").unwrap()),
                "twice" => {
                    sim.crash("h");
                    sim.step().expect("sim step");
                    sim.crash("h");
                }
                _ => sim.crash("h"),
            }
            {
                let mut g = shared.lock().unwrap();
                g.lines.push(format!("OP {}", line));
                // torn-write decisions drawn by Fs::crash (of host h; h2 has nothing pending)
                for (k, v) in turmoil_fs::verif::take() {
                    g.lines.push(format!("ORA {} {}", k, v));
                }
                g.lines.push("OBS ok".into());
                g.done = false;
            }
            if variant == "re" {
                sim.bounce(regex::Regex::new("^h.*$").unwrap());
            } else {
                sim.bounce("h");
            }
        }
    }
    let g = shared.lock().unwrap();
    g.lines.clone()
}
