//! splitmix64: the only source of randomness in the harness.
pub struct Rng(pub u64);

impl Rng {
    pub fn new(seed: u64) -> Self {
        // scramble the seed so that consecutive seeds give unrelated streams
        let mut z = seed ^ 0x1234_5678_9ABC_DEF1;
        z = (z ^ (z >> 30)).wrapping_mul(0xBF58476D1CE4E5B9);
        z = (z ^ (z >> 27)).wrapping_mul(0x94D049BB133111EB);
        Rng(z ^ (z >> 31))
    }
    pub fn next(&mut self) -> u64 {
        self.0 = self.0.wrapping_add(0x9E3779B97F4A7C15);
        let mut z = self.0;
        z = (z ^ (z >> 30)).wrapping_mul(0xBF58476D1CE4E5B9);
        z = (z ^ (z >> 27)).wrapping_mul(0x94D049BB133111EB);
        z ^ (z >> 31)
    }
    pub fn below(&mut self, n: usize) -> usize {
        if n == 0 { 0 } else { (self.next() % n as u64) as usize }
    }
    pub fn chance(&mut self, num: u64, den: u64) -> bool {
        self.next() % den < num
    }
    pub fn pick<'a, T>(&mut self, xs: &'a [T]) -> &'a T {
        &xs[self.below(xs.len())]
    }
}
