//! tv-fs: differential harness for turmoil-fs (properties C07, C10).
//!
//! CLI: tv-fs <PROP> --tier quick|thorough|search --seed <u64> --out <trace> [--replay <case-file>]
//!      [--cases N] [--family name]
//!
//! Every case is a list of `OP` lines. The same executor runs generated and
//! replayed cases, so a replay re-executes exactly the stored OP lines.
//! See /verif/CONVENTIONS.md for the trace grammar.

mod exec;
mod gen;
mod rng;
mod simrun;

use std::io::Write;

pub struct Case {
    pub family: String,
    pub seed: u64,
    pub cfg: Cfg,
    pub ops: Vec<String>, // "actor name args..." (without the leading "OP ")
}

#[derive(Clone, Debug)]
pub struct Cfg {
    pub sync_p: u32, // percent
    pub block: u64,  // 0 = None
    pub fsseed: u64,
    pub pool: Vec<String>,
    pub via: String, // "direct" | "sim" (software parks) | "sim-ret" | "sim-retlate" (software returns Ok)
}

impl Cfg {
    pub fn line(&self, prop: &str) -> String {
        format!(
            "CFG prop={} sync_p={} block={} fsseed={} via={} pool={}",
            prop,
            self.sync_p,
            self.block,
            self.fsseed,
            self.via,
            self.pool.join(",")
        )
    }
}

fn parse_cfg(line: &str) -> Cfg {
    let mut c = Cfg { sync_p: 0, block: 0, fsseed: 1, pool: vec![], via: "direct".into() };
    for kv in line.split_whitespace().skip(1) {
        if let Some((k, v)) = kv.split_once('=') {
            match k {
                "sync_p" => c.sync_p = v.parse().unwrap_or(0),
                "block" => c.block = v.parse().unwrap_or(0),
                "fsseed" => c.fsseed = v.parse().unwrap_or(1),
                "via" => c.via = v.to_string(),
                "pool" => c.pool = v.split(',').filter(|s| !s.is_empty()).map(|s| s.to_string()).collect(),
                _ => {}
            }
        }
    }
    c
}

fn read_case_file(path: &str) -> Vec<Case> {
    let text = std::fs::read_to_string(path).expect("cannot read replay file");
    let mut out = vec![];
    let mut cur: Option<Case> = None;
    for line in text.lines() {
        let line = line.trim();
        if line.starts_with("CASE") {
            let mut family = "replay".to_string();
            let mut seed = 0u64;
            for kv in line.split_whitespace() {
                if let Some(v) = kv.strip_prefix("family=") {
                    family = v.to_string();
                }
                if let Some(v) = kv.strip_prefix("seed=") {
                    seed = v.parse().unwrap_or(0);
                }
            }
            cur = Some(Case {
                family,
                seed,
                cfg: Cfg { sync_p: 0, block: 0, fsseed: 1, pool: gen::default_pool(), via: "direct".into() },
                ops: vec![],
            });
        } else if line.starts_with("CFG") {
            if let Some(c) = cur.as_mut() {
                c.cfg = parse_cfg(line);
                if c.cfg.pool.is_empty() {
                    c.cfg.pool = gen::default_pool();
                }
            }
        } else if let Some(rest) = line.strip_prefix("OP ") {
            if cur.is_none() {
                cur = Some(Case {
                    family: "replay".into(),
                    seed: 0,
                    cfg: Cfg { sync_p: 0, block: 0, fsseed: 1, pool: gen::default_pool(), via: "direct".into() },
                    ops: vec![],
                });
            }
            cur.as_mut().unwrap().ops.push(rest.to_string());
        } else if line == "END" {
            if let Some(c) = cur.take() {
                out.push(c);
            }
        }
    }
    if let Some(c) = cur.take() {
        out.push(c);
    }
    out
}

fn main() {
    let args: Vec<String> = std::env::args().collect();
    if args.len() < 2 {
        eprintln!("usage: tv-fs <C07|C10> --tier quick|thorough|search --seed N --out FILE [--replay FILE] [--cases N] [--family F]");
        std::process::exit(2);
    }
    let prop = args[1].clone();
    let mut tier = "quick".to_string();
    let mut seed = 1u64;
    let mut out = String::new();
    let mut replay: Option<String> = None;
    let mut cases: Option<usize> = None;
    let mut family: Option<String> = None;
    let mut i = 2;
    while i < args.len() {
        match args[i].as_str() {
            "--tier" => { tier = args[i + 1].clone(); i += 2; }
            "--seed" => { seed = args[i + 1].parse().expect("seed"); i += 2; }
            "--out" => { out = args[i + 1].clone(); i += 2; }
            "--replay" => { replay = Some(args[i + 1].clone()); i += 2; }
            "--cases" => { cases = Some(args[i + 1].parse().expect("cases")); i += 2; }
            "--family" => { family = Some(args[i + 1].clone()); i += 2; }
            _ => { i += 1; }
        }
    }
    if out.is_empty() {
        eprintln!("--out required");
        std::process::exit(2);
    }
    // silence panic messages of caught panics (they become observations)
    std::panic::set_hook(Box::new(|_| {}));

    let file = std::fs::File::create(&out).expect("cannot create trace file");
    let mut w = std::io::BufWriter::with_capacity(1 << 20, file);
    let mut stats = gen::Stats::default();
    let mut n = 0usize;

    let mut emit = |case: Case, stats: &mut gen::Stats, w: &mut dyn Write| {
        n += 1;
        writeln!(w, "CASE {} family={} seed={}", n, case.family, case.seed).unwrap();
        writeln!(w, "{}", case.cfg.line(&prop)).unwrap();
        let lines = if case.cfg.via.starts_with("sim") {
            simrun::run_case(&case)
        } else {
            exec::run_case(&case)
        };
        for l in &lines {
            writeln!(w, "{}", l).unwrap();
        }
        writeln!(w, "END").unwrap();
        stats.record(&case, &lines);
    };

    if let Some(r) = replay {
        for c in read_case_file(&r) {
            emit(c, &mut stats, &mut w);
        }
    } else {
        gen::generate(&prop, &tier, seed, cases, family.as_deref(), &mut |c| emit(c, &mut stats, &mut w));
    }
    w.flush().unwrap();
    stats.print(&prop, &tier, seed);
}
