#!/usr/bin/env python3
"""Apply a subset of the candidate repairs to the scratch worktree /tmp/fsfix (reset first).
usage: fixes.py [id ...]   ids: 1 5 7 9 10 11     (no id = pristine HEAD)
       fixes.py --emit     write one patch file per repair to /verif/areas/fs/repairs/"""
import subprocess, sys, os

WT = "/tmp/fsfix"
LIB = "crates/turmoil-fs/src/lib.rs"
SHIM = "crates/turmoil-fs/src/shim/std/fs/mod.rs"

FIXES = {
 # ---------------------------------------------------------------- F-9
 "9": ("F-C10-9-open-create-on-directory", [(SHIM,
"""                if self.create || self.create_new {
                    // Check parent directory exists
""",
"""                if self.create || self.create_new {
                    // A directory already owns this name: creating a regular
                    // file here would leave the path both a file and a directory.
                    if ctx.fs.dir_exists(&resolved_path) {
                        return Err(if self.create_new {
                            Error::new(ErrorKind::AlreadyExists, "file already exists")
                        } else {
                            Error::new(ErrorKind::IsADirectory, "Is a directory")
                        });
                    }
                    // Check parent directory exists
""")]),
 # ---------------------------------------------------------------- F-7
 "7": ("F-C10-7-dir-has-children-renamed-in", [(LIB,
"""                PendingOp::CreateSymlink { path: p, .. }
                    if p.parent() == Some(path) && self.symlink_exists(p) =>
                {
                    return true;
                }
                _ => {}
            }
        }
        false
    }
""",
"""                PendingOp::CreateSymlink { path: p, .. }
                    if p.parent() == Some(path) && self.symlink_exists(p) =>
                {
                    return true;
                }
                // An entry renamed into this directory is a child too
                // (same rule as `dir_entries`).
                PendingOp::Rename { to, .. }
                    if to.parent() == Some(path)
                        && (self.file_exists(to)
                            || self.dir_exists(to)
                            || self.symlink_exists(to)) =>
                {
                    return true;
                }
                _ => {}
            }
        }
        false
    }
""")]),
 # ---------------------------------------------------------------- F-11
 "11": ("F-C07-11-sync-dir-rename-both-entries", [(LIB,
"""                PendingOp::Rename { from, to } => {
                    if from.parent() == Some(path) {
                        dir_modified = true;
                        self.synced_entries.swap_remove(from);
                    }
                    if to.parent() == Some(path) {
                        dir_modified = true;
                        self.synced_entries.insert(to.clone());
                    }
                }
""",
"""                PendingOp::Rename { from, to } => {
                    // The rename is flushed as one operation (the inode moves
                    // from `from` to `to` below), so both directory entries
                    // change together: otherwise syncing only the source
                    // directory leaves the inode without a durable name, and
                    // syncing only the destination leaves a stale durable
                    // `from` entry behind.
                    dir_modified = true;
                    self.synced_entries.swap_remove(from);
                    self.synced_entries.insert(to.clone());
                }
""")]),
 # ---------------------------------------------------------------- F-1
 "1": ("F-C10-1-read-file-honours-pending-set-len", [(LIB,
"""        // Overlay pending writes (need to check the content path)
        for op in &self.pending {
            if let PendingOp::Write {
                path: p,
                offset: write_off,
                data,
                ..
            } = op
            {
""",
"""        // Overlay pending writes and truncations in log order (need to check the content path)
        for op in &self.pending {
            if let PendingOp::SetLen {
                path: p,
                len: new_len,
                ..
            } = op
            {
                // A truncate (or extend) discards everything at and beyond
                // `new_len`; if the file grows again later those bytes read as zeros.
                if (p == &content_path || self.path_renamed_to(p, &content_path))
                    && *new_len < offset + to_read as u64
                {
                    let from = new_len.saturating_sub(offset) as usize;
                    buf[from..to_read].fill(0);
                }
            }
            if let PendingOp::Write {
                path: p,
                offset: write_off,
                data,
                ..
            } = op
            {
""")]),
 # ---------------------------------------------------------------- F-5
 "5": ("F-C10-5-rename-target-kind-from-source", [(LIB,
"""    pub(crate) fn file_exists(&self, path: &Path) -> bool {
        let mut exists = self.persisted_files.contains_key(path);
        for op in &self.pending {
            match op {
                PendingOp::CreateFile { path: p, .. } if p == path => exists = true,
                PendingOp::CreateHardLink { path: p, .. } if p == path => exists = true,
                PendingOp::RemoveFile { path: p } if p == path => exists = false,
                PendingOp::Rename { from, to: _ } if from == path => exists = false,
                PendingOp::Rename { from: _, to } if to == path => exists = true,
                _ => {}
            }
        }
        exists
    }
""",
"""    pub(crate) fn file_exists(&self, path: &Path) -> bool {
        self.file_exists_upto(path, self.pending.len())
    }

    /// `file_exists` as of the first `n` pending operations.
    fn file_exists_upto(&self, path: &Path, n: usize) -> bool {
        let mut exists = self.persisted_files.contains_key(path);
        for (i, op) in self.pending[..n].iter().enumerate() {
            match op {
                PendingOp::CreateFile { path: p, .. } if p == path => exists = true,
                PendingOp::CreateHardLink { path: p, .. } if p == path => exists = true,
                PendingOp::RemoveFile { path: p } if p == path => exists = false,
                PendingOp::Rename { from, to: _ } if from == path => exists = false,
                // The target of a rename is a file only if its source was one
                // (a renamed directory or symlink must not show up as a file).
                PendingOp::Rename { from, to } if to == path => {
                    if self.file_exists_upto(from, i) {
                        exists = true;
                    }
                }
                _ => {}
            }
        }
        exists
    }
"""),
 (LIB,
"""    pub(crate) fn dir_exists(&self, path: &Path) -> bool {
        let mut exists = self.persisted_dirs.contains_key(path);
        for op in &self.pending {
            match op {
                PendingOp::CreateDir { path: p, .. } if p == path => exists = true,
                PendingOp::RemoveDir { path: p } if p == path => exists = false,
                // For renames, we need to check if the source was a directory
                PendingOp::Rename { from, to: _ }
                    if from == path
                    // Source directory is being renamed away
                    && self.persisted_dirs.contains_key(from) =>
                {
                    exists = false;
                }
                PendingOp::Rename { from, to }
                    if to == path
                    // Something is being renamed to this path - only mark as directory
                    // if the source was a directory
                    && self.persisted_dirs.contains_key(from) =>
                {
                    exists = true;
                }
                _ => {}
            }
        }
        exists
    }
""",
"""    pub(crate) fn dir_exists(&self, path: &Path) -> bool {
        self.dir_exists_upto(path, self.pending.len())
    }

    /// `dir_exists` as of the first `n` pending operations.
    fn dir_exists_upto(&self, path: &Path, n: usize) -> bool {
        let mut exists = self.persisted_dirs.contains_key(path);
        for (i, op) in self.pending[..n].iter().enumerate() {
            match op {
                PendingOp::CreateDir { path: p, .. } if p == path => exists = true,
                PendingOp::RemoveDir { path: p } if p == path => exists = false,
                // For renames, we need to check if the source was a directory
                // at that point of the log (persisted or created by a pending op)
                PendingOp::Rename { from, to: _ } if from == path => {
                    // Source directory is being renamed away
                    exists = false;
                }
                PendingOp::Rename { from, to } if to == path => {
                    // Something is being renamed to this path - only mark as directory
                    // if the source was a directory
                    if self.dir_exists_upto(from, i) {
                        exists = true;
                    }
                }
                _ => {}
            }
        }
        exists
    }
""")]),
 # ---------------------------------------------------------------- F-10
 "10": ("F-C07-10-sync-file-follows-pending-rename", [(LIB,
"""    /// Sync a file (makes file data and metadata durable).
    ///
    /// This is equivalent to fsync() on a file descriptor. It flushes:
""",
"""    /// Split the pending log into the data ops (writes, size changes) of the
    /// file visible at `path` and the rest.
    ///
    /// The inode of a file with a pending rename (or of a hard link) still
    /// lives under the name `resolve_content_path` gives, and that is the key
    /// its pending data ops carry; `path` itself may have no inode yet.
    /// Returns that name, the selected ops and the remaining ops.
    fn split_file_data_ops(&mut self, path: &Path) -> (PathBuf, Vec<PendingOp>, Vec<PendingOp>) {
        let content_path = self.resolve_content_path(path);
        let (to_flush, to_keep): (Vec<_>, Vec<_>) =
            self.pending.drain(..).partition(|op| match op {
                PendingOp::Write { path: p, .. } => p == &content_path,
                PendingOp::SetLen { path: p, .. } => p == &content_path,
                _ => false,
            });
        (content_path, to_flush, to_keep)
    }

    /// Sync a file (makes file data and metadata durable).
    ///
    /// This is equivalent to fsync() on a file descriptor. It flushes:
"""),
 (LIB,
"""        // Flush pending ops that affect this file's DATA only
        // CreateFile is a directory entry op, handled by sync_dir
        let (to_flush, to_keep): (Vec<_>, Vec<_>) =
            self.pending.drain(..).partition(|op| match op {
                PendingOp::Write { path: p, .. } => p == path,
                PendingOp::SetLen { path: p, .. } => p == path,
                _ => false,
            });
""",
"""        // Flush pending ops that affect this file's DATA only
        // CreateFile is a directory entry op, handled by sync_dir
        let (content_path, to_flush, to_keep) = self.split_file_data_ops(path);
        let path = content_path.as_path();
"""),
 (LIB,
"""        // Flush only data ops (Write, SetLen), NOT CreateFile
        let (to_flush, to_keep): (Vec<_>, Vec<_>) =
            self.pending.drain(..).partition(|op| match op {
                PendingOp::Write { path: p, .. } => p == path,
                PendingOp::SetLen { path: p, .. } => p == path,
                _ => false,
            });
""",
"""        // Flush only data ops (Write, SetLen), NOT CreateFile
        let (content_path, to_flush, to_keep) = self.split_file_data_ops(path);
        let path = content_path.as_path();
""")]),
 # ---------------------------------------------------------------- F-3
 "3": ("F-C10-3-data-ops-keyed-by-inode-name", [(LIB,
"""        if !data.is_empty() {
            self.pending.push(PendingOp::Write {
                path: path.to_path_buf(),
""",
"""        if !data.is_empty() {
            // Key the op by the name the inode has now (a file with a pending
            // rename still lives under its old name): that is the key
            // `file_len` / `read_file` look for.
            let path = self.resolve_content_path(path);
            self.pending.push(PendingOp::Write {
                path,
"""),
 (LIB,
"""        self.pending.push(PendingOp::SetLen {
            path: path.to_path_buf(),
            len,
            time,
        });
""",
"""        // Keyed like writes: by the name the inode has now.
        let path = self.resolve_content_path(path);
        self.pending.push(PendingOp::SetLen { path, len, time });
""")]),
}


def sh(cmd, **kw):
    return subprocess.run(cmd, shell=True, stdout=subprocess.PIPE, stderr=subprocess.STDOUT, text=True, **kw)


def reset():
    sh("git -C %s checkout -q -- ." % WT)


def apply(ids):
    reset()
    for i in ids:
        name, edits = FIXES[i]
        for f, old, new in edits:
            p = os.path.join(WT, f)
            s = open(p).read()
            if old not in s:
                print("fix", i, "does not apply to", f)
                sys.exit(1)
            open(p, "w").write(s.replace(old, new, 1))


if __name__ == "__main__":
    if sys.argv[1:] == ["--emit"]:
        os.makedirs("/verif/areas/fs/repairs", exist_ok=True)
        for i, (name, _) in FIXES.items():
            apply([i])
            d = sh("git -C %s diff" % WT).stdout
            open("/verif/areas/fs/repairs/%s.patch" % name, "w").write(d)
            print(name, len(d.splitlines()), "lines")
        reset()
    else:
        apply(sys.argv[1:])
        print(sh("git -C %s diff --stat" % WT).stdout)
