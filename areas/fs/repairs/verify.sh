#!/bin/bash
# verify.sh <label> <fx-spec> <ids...> : apply the repairs, run suites + harness tiers, summarise
label=$1; fx=$2; shift 2
cd /tmp/fsfix-h && python3 fixes.py "$@" > /dev/null || exit 1
out=/tmp/fsfix-t/v-$label; mkdir -p $out
export CARGO_TARGET_DIR=/tmp/fsfix-target
(cd /tmp/fsfix && timeout 3000 cargo test --workspace --no-fail-fast --offline > $out/ws.log 2>&1; echo "exit $?" >> $out/ws.log)
(cd /tmp/fsfix && timeout 3000 cargo test -p turmoil --features unstable-fs,unstable-io_uring,unstable-barriers --offline > $out/feat.log 2>&1; echo "exit $?" >> $out/feat.log)
(cd /tmp/fsfix-h && cargo build --release --offline > $out/hbuild.log 2>&1)
B=/tmp/fsfix-target/release/tv-fs; D=/verif/lean/TvFs/.lake/build/bin/tvfsdriver
echo "== $label (fx $fx)"
echo "suite workspace: $(tail -1 $out/ws.log) $(grep -E '^test result' $out/ws.log | awk '{p+=$4; f+=$6} END {print "passed",p,"failed",f}')"
echo "suite features : $(tail -1 $out/feat.log) $(grep -E '^test result' $out/feat.log | awk '{p+=$4; f+=$6} END {print "passed",p,"failed",f}')"
for tier in quick thorough; do for P in C10 C07; do
  $B $P --tier $tier --seed 1 --out $out/$P-$tier.trace 2>/dev/null
  $D $P $out/$P-$tier.trace --fx $fx > $out/$P-$tier.out
  echo "$P $tier: $(tail -1 $out/$P-$tier.out) | $(grep 'O=fail' $out/$P-$tier.out | sed 's/.*pattern=\([^ ]*\).*/\1/' | sort | uniq -c | tr '\n' ' ')"
  rm -f $out/$P-$tier.trace
done; done
for f in /verif/areas/fs/corpus/C10/*.case /verif/areas/fs/corpus/C07/*.case; do
  P=$(basename $(dirname $f)); $B $P --tier quick --seed 0 --out $out/r.trace --replay $f 2>/dev/null
  echo "  $(basename $f .case): $($D $P $out/r.trace --fx $fx | head -1 | awk '{print $3,$4,$5,$6}')"
done
