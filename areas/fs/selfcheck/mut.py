#!/usr/bin/env python3
"""Self-validation: apply one mutant at a time to a scratch copy of turmoil-fs, rebuild the harness
against it, run both properties' quick tier and report K mismatches / unexplained O failures."""
import subprocess, sys, os, re, shutil

SRC = "/repo/crates/turmoil-fs/src/lib.rs"
SHIM = "/repo/crates/turmoil-fs/src/shim/std/fs/mod.rs"
DST = "/tmp/fs-mut/repo/crates/turmoil-fs/src/lib.rs"
DSHIM = "/tmp/fs-mut/repo/crates/turmoil-fs/src/shim/std/fs/mod.rs"
DRV = "/verif/lean/TvFs/.lake/build/bin/tvfsdriver"
BIN = "/tmp/fs-mut/target/release/tv-fs"

MUTANTS = {
 # --- must be caught
 "crash_no_synced_filter": (SRC, """        self.persisted_files
            .retain(|path, _| self.synced_entries.contains(path));""", """        self.persisted_files
            .retain(|path, _| true || self.synced_entries.contains(path));"""),
 "sync_file_marks_entry_durable": (SRC, """        self.pending = to_keep;
        for op in &to_flush {
            self.apply_op_to_persisted(op);
        }
        Ok(())
    }

    /// Sync file data only""", """        self.pending = to_keep;
        self.synced_entries.insert(path.to_path_buf());
        for op in &to_flush {
            self.apply_op_to_persisted(op);
        }
        Ok(())
    }

    /// Sync file data only"""),
 "torn_min_removed": (SRC, "(surviving_blocks * block_size).min(data.len() as u64) as usize;",
                      "(surviving_blocks * block_size) as usize; let data = { let mut v = data.clone(); v.resize(surviving_bytes.max(v.len()), 0x5a); v };"),
 "torn_ignores_synced_check": (SRC, """                    if !self.synced_entries.contains(path) {
                        return None;
                    }

                    // Calculate how many blocks""", """                    // Calculate how many blocks"""),
 "torn_off_by_one_block": (SRC, "let total_blocks = (data.len() as u64).div_ceil(block_size);", "let total_blocks = (data.len() as u64) / block_size;"),
 "rename_no_dest_kind_check": (SRC, """            if self.dir_exists(to) {
                return Err("Is a directory");
            }
            self.pending.push(PendingOp::Rename {
                from: from.to_path_buf(),
                to: to.to_path_buf(),
            });
            return Ok(());
        }

        // Try renaming a directory""", """            self.pending.push(PendingOp::Rename {
                from: from.to_path_buf(),
                to: to.to_path_buf(),
            });
            return Ok(());
        }

        // Try renaming a directory"""),
 "file_len_max_not_last_setlen": (SRC, """                    if (p == &content_path || self.path_renamed_to(p, &content_path)) => {
                        len = *new_len;
                    }""", """                    if (p == &content_path || self.path_renamed_to(p, &content_path)) => {
                        len = len.max(*new_len);
                    }"""),
 "sync_dir_skips_removes": (SRC, "                PendingOp::RemoveFile { path: p } => p.parent() == Some(path),\n                PendingOp::RemoveDir { path: p } => p.parent() == Some(path),\n                // Renames affecting",
                            "                PendingOp::RemoveDir { path: p } => p.parent() == Some(path),\n                // Renames affecting"),
 "sync_file_flushes_only_writes": (SRC, """            self.pending.drain(..).partition(|op| match op {
                PendingOp::Write { path: p, .. } => p == path,
                PendingOp::SetLen { path: p, .. } => p == path,
                _ => false,
            });

        // Ensure file exists in persisted_files for writes to be applied""", """            self.pending.drain(..).partition(|op| match op {
                PendingOp::Write { path: p, .. } => p == path,
                _ => false,
            });

        // Ensure file exists in persisted_files for writes to be applied"""),
 "read_overlay_ignores_later_write": (SRC, "                    if *write_off < read_end && write_end > offset {", "                    if *write_off < read_end && write_end > offset && *write_off >= offset {"),
 "append_uses_cursor": (SHIM, "        let offset = if self.append_mode {", "        let offset = if self.append_mode && false {"),
 "unlink_no_exist_check": (SRC, """        if !self.file_exists(path) && !self.symlink_exists(path) {
            return Err("No such file or directory");
        }

        // Invalidate page cache for deleted file""", """        // Invalidate page cache for deleted file"""),
 "crash_keeps_pending": (SRC, "        self.pending.clear();\n\n        // Remove orphaned", "        // Remove orphaned"),
 # --- must not alarm (behaviour preserving)
 "NOALARM_file_exists_rewrite": (SRC, """                PendingOp::Rename { from, to: _ } if from == path => exists = false,
                PendingOp::Rename { from: _, to } if to == path => exists = true,""", """                PendingOp::Rename { from, to } if from == path || to == path => {
                    exists = from != path;
                }"""),
 "NOALARM_crash_reordered": (SRC, """        self.persisted_files
            .retain(|path, _| self.synced_entries.contains(path));
        self.persisted_dirs
            .retain(|path, _| self.synced_entries.contains(path));""", """        self.persisted_dirs
            .retain(|path, _| self.synced_entries.contains(path));
        let synced = &self.synced_entries;
        self.persisted_files.retain(|p, _| synced.contains(p));"""),
}

def sh(cmd, **kw):
    return subprocess.run(cmd, shell=True, stdout=subprocess.PIPE, stderr=subprocess.STDOUT, text=True, **kw)

def run(name):
    shutil.copy(SRC, DST)
    shutil.copy(SHIM, DSHIM)
    if name != "BASELINE":
        f, old, new = MUTANTS[name]
        dst = DST if f == SRC else DSHIM
        s = open(dst).read()
        if old not in s:
            print(name, "PATCH DOES NOT APPLY"); return
        open(dst, "w").write(s.replace(old, new, 1))
    r = sh("cd /tmp/fs-mut/harness && CARGO_TARGET_DIR=/tmp/fs-mut/target cargo build --release --offline 2>&1 | tail -3")
    if "Finished" not in r.stdout:
        print(name, "BUILD FAILED", r.stdout[-600:]); return
    res = []
    for prop in ("C10", "C07"):
        tr = "/tmp/fs-mut/%s.trace" % prop
        sh("%s %s --tier quick --seed 1 --out %s" % (BIN, prop, tr))
        out = sh("%s %s %s" % (DRV, prop, tr)).stdout
        summ = [l for l in out.split("\n") if l.startswith("SUMMARY")]
        unexpl = [l for l in out.split("\n") if "O=fail" in l and "pattern=none" in l]
        kmis = [l for l in out.split("\n") if "K=mismatch" in l]
        res.append("%s: %s unexplainedO=%d" % (prop, summ[0] if summ else "NO SUMMARY", len(unexpl)))
        if unexpl[:1]:
            res.append("    e.g. " + unexpl[0][:260])
        elif kmis[:1]:
            res.append("    e.g. " + kmis[0][:260])
    print(name); print("  " + "\n  ".join(res)); sys.stdout.flush()

names = sys.argv[1:] or (["BASELINE"] + list(MUTANTS))
for n in names:
    run(n)
shutil.copy(SRC, DST)
shutil.copy(SHIM, DSHIM)
