use std::os::unix::fs::FileExt;
use std::time::Duration;
use turmoil::barriers::{Barrier, Reaction};
use turmoil::fs::shim::std::fs::OpenOptions;
use turmoil::fs::FsCorruption;

fn main() {
    let which = std::env::args().nth(1).unwrap_or_default();
    let mut b = turmoil::Builder::new();
    b.simulation_duration(Duration::from_secs(10));
    b.fs().corruption_probability(1.0);
    let mut sim = b.build();
    let _barrier = match which.as_str() {
        "panic" => Some(Barrier::build(Reaction::Panic, |_: &FsCorruption| true)),
        "suspend" => Some(Barrier::build(Reaction::Suspend, |_: &FsCorruption| true)),
        _ => None,
    };
    sim.client("c", async {
        let f = OpenOptions::new().read(true).write(true).create(true).open("/x")?;
        f.write_at(b"hello", 0)?;
        let mut buf = [0u8; 1];
        let _ = f.read_at(&mut buf, 0)?; // corruption fires the hook -> trigger_noop -> barrier
        Ok(())
    });
    let r = std::panic::catch_unwind(std::panic::AssertUnwindSafe(|| sim.run()));
    match r {
        Ok(r) => println!("run returned {:?}", r.is_ok()),
        Err(e) => println!("caught panic: {:?}", e.downcast_ref::<&str>().map(|s| s.to_string()).or(e.downcast_ref::<String>().cloned())),
    }
    // can the simulation still be used / dropped?
    drop(sim);
    println!("survived");
}
