use std::sync::{Arc, Mutex};
use std::time::{Duration, UNIX_EPOCH};
use turmoil::fs::shim::std::fs::{metadata, write};
use turmoil::Builder;

fn run(delay_ms: u64) -> Vec<u128> {
    let log: Arc<Mutex<Vec<u128>>> = Arc::new(Mutex::new(Vec::new()));
    let l2 = log.clone();
    let mut sim = Builder::new()
        .tick_duration(Duration::from_millis(1))
        .epoch(UNIX_EPOCH + Duration::from_secs(1_700_000_000))
        .build();
    sim.client("c", async move {
        for i in 0..5 {
            let p = format!("/f{i}");
            write(&p, b"x")?;
            let m = metadata(&p)?.modified()?;
            l2.lock().unwrap().push(m.duration_since(UNIX_EPOCH).unwrap().as_nanos());
            tokio::time::sleep(Duration::from_millis(3)).await;
        }
        Ok(())
    });
    loop {
        std::thread::sleep(Duration::from_millis(delay_ms));
        if sim.step().unwrap() {
            break;
        }
    }
    let v = log.lock().unwrap().clone();
    v
}

#[test]
fn wallclock_leak() {
    let a = run(0);
    let b = run(7);
    println!("fast: {a:?}");
    println!("slow: {b:?}");
    assert_eq!(a, b, "file timestamps depend on how fast the test thread runs");
}
