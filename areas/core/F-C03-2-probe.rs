use std::time::Duration;
use turmoil::net::UdpSocket;
use turmoil::Builder;
use std::sync::{Arc, atomic::{AtomicUsize, Ordering}};

#[test]
fn partition_after_zero_latency_send() -> turmoil::Result {
    let mut sim = Builder::new()
        .min_message_latency(Duration::from_millis(0))
        .max_message_latency(Duration::from_millis(0))
        .tick_duration(Duration::from_millis(1))
        .build();
    let got = Arc::new(AtomicUsize::new(0));
    let g2 = got.clone();
    // "a" is registered first, so it runs before "b" in every step
    sim.host("a", move || {
        let g = g2.clone();
        async move {
            let s = UdpSocket::bind("0.0.0.0:9000").await?;
            let mut buf = [0u8; 8];
            loop {
                let (n, _) = s.recv_from(&mut buf).await?;
                g.fetch_add(n, Ordering::SeqCst);
            }
        }
    });
    sim.host("b", || async {
        let s = UdpSocket::bind("0.0.0.0:9000").await?;
        tokio::time::sleep(Duration::from_millis(3)).await;
        s.send_to(b"x", "a:9000").await?;
        std::future::pending::<()>().await;
        Ok(())
    });
    for _ in 0..4 { sim.step()?; }
    // after step 4 (t = 4 ms) b has sent (at 3 ms); a ran before b in that step
    let mut shown = 0;
    sim.links(|links| for l in links { shown += l.count(); });
    let before = got.load(Ordering::SeqCst);
    println!("received before hold: {before}, shown by links iterator: {shown}");
    sim.partition("a", "b");
    for _ in 0..5 { sim.step()?; }
    let during = got.load(Ordering::SeqCst);
    println!("received while held: {}", during - before);
    assert!(before == 1 || shown == 1 || during == before, "a message sent before the hold, not yet received and not shown by the iterator was delivered while the link was held");
    Ok(())
}
