use std::time::Duration;
use tokio::io::AsyncWriteExt;
use turmoil::net::{TcpListener, TcpStream};
use turmoil::Builder;

#[test]
fn blocked_writer_after_crash() -> turmoil::Result {
    let mut sim = Builder::new()
        .tcp_capacity(1)
        .simulation_duration(Duration::from_secs(30))
        .build();
    sim.host("server", || async {
        let l = TcpListener::bind("0.0.0.0:9000").await?;
        let (_s, _) = l.accept().await?;
        std::future::pending::<()>().await;
        Ok(())
    });
    sim.client("client", async {
        let mut s = TcpStream::connect("server:9000").await?;
        let r = tokio::time::timeout(Duration::from_secs(5), async {
            loop {
                s.write_all(b"x").await?;
            }
            #[allow(unreachable_code)]
            Ok::<(), std::io::Error>(())
        })
        .await;
        println!("writer result: {r:?}");
        match r {
            Ok(Err(_)) => Ok(()),
            other => Err(format!("writer not unblocked: {other:?}").into()),
        }
    });
    for _ in 0..50 {
        sim.step()?;
    }
    sim.crash("server");
    sim.run()
}
