use std::time::Duration;
use tokio::io::{AsyncReadExt, AsyncWriteExt};
use turmoil::net::{TcpListener, TcpStream};
use turmoil::Builder;

/// s1 is reset by the peer; s2 reconnects and gets the same address pair (one ephemeral port);
/// then the OLD stream object is dropped (the reconnect idiom `self.stream = connect().await?`).
#[test]
fn dropping_the_old_stream_kills_the_new_connection() -> turmoil::Result {
    let mut sim = Builder::new()
        .ephemeral_ports(49152..=49152)
        .min_message_latency(Duration::from_millis(1))
        .max_message_latency(Duration::from_millis(1))
        .build();
    sim.host("server", || async {
        let l = TcpListener::bind("0.0.0.0:80").await?;
        // first connection: dropped with unread bytes -> RST
        let (s, _) = l.accept().await?;
        tokio::time::sleep(Duration::from_millis(20)).await;
        drop(s);
        // second connection: read everything until EOF
        let (mut s, _) = l.accept().await?;
        let mut got = Vec::new();
        let mut buf = [0u8; 16];
        loop {
            let n = s.read(&mut buf).await?;
            if n == 0 {
                break;
            }
            got.extend_from_slice(&buf[..n]);
            if got.len() >= 4 {
                break;
            }
        }
        println!("server read on the second connection: {:?}", String::from_utf8_lossy(&got));
        assert_eq!(got, b"BBBB", "the second connection must deliver exactly what was written on it");
        std::future::pending::<()>().await;
        Ok(())
    });
    sim.client("client", async {
        let mut s1 = TcpStream::connect("server:80").await?;
        let a1 = s1.local_addr()?;
        s1.write_all(b"AA").await?;
        // wait until the server's RST has arrived
        tokio::time::sleep(Duration::from_millis(60)).await;
        let mut s2 = TcpStream::connect("server:80").await?;
        println!("first local addr {a1}, second {}", s2.local_addr()?);
        s2.write_all(b"BB").await?;
        tokio::time::sleep(Duration::from_millis(10)).await;
        // the reconnect idiom: the old stream value is dropped after the new one exists
        drop(s1);
        tokio::time::sleep(Duration::from_millis(10)).await;
        let r = s2.write_all(b"BB").await;
        println!("write on the new connection after dropping the old stream: {r:?}");
        r?;
        tokio::time::sleep(Duration::from_millis(50)).await;
        Ok(())
    });
    sim.run()
}

/// a write through the OLD (reset) stream object lands in the NEW connection.
#[test]
fn stale_write_is_injected_into_the_new_connection() -> turmoil::Result {
    let mut sim = Builder::new()
        .ephemeral_ports(49152..=49152)
        .min_message_latency(Duration::from_millis(1))
        .max_message_latency(Duration::from_millis(1))
        .build();
    sim.host("server", || async {
        let l = TcpListener::bind("0.0.0.0:80").await?;
        let (s, _) = l.accept().await?;
        tokio::time::sleep(Duration::from_millis(20)).await;
        drop(s);
        let (mut s, _) = l.accept().await?;
        let mut buf = [0u8; 16];
        let n = s.read(&mut buf).await?;
        println!("server read on the second connection: {:?}", String::from_utf8_lossy(&buf[..n]));
        assert_ne!(&buf[..n.min(2)], b"XX", "bytes written on the old, reset stream were read on the new connection");
        std::future::pending::<()>().await;
        Ok(())
    });
    sim.client("client", async {
        let mut s1 = TcpStream::connect("server:80").await?;
        s1.write_all(b"AA").await?;
        tokio::time::sleep(Duration::from_millis(60)).await;
        println!("old stream write before reconnect: {:?}", s1.try_write(b"XX"));
        let mut s2 = TcpStream::connect("server:80").await?;
        println!("old stream write after reconnect: {:?}", s1.try_write(b"XX"));
        tokio::time::sleep(Duration::from_millis(5)).await;
        s2.write_all(b"BB").await?;
        tokio::time::sleep(Duration::from_millis(50)).await;
        Ok(())
    });
    sim.run()
}

/// residual scenario: the OLD stream has unread data in its own receive queue when it is dropped after the
/// reconnect — its destructor must not send a RST by address pair (it would reset the new connection).
#[test]
fn dropping_the_old_stream_with_unread_data_does_not_reset_the_new_connection() -> turmoil::Result {
    let mut sim = Builder::new()
        .ephemeral_ports(49152..=49152)
        .min_message_latency(Duration::from_millis(1))
        .max_message_latency(Duration::from_millis(1))
        .build();
    sim.host("server", || async {
        let l = TcpListener::bind("0.0.0.0:80").await?;
        let (mut s, _) = l.accept().await?;
        s.write_all(b"DD").await?; // stays unread in the client's old stream
        tokio::time::sleep(Duration::from_millis(20)).await;
        drop(s); // "AA" unread here -> RST
        let (mut s, _) = l.accept().await?;
        let mut buf = [0u8; 16];
        let mut got = Vec::new();
        while got.len() < 4 {
            let n = s.read(&mut buf).await?;
            assert!(n > 0, "end-of-file on the new connection");
            got.extend_from_slice(&buf[..n]);
        }
        println!("server read on the second connection: {:?}", String::from_utf8_lossy(&got));
        std::future::pending::<()>().await;
        Ok(())
    });
    sim.client("client", async {
        let mut s1 = TcpStream::connect("server:80").await?;
        s1.write_all(b"AA").await?;
        tokio::time::sleep(Duration::from_millis(60)).await;
        let mut s2 = TcpStream::connect("server:80").await?;
        s2.write_all(b"BB").await?;
        tokio::time::sleep(Duration::from_millis(10)).await;
        drop(s1);
        tokio::time::sleep(Duration::from_millis(10)).await;
        s2.write_all(b"BB").await?;
        tokio::time::sleep(Duration::from_millis(50)).await;
        Ok(())
    });
    sim.run()
}
