#!/usr/bin/env python3
"""Nondeterminism-source scan (part of the translator layer T, used by C01).

Lists every use, in non-test code of the four crates, of an unordered std container, a random hasher,
the wall clock, OS randomness, the process environment or threads.  Each hit must be on the allow-list
(tools/nondet_allow.json) with the reason why it is a declared input or cannot influence an execution;
a hit that is not allow-listed breaks the C01 obligation (exit 1) and triggers the twin-run search.
"""
import json, os, re, sys
ROOT = os.path.dirname(os.path.dirname(os.path.abspath(__file__)))
REPO = "/repo"
PATTERNS = [
    ("unordered-container", re.compile(r"\b(HashMap|HashSet)\b")),
    ("random-hasher", re.compile(r"\bRandomState\b|\bDefaultHasher\b")),
    ("wall-clock", re.compile(r"SystemTime::now|std::time::Instant::now|\bInstant::now\(\)")),
    ("os-randomness", re.compile(r"thread_rng|from_os_rng|from_entropy|rand::random|OsRng|getrandom")),
    ("environment", re.compile(r"std::env::|env::var")),
    ("threads", re.compile(r"std::thread::spawn|thread::spawn|spawn_blocking")),
    ("address-as-value", re.compile(r"as \*const [A-Za-z_]+ as usize|\.as_ptr\(\) as usize")),
]

def strip_tests(text):
    """drop `#[cfg(test)] mod … { … }` blocks (brace matching) and comment lines."""
    out, i, n = [], 0, len(text)
    lines = text.split("\n")
    res = []
    skip_depth = None
    depth = 0
    pending_cfg_test = False
    for ln, line in enumerate(lines, 1):
        s = line.strip()
        if skip_depth is None and s.startswith("#[cfg(test)]"):
            pending_cfg_test = True
            res.append((ln, ""))
            continue
        if skip_depth is None and pending_cfg_test and (s.startswith("mod ") or s.startswith("pub mod ") or s.startswith("pub(crate) mod ")) and "{" in s:
            skip_depth = depth
            depth += s.count("{") - s.count("}")
            pending_cfg_test = False
            res.append((ln, ""))
            continue
        if s and not s.startswith("#["):
            pending_cfg_test = False
        opens, closes = line.count("{"), line.count("}")
        if skip_depth is not None:
            depth += opens - closes
            if depth <= skip_depth:
                skip_depth = None
            res.append((ln, ""))
            continue
        depth += opens - closes
        if s.startswith("//"):
            res.append((ln, ""))
        else:
            res.append((ln, line.split("//")[0]))
    return res

def main():
    allow = json.load(open(os.path.join(ROOT, "tools", "nondet_allow.json")))
    allowed = {(a["file"], a["kind"], a["text"]) for a in allow["allow"]}
    hits, new = [], []
    for crate in ("turmoil", "turmoil-net", "turmoil-fs", "turmoil-io-uring"):
        base = os.path.join(REPO, "crates", crate, "src")
        for dirpath, _, files in os.walk(base):
            for fn in sorted(files):
                if not fn.endswith(".rs"):
                    continue
                path = os.path.join(dirpath, fn)
                rel = os.path.relpath(path, REPO)
                for ln, code in strip_tests(open(path, encoding="utf-8").read()):
                    for kind, pat in PATTERNS:
                        if pat.search(code):
                            key = (rel, kind, code.strip())
                            hits.append({"file": rel, "line": ln, "kind": kind, "text": code.strip()})
                            if key not in allowed:
                                new.append(hits[-1])
    print(json.dumps({"hits": len(hits), "allowed": len(hits) - len(new), "new": new}, indent=1))
    return 1 if new else 0

if __name__ == "__main__":
    sys.exit(main())
