#!/usr/bin/env python3
"""Regenerate /verif/MANIFEST.json from specs/*.json (claimed) + properties.jsonl (everything else)."""
import json, os, glob
ROOT = os.path.dirname(os.path.dirname(os.path.abspath(__file__)))
props = [json.loads(l) for l in open(os.path.join(ROOT, "properties.jsonl"))]
CLAIMED = set(open(os.path.join(ROOT, "tools", "claimed.txt")).read().split())
specs = {}
for p in sorted(glob.glob(os.path.join(ROOT, "specs", "C*.json"))):
    s = json.load(open(p))
    if s["id"] in CLAIMED:
        specs[s["id"]] = s
NA = json.load(open(os.path.join(ROOT, "tools", "not_applicable.json"))) if os.path.exists(os.path.join(ROOT, "tools", "not_applicable.json")) else {}
checks = []
for pid, s in sorted(specs.items()):
    checks.append({
        "property_id": pid,
        "quick_cmd": "./check %s --tier quick" % pid,
        "thorough_cmd": "./check %s --tier thorough" % pid,
        "evidence_file": "/verif/evidence/%s.json" % pid,
        "replay_cmd_template": "./check %s --replay {path}" % pid,
        "engine": "lean4+" + s["area"],
        "level_claimed": {"category": "proof", "text": s["level_text"], "design_ref": "DESIGN.md section 6, " + pid},
        "level_note": s["level_note"],
        "technique": s["technique"]})
areas = {}
for pid, s in specs.items():
    areas.setdefault(s["area"], {"proj": s["lean_project"], "harness": s["harness_crate"], "props": []})["props"].append(pid)
hooks_commits = [l.strip() for l in open(os.path.join(ROOT, "tools", "hook_commits.txt"))] if os.path.exists(os.path.join(ROOT, "tools", "hook_commits.txt")) else []
m = {"version": 1, "setup_cmd": "./setup.sh",
     "hooks": {"guard": "turmoil_verif",
               "enable": "rustflags --cfg tokio_unstable --cfg turmoil_verif (each harness crate's .cargo/config.toml)",
               "baseline_off_cmd": "cd /repo && cargo test --workspace --no-fail-fast --offline",
               "source_commits": hooks_commits, "add_only": True},
     "engines": [{"name": "lean4+" + a, "path": "/verif/" + v["proj"], "serves_properties": sorted(v["props"]),
                  "kind_free_text": "Lean 4 model + theorems (%s), Lean driver, Rust correspondence harness %s" % (v["proj"], v["harness"])}
                 for a, v in sorted(areas.items())],
     "checks": checks,
     "notes": "Every check: ./check <ID> --tier quick|thorough (see DESIGN.md, CONVENTIONS.md). Technique: machine-checked proof in Lean 4 + differential correspondence.",
     "not_applicable": [{"property_id": p["id"], "reason": NA.get(p["id"], "check under construction in this session (the technique applies; see DESIGN.md section 6) - not yet claimed")}
                        for p in props if p["id"] not in specs]}
json.dump(m, open(os.path.join(ROOT, "MANIFEST.json"), "w"), indent=1)
print("claimed:", sorted(specs))
