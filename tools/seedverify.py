#!/usr/bin/env python3
"""seedverify.py <ID> [--src /tmp/seed-<ID>/OUT] [--checks C03,C08]

Confirms a seeded breaking change delivered by a sub-agent, then runs the registered checks against it.
  1. fresh scratch worktree of /repo HEAD (outside /repo and /verif), demo copied in
  2. demo without the patch  -> must pass
  3. patch applied: workspace builds, the pinned suite passes, demo -> must fail
  4. scratch worktree removed
  5. patch applied to /repo, `VERIF_SCRATCH=1 ./check <ID>` (and extra checks) run, /repo restored
Writes /verif/seeded/<ID>/{patch.diff, demo.rs, demo_cmd.txt, meta.json}.
"""
import json, os, re, shutil, subprocess, sys, time

def sh(cmd, cwd=None, env=None, timeout=3600):
    e = dict(os.environ); e["CARGO_NET_OFFLINE"] = "true"
    if env: e.update(env)
    p = subprocess.run(cmd, cwd=cwd, env=e, shell=isinstance(cmd, str), stdout=subprocess.PIPE, stderr=subprocess.STDOUT, text=True, timeout=timeout)
    return p.returncode, p.stdout

def run_checks(src, checks):
    rc, out = sh(["git", "-C", "/repo", "status", "--short"])
    if out.strip():
        print("refusing: /repo working tree is not clean"); print(out); return None
    sh(["git", "-C", "/repo", "apply", os.path.join(src, "patch.diff")])
    r = {}
    try:
        for c in checks:
            rc, out = sh(["/verif/check", c], cwd="/verif", env={"VERIF_SCRATCH": "1"}, timeout=3600)
            lines = [l[:300] for l in out.split("\n") if l.startswith("VIOLATION") or l.startswith("[K/O]") or l.startswith("[S]") or l.startswith("[P]") or l.startswith("[K]")]
            r[c] = {"exit": rc, "lines": lines}
    finally:
        sh(["git", "-C", "/repo", "apply", "-R", os.path.join(src, "patch.diff")])  # never a blanket checkout: /repo's working tree is shared
    return r

def recheck_only(pid, src, meta, checks):
    """the seed was already confirmed; only re-run the registered checks against it"""
    dst = "/verif/seeded/%s" % pid
    old = json.load(open(os.path.join(dst, "meta.json"))) if os.path.exists(os.path.join(dst, "meta.json")) else meta
    r = run_checks(dst if os.path.exists(os.path.join(dst, "patch.diff")) else src, checks)
    if r is None: return 2
    old.setdefault("verification", {}).setdefault("checks", {})
    hist = old.setdefault("earlier_runs", [])
    for c in checks:
        if c in old["verification"]["checks"]:
            hist.append({c: old["verification"]["checks"][c]})
        old["verification"]["checks"][c] = r[c]
    old["verification"]["rechecked_at"] = time.strftime("%Y-%m-%dT%H:%M:%SZ", time.gmtime())
    old["detected_by"] = {c: ("caught" if v["exit"] != 0 else "MISSED") for c, v in old["verification"]["checks"].items()}
    json.dump(old, open(os.path.join(dst, "meta.json"), "w"), indent=1)
    print(json.dumps(r, indent=1))
    return 0

def main():
    pid = sys.argv[1]
    src = "/tmp/seed-%s/OUT" % pid
    checks = [pid]
    recheck = False
    name = pid
    if "--name" in sys.argv: name = sys.argv[sys.argv.index("--name") + 1]
    a = sys.argv[2:]
    while a:
        if a[0] == "--src": src = a[1]; a = a[2:]
        elif a[0] == "--checks": checks = a[1].split(","); a = a[2:]
        elif a[0] == "--recheck": recheck = True; a = a[1:]
        elif a[0] == "--name": name = a[1]; a = a[2:]
        elif a[0] == "--verify-only": a = a[1:]
        else: a = a[1:]
    if "--recheck" in sys.argv and not os.path.isdir(src):
        src = "/verif/seeded/%s" % name
    meta = json.load(open(os.path.join(src, "meta.json")))
    if "--recheck" in sys.argv:
        return recheck_only(name, src, meta, checks if "--checks" in sys.argv else [pid])
    demo_cmd = open(os.path.join(src, "demo_cmd.txt")).read().strip().split("\n")[-1].strip()
    wt = "/tmp/sv-%s" % pid
    tgt = "/tmp/sv-%s-target" % pid
    sh(["git", "-C", "/repo", "worktree", "remove", "--force", wt]); shutil.rmtree(wt, ignore_errors=True)
    rc, out = sh(["git", "-C", "/repo", "worktree", "add", "--detach", wt, "HEAD"])
    res = {"property": pid, "verified_at": time.strftime("%Y-%m-%dT%H:%M:%SZ", time.gmtime())}
    try:
        # where does the demo go? take the path from the demo command (--test name) or meta files
        demo_dst = None
        m = re.search(r"--test\s+(\S+)", demo_cmd)
        pkg = re.search(r"-p\s+(\S+)", demo_cmd)
        if m:
            crate = pkg.group(1) if pkg else "turmoil"
            demo_dst = os.path.join(wt, "crates", crate, "tests", m.group(1) + ".rs")
        for f in meta.get("files", []):
            if f.endswith(".rs") and "/tests/" in f and demo_dst is None:
                demo_dst = os.path.join(wt, f)
        if demo_dst is None:
            demo_dst = os.path.join(wt, "crates", "turmoil", "tests", "seed_%s.rs" % pid.lower())
        os.makedirs(os.path.dirname(demo_dst), exist_ok=True)
        shutil.copy(os.path.join(src, "demo.rs"), demo_dst)
        cmd = re.sub(r"CARGO_TARGET_DIR=\S+\s*", "", demo_cmd)
        cmd = re.sub(r"cd\s+\S+\s*&&\s*", "", cmd)
        env = {"CARGO_TARGET_DIR": tgt}
        rc0, out0 = sh(cmd, cwd=wt, env=env)
        res["demo_without_patch"] = "pass" if rc0 == 0 else "FAIL"
        rc, out = sh(["git", "apply", os.path.join(src, "patch.diff")], cwd=wt)
        res["patch_applies"] = rc == 0
        rc, out = sh("cargo build --workspace --offline 2>&1 | tail -3", cwd=wt, env=env)
        res["builds"] = "Finished" in out or rc == 0
        # the pinned suite, without the demonstration file in the tree
        os.rename(demo_dst, demo_dst + ".aside")
        rc, out = sh("cargo test --workspace --no-fail-fast --offline 2>&1 | grep -E '^test result|FAILED|^error'", cwd=wt, env=env)
        os.rename(demo_dst + ".aside", demo_dst)
        passed = sum(int(x) for x in re.findall(r"(\d+) passed", out))
        failed = sum(int(x) for x in re.findall(r"(\d+) failed", out))
        fails = [l for l in out.split("\n") if "FAILED" in l or l.startswith("error")]
        res["suite"] = {"passed": passed, "failed": failed, "failures": fails[:5]}
        res["suite_passes"] = failed == 0 and not fails and passed >= 200
        rc1, out1 = sh(cmd, cwd=wt, env=env)
        res["demo_with_patch"] = "fail" if rc1 != 0 else "PASSES"
        res["demo_failures"] = len(re.findall(r"test \S+ \.\.\. FAILED", out1))
    finally:
        sh(["git", "-C", "/repo", "worktree", "remove", "--force", wt]); shutil.rmtree(wt, ignore_errors=True); shutil.rmtree(tgt, ignore_errors=True)
    if "--verify-only" in sys.argv:
        # phase 1 only: store the confirmed seed; run the checks later with --recheck
        dst = "/verif/seeded/%s" % name
        os.makedirs(dst, exist_ok=True)
        for f in ("patch.diff", "demo.rs", "demo_cmd.txt"):
            shutil.copy(os.path.join(src, f), os.path.join(dst, f))
        res["checks"] = {}
        meta["verification"] = res
        meta["detected_by"] = {}
        json.dump(meta, open(os.path.join(dst, "meta.json"), "w"), indent=1)
        print(json.dumps(res, indent=1))
        return 0
    # run the checks against /repo with the patch applied
    rc, out = sh(["git", "-C", "/repo", "status", "--short"])
    if out.strip():
        print("refusing: /repo working tree is not clean"); print(out); return 2
    rc, out = sh(["git", "-C", "/repo", "apply", os.path.join(src, "patch.diff")])
    res["checks"] = {}
    try:
        for c in checks:
            rc, out = sh(["/verif/check", c], cwd="/verif", env={"VERIF_SCRATCH": "1"}, timeout=3600)
            lines = [l[:300] for l in out.split("\n") if l.startswith("VIOLATION") or l.startswith("[K/O]") or l.startswith("[S]") or l.startswith("[P]") or l.startswith("[K]")]
            res["checks"][c] = {"exit": rc, "lines": lines}
    finally:
        sh(["git", "-C", "/repo", "apply", "-R", os.path.join(src, "patch.diff")])  # never a blanket checkout: /repo's working tree is shared
    dst = "/verif/seeded/%s" % name
    os.makedirs(dst, exist_ok=True)
    for f in ("patch.diff", "demo.rs", "demo_cmd.txt"):
        shutil.copy(os.path.join(src, f), os.path.join(dst, f))
    meta["verification"] = res
    meta["detected_by"] = {c: ("caught" if v["exit"] != 0 else "MISSED") for c, v in res["checks"].items()}
    json.dump(meta, open(os.path.join(dst, "meta.json"), "w"), indent=1)
    print(json.dumps(res, indent=1))
    return 0

if __name__ == "__main__":
    sys.exit(main())
