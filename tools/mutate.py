#!/usr/bin/env python3
"""Systematic operator mutants of the anchored source files, as an unbiased measure of the checks.

  mutate.py gen   [--n N] [--seed S]        -> .cache/mut/mutants.json   (sites sampled from /repo HEAD)
  mutate.py test  [--workers W]             -> tests every mutant in scratch worktrees under /tmp/mut (NOT /repo):
                                               nocompile | killed (baseline suite fails) | survived
  mutate.py check                           -> every survivor is applied to /repo's working tree (must be clean), the quick
                                               checks of the properties mapped to its file run with VERIF_SCRATCH=1, /repo
                                               is restored; result caught-by:<ids> | quiet
  mutate.py report                          -> table

Nothing here is registered in MANIFEST.json; it is a measuring instrument for DESIGN.md section 14.6.
"""
import json
import os
import random
import re
import subprocess
import sys
import time
from concurrent.futures import ThreadPoolExecutor

ROOT = os.path.dirname(os.path.dirname(os.path.abspath(__file__)))
OUT = os.path.join(ROOT, ".cache", "mut")
SCR = "/tmp/mut"

FILES = {
    "crates/turmoil/src/top.rs": ["C03", "C08", "C14", "C01"],
    "crates/turmoil/src/host.rs": ["C02", "C09", "C12", "C15", "C05", "C04"],
    "crates/turmoil/src/sim.rs": ["C11", "C04", "C05", "C01"],
    "crates/turmoil/src/rt.rs": ["C04", "C11", "C05"],
    "crates/turmoil/src/world.rs": ["C04", "C09", "C12", "C03", "C14"],
    "crates/turmoil/src/dns.rs": ["C15"],
    "crates/turmoil/src/ip.rs": ["C15"],
    "crates/turmoil/src/net/udp.rs": ["C09", "C04", "C15"],
    "crates/turmoil/src/net/tcp/stream.rs": ["C02", "C12", "C04", "C15"],
    "crates/turmoil/src/net/tcp/listener.rs": ["C12", "C04", "C15"],
    "crates/turmoil/src/net/tcp/split_owned.rs": ["C02", "C12"],
    "crates/turmoil/src/barriers.rs": ["C20"],
    "crates/turmoil-net/src/kernel/tcp.rs": ["C06", "C13", "C16", "C17"],
    "crates/turmoil-net/src/kernel/mod.rs": ["C17", "C16", "C13"],
    "crates/turmoil-net/src/kernel/socket.rs": ["C17", "C13"],
    "crates/turmoil-net/src/kernel/udp.rs": ["C17", "C16"],
    "crates/turmoil-net/src/fixture/scheduler.rs": ["C19"],
    "crates/turmoil-net/src/lib.rs": ["C19", "C17"],
    "crates/turmoil-fs/src/lib.rs": ["C07", "C10"],
    "crates/turmoil-io-uring/src/sim.rs": ["C18"],
}

SKIP = re.compile(r"tracing::|trace!|debug!|info!|warn!|error!|assert|panic!|unreachable!|turmoil_verif|verif::|^\s*use |^\s*#\[|^\s*//|^\s*\*|^\s*pub use|expect\(|unimplemented!|todo!")

OPS = [
    ("rel", r" <= ", " < "), ("rel", r" < ", " <= "), ("rel", r" >= ", " > "), ("rel", r" > ", " >= "),
    ("eq", r" == ", " != "), ("eq", r" != ", " == "),
    ("bool", r" && ", " || "), ("bool", r" \|\| ", " && "),
    ("arith", r" \+ 1\b", ""), ("arith", r" - 1\b", ""), ("arith", r" \+ (?=[a-z_(])", " - "), ("arith", r" - (?=[a-z_(])", " + "),
    ("neg", r"!(?=[a-z_(])(?!=)", ""),
    ("const", r"\btrue\b", "false"), ("const", r"\bfalse\b", "true"),
]
STMT = re.compile(r"^(\s*)(self|[a-z_][a-z0-9_]*)(\.[a-z_][a-z0-9_]*(\(.*\))?)*\.[a-z_][a-z0-9_]*\(.*\);\s*$")


def sh(cmd, cwd=None, env=None, timeout=None):
    e = dict(os.environ)
    e["CARGO_NET_OFFLINE"] = "true"
    if env:
        e.update(env)
    try:
        p = subprocess.run(cmd, cwd=cwd, env=e, stdout=subprocess.PIPE, stderr=subprocess.STDOUT, text=True,
                           errors="replace", timeout=timeout)
        return p.returncode, p.stdout
    except subprocess.TimeoutExpired as ex:
        return 124, (ex.stdout or b"").decode(errors="replace") if isinstance(ex.stdout, bytes) else (ex.stdout or "")


def candidates():
    out = []
    for rel in FILES:
        path = os.path.join("/repo", rel)
        lines = open(path).read().split("\n")
        in_test = False
        for i, line in enumerate(lines):
            if re.match(r"\s*#\[cfg\(test\)\]", line):
                in_test = True
            if in_test or SKIP.search(line):
                continue
            code = line.split("//")[0]
            if not code.strip():
                continue
            for kind, pat, rep in OPS:
                for m in re.finditer(pat, code):
                    # generics: a '<' or '>' next to a type-ish token
                    if kind == "rel" and re.search(r"[A-Z]\w*\s*$", code[:m.start()]) and "<" in m.group(0):
                        continue
                    new = code[:m.start()] + rep + code[m.end():] + line[len(code):]
                    out.append({"file": rel, "line": i + 1, "op": kind, "old": line, "new": new})
            if STMT.match(code) and not code.strip().startswith(("let ", "return", "Ok(", "Err(")):
                out.append({"file": rel, "line": i + 1, "op": "delstmt", "old": line, "new": re.match(r"\s*", line).group(0) + "();"})
    return out


def gen(n, seed):
    os.makedirs(OUT, exist_ok=True)
    cands = candidates()
    rng = random.Random(seed)
    byfile = {}
    for c in cands:
        byfile.setdefault(c["file"], []).append(c)
    total = len(cands)
    picked = []
    for f, cs in sorted(byfile.items()):
        q = min(30, max(6, round(n * len(cs) / total)))
        rng.shuffle(cs)
        # spread over operator kinds
        seen, sel = {}, []
        for c in cs:
            k = c["op"]
            if seen.get(k, 0) < max(1, q // 3) and len(sel) < q:
                sel.append(c)
                seen[k] = seen.get(k, 0) + 1
        for c in cs:
            if len(sel) >= q:
                break
            if c not in sel:
                sel.append(c)
        picked += sel
    for i, c in enumerate(picked):
        c["id"] = "M%03d" % i
        c["props"] = FILES[c["file"]]
    json.dump({"head": sh(["git", "-C", "/repo", "rev-parse", "HEAD"])[1].strip(), "seed": seed,
               "candidates": total, "mutants": picked}, open(os.path.join(OUT, "mutants.json"), "w"), indent=1)
    print("candidates=%d picked=%d" % (total, len(picked)))


def apply_to(root, m):
    path = os.path.join(root, m["file"])
    lines = open(path).read().split("\n")
    i = m["line"] - 1
    if i >= len(lines) or lines[i] != m["old"]:
        # the file moved under the mutant (a later commit): the same line, uniquely, within 60 lines
        near = [j for j in range(max(0, i - 60), min(len(lines), i + 60)) if lines[j] == m["old"]]
        assert len(near) == 1, (m["id"], "source moved")
        i = near[0]
    lines[i] = m["new"]
    open(path, "w").write("\n".join(lines))


def test_worker(w, todo, results):
    wt, tgt = os.path.join(SCR, "w%d" % w), os.path.join(SCR, "t%d" % w)
    if not os.path.isdir(wt):
        sh(["git", "-C", "/repo", "worktree", "add", "--detach", wt, "HEAD"])
    env = {"CARGO_TARGET_DIR": tgt}
    while True:
        try:
            m = todo.pop()
        except IndexError:
            break
        sh(["git", "checkout", "--", "."], cwd=wt)
        apply_to(wt, m)
        t0 = time.time()
        rc, out = sh(["cargo", "build", "--workspace", "--all-targets", "--offline"], cwd=wt, env=env, timeout=1200)
        if rc != 0:
            res = "nocompile"
        else:
            # tests/tokio_io.rs binds the fixed path /tmp/test_socket1: two workers running it at the same moment
            # collide and leave a stale socket that fails every later run — skipped here (it exercises no anchored code)
            rc1, o1 = sh(["cargo", "test", "--workspace", "--no-fail-fast", "--offline", "--", "--skip", "test_tokio_with_io_enabled"],
                         cwd=wt, env=env, timeout=1500)
            rc2, o2 = (0, "")
            if rc1 == 0:
                rc2, o2 = sh(["cargo", "test", "-p", "turmoil", "--features", "unstable-fs,unstable-io_uring,unstable-barriers,regex",
                              "--no-fail-fast", "--offline", "--", "--skip", "test_tokio_with_io_enabled"], cwd=wt, env=env, timeout=1500)
            res = "survived" if rc1 == 0 and rc2 == 0 else "killed"
        results[m["id"]] = {"test": res, "test_s": round(time.time() - t0, 1)}
        print(m["id"], m["file"], m["line"], m["op"], res, flush=True)
        json.dump(results, open(os.path.join(OUT, "test_results.json"), "w"), indent=1)
    sh(["git", "checkout", "--", "."], cwd=wt)


def test(workers):
    data = json.load(open(os.path.join(OUT, "mutants.json")))
    rp = os.path.join(OUT, "test_results.json")
    results = json.load(open(rp)) if os.path.exists(rp) else {}
    todo = [m for m in data["mutants"] if m["id"] not in results][::-1]
    os.makedirs(SCR, exist_ok=True)
    with ThreadPoolExecutor(workers) as ex:
        for w in range(workers):
            ex.submit(test_worker, w, todo, results)
    json.dump(results, open(rp, "w"), indent=1)


def check():
    data = json.load(open(os.path.join(OUT, "mutants.json")))
    results = json.load(open(os.path.join(OUT, "test_results.json")))
    cp = os.path.join(OUT, "check_results.json")
    done = json.load(open(cp)) if os.path.exists(cp) else {}
    for m in data["mutants"]:
        if results.get(m["id"], {}).get("test") != "survived" or m["id"] in done:
            continue
        rc, out = sh(["git", "-C", "/repo", "status", "--short"])
        if [l for l in out.split("\n") if l and not l.startswith("??")]:
            print("refusing: /repo working tree is not clean")
            return 2
        try:
            apply_to("/repo", m)
        except AssertionError:
            done[m["id"]] = {"caught_by": [], "stale": True, "runs": {}}
            print(m["id"], "stale: the line no longer exists in /repo HEAD", flush=True)
            json.dump(done, open(cp, "w"), indent=1)
            continue
        try:
            def run(p):
                rc, out = sh([os.path.join(ROOT, "check"), p], cwd=ROOT, env={"VERIF_SCRATCH": "1"}, timeout=3000)
                tail = [l for l in out.split("\n") if l.startswith(("VIOLATION", "[K/O]", "[P]", "[K]"))]
                return p, rc, tail
            with ThreadPoolExecutor(4) as ex:
                rs = list(ex.map(run, m["props"]))
        finally:
            sh(["git", "-C", "/repo", "checkout", "--", "."])
        caught = [p for p, rc, _ in rs if rc != 0]
        done[m["id"]] = {"caught_by": caught, "runs": {p: {"rc": rc, "lines": t} for p, rc, t in rs}}
        print(m["id"], m["file"], m["line"], m["op"], "caught-by:" + ",".join(caught) if caught else "quiet", flush=True)
        json.dump(done, open(cp, "w"), indent=1)
    return 0


def report():
    data = json.load(open(os.path.join(OUT, "mutants.json")))
    results = json.load(open(os.path.join(OUT, "test_results.json")))
    cp = os.path.join(OUT, "check_results.json")
    done = json.load(open(cp)) if os.path.exists(cp) else {}
    tot = {}
    for m in data["mutants"]:
        r = results.get(m["id"], {}).get("test", "?")
        c = done.get(m["id"])
        key = r if r != "survived" else ("survived+stale" if c and c.get("stale") else "survived+caught" if c and c["caught_by"] else ("survived+quiet" if c else "survived+unchecked"))
        tot[key] = tot.get(key, 0) + 1
        if key == "survived+quiet":
            print("QUIET %s %s:%d [%s]\n   - %s\n   + %s" % (m["id"], m["file"], m["line"], m["op"], m["old"].strip(), m["new"].strip()))
    print(tot)


if __name__ == "__main__":
    a = sys.argv[1:]
    def opt(name, d):
        return int(a[a.index(name) + 1]) if name in a else d
    if a[0] == "gen":
        gen(opt("--n", 150), opt("--seed", 1))
    elif a[0] == "test":
        test(opt("--workers", 6))
    elif a[0] == "check":
        sys.exit(check())
    elif a[0] == "report":
        report()
