import TvCore.Model.Link
import TvCore.Model.Types
import TvCore.Model.Ports
import TvCore.Model.World
import TvCore.Model.Ops
import TvCore.Props.C03
import TvCore.Props.C09Fanout
