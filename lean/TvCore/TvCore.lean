-- This module serves as the root of the `TvCore` library.
-- Import modules here that should be built as part of the library.
import TvCore.Basic
