import TvCore.Model.Link
