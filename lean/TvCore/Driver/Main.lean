import Driver.Replay
import Driver.Oracles
import Driver.C11
import Driver.C01
/-
  tvcoredriver <PROP> <trace-file>
  One `CASE` line per case (CONVENTIONS §3) and a SUMMARY line.
-/
open TV TV.Driver

/-- is the repair of F-C02-2 (stream identities, `Model/StreamId.lean`) part of the committed code?  The variant
    with this value is the one a case must replay under for K=ok; the variant with the other value is tried
    first on a mismatch ("fixed:all+streamid" / "fixed:all-streamid").  Flip when the repair is committed. -/
def committedStreamId : Bool := false

/-- Model variants.  The first one is the code as it stands (all committed repairs, including the
    ready-queue repair of F-C08-1 / F-C03-2 in `Cfg.fixed`); a case must replay under it for K=ok.  The
    others are the code before each repair (`Cfg.fixedRand` = random process repaired, ready queues not):
    when only one of those replays, the detail says which repaired defect is back. -/
def variants : List (String × Cfg × Bool × Bool × Bool) :=
  [ ("fixed:all", Cfg.fixed, true, true, true),
    ("fixed:rand+leak+fin+writer", Cfg.fixedRand, true, true, true),  -- the tree before the repair of F-C08-1 / F-C03-2
    ("fixed:rand+leak+fin", Cfg.fixedRand, true, true, false),  -- the tree before the repair of F-C04-1
    ("faithful", Cfg.faithful, false, false, false),
    ("fixed:rand", Cfg.fixedRand, false, false, false),
    ("fixed:leak", Cfg.faithful, true, false, false),
    ("fixed:fin", Cfg.faithful, false, true, false),
    ("fixed:rand+leak", Cfg.fixedRand, true, false, false),
    ("fixed:rand+fin", Cfg.fixedRand, false, true, false),
    ("fixed:leak+fin", Cfg.faithful, true, true, false),
    ("fixed:writer", Cfg.faithful, false, false, true),
    ("fixed:rand+leak+writer", Cfg.fixedRand, true, false, true),
    ("fixed:rand+fin+writer", Cfg.fixedRand, false, true, true),
    ("fixed:leak+fin+writer", Cfg.faithful, true, true, true) ]

def splitCases (lines : List String) : List (List String) :=
  let (cur, acc) := lines.foldl (fun (st : List String × List (List String)) l =>
    let (cur, acc) := st
    if l.startsWith "CASE " then ([l], if cur.isEmpty then acc else acc ++ [cur.reverse])
    else (l :: cur, acc)) ([], [])
  if cur.isEmpty then acc else acc ++ [cur.reverse]

def runCase (prop : String) (lines : List String) : String × Bool × Bool :=
  let n := match lines.head? with
    | some l => ((l.splitOn " ").getD 1 "0")
    | none => "0"
  -- K: first variant that replays without mismatch (later variants are only tried on mismatch)
  let rec firstOk (vs : List (String × Cfg × Bool × Bool × Bool)) : Option (String × RState) :=
    match vs with
    | [] => none
    | (name, link, leak, fin, wr) :: rest =>
      let st := replay lines link leak fin wr
      if st.bad.isNone then some (name, st) else firstOk rest
  let cur := replay lines Cfg.fixed true true true committedStreamId
  let other := replay lines Cfg.fixed true true true (!committedStreamId)
  let (kOk, vname, st) :=
    if cur.bad.isNone then (true, "fixed:all", cur) else
    if other.bad.isNone then (false, (if committedStreamId then "regressed:fixed:all-streamid" else "regressed:fixed:all+streamid"), cur) else
    match firstOk (variants.drop 1) with
    | some (name, _) => (false, s!"regressed:{name}", cur)
    | none => (false, "none", cur)
  let (lineNo, kdetail) := match st.bad with | some (ln, d) => (ln, d) | none => (0, "")
  let o := oracle prop lines st.w.cov
  let cov := ",".intercalate (st.w.cov.reverse ++ o.cov)
  let detail := if !o.ok then o.detail else kdetail
  let oline := if o.ok then 0 else o.line
  (s!"CASE {n} K={if kOk then "ok" else "mismatch"} O={if o.ok then "ok" else "fail"} variant={vname} pattern={o.pattern} line={if kOk then oline else lineNo} cov={if cov.isEmpty then "-" else cov} detail={detail}",
   kOk, o.ok)

/-- One case: verdict line, K ok, O ok. -/
def evalCase (prop : String) (c : List String) : String × Bool × Bool :=
  let isC11 : Bool := match c.head? with | some l => decide ((l.splitOn "family=c11").length > 1) | none => false
  if prop == "C01" then TV.Driver.C01.evalCase c
  else if isC11 then TV.Driver.C11.evalCase c else runCase prop c

/-- The trace is read line by line and evaluated case by case (a thorough-tier trace is gigabytes long;
    only the current case is held in memory). -/
partial def loop (prop : String) (h : IO.FS.Handle) (cur : List String) (n kbad obad : Nat) : IO (Nat × Nat × Nat) := do
  let raw ← h.getLine
  let eof := raw.isEmpty
  let l := if raw.endsWith "\n" then (raw.dropEnd 1).toString else raw
  if eof || l.startsWith "CASE " then
    let (n, kbad, obad) ← if cur.isEmpty then pure (n, kbad, obad) else do
      let (out, k, o) := evalCase prop cur.reverse
      IO.println out
      pure (n + 1, if k then kbad else kbad + 1, if o then obad else obad + 1)
    if eof then return (n, kbad, obad)
    loop prop h [l] n kbad obad
  else if l.isEmpty then loop prop h cur n kbad obad
  else loop prop h (if cur.isEmpty then [] else l :: cur) n kbad obad

def main (args : List String) : IO UInt32 := do
  match args with
  | [prop, path] =>
    let h ← IO.FS.Handle.mk path .read
    let (n, kbad, obad) ← loop prop h [] 0 0 0
    IO.println s!"SUMMARY cases={n} kmismatch={kbad} ofail={obad}"
    return 0
  | _ =>
    IO.eprintln "usage: tvcoredriver <PROP> <trace-file>"
    return 2
