import Driver.Replay
/-
  Property oracles evaluated on the implementation's own observations (O).
  They read only OP / OBS / EV / ORA lines of the trace — never the model's state.
-/
namespace TV.Driver

structure OResult where
  ok : Bool := true
  pattern : String := "none"
  line : Nat := 0
  detail : String := ""
  cov : List String := []

def toks (l : String) : List String := (l.splitOn " ").filter (· != "")

/-- (line number, OP tokens, OBS tokens) for every operation of a case, in order. -/
def opObsPairsRaw (lines : List String) : List (Nat × List String × List String) :=
  let (acc, cur, _) := lines.foldl (fun (st : List (Nat × List String × List String) × Option (Nat × List String) × Nat) l =>
    let (acc, cur, ln) := st
    if l.startsWith "OP " then
      let rest := (toks l).drop 1
      -- a pending op without OBS (e.g. `q`) is emitted with an empty observation
      let acc := match cur with | some (n, op) => (n, op, []) :: acc | none => acc
      (acc, some (ln, rest), ln + 1)
    else if l.startsWith "OBS " || l == "OBS" then
      match cur with
      | some (n, op) => ((n, op, (toks l).drop 1) :: acc, none, ln + 1)
      | none => (acc, none, ln + 1)
    else (acc, cur, ln + 1)) ([], none, 1)
  let acc := match cur with | some (n, op) => (n, op, []) :: acc | none => acc
  acc.reverse

/-- a host-set call (`partition1_set h0,h1 h1,h2` …) is the single call on every ordered pair of
    distinct hosts; the oracles only ever see single calls. -/
def expandSetOp (x : Nat × List String × List String) : List (Nat × List String × List String) :=
  let (ln, op, obs) := x
  match op with
  | ["ctl", name, as, bs] =>
    if name.endsWith "_set" then
      let base := (name.dropEnd 4).toString
      (as.splitOn ",").flatMap (fun a => (bs.splitOn ",").filterMap (fun b =>
        if a != b then some (ln, ["ctl", base, a, b], obs) else none))
    else [x]
  | _ => [x]

def opObsPairs (lines : List String) : List (Nat × List String × List String) :=
  (opObsPairsRaw lines).flatMap expandSetOp

def hasCoin (lines : List String) : Bool :=
  lines.any (fun l => l == "ORA fail 1" || l.startsWith "ORA repair")

def msgId (hex : String) : Option Nat :=
  if hex.length < 4 then none else
  let cs := hex.toList.take 4
  cs.foldl (fun acc c =>
    match acc with
    | none => none
    | some v =>
      let d := if '0' ≤ c && c ≤ '9' then some (c.toNat - '0'.toNat)
               else if 'a' ≤ c && c ≤ 'f' then some (c.toNat - 'a'.toNat + 10) else none
      d.map (fun d => v * 16 + d)) (some 0)

/-! ### C03 -/

structure C03St where
  explicit : List (Nat × Nat) := []          -- directions (src host, dst host) explicitly partitioned now
  lastLinks : List (Nat × Nat × Nat) := []   -- (src host, dst host, msg id) in flight at the last `links` view
  linksFresh : Bool := false                 -- no send since the last `links` view
  bad : List (Nat × String) := []            -- msg id → why it must never be delivered
  good : List (Nat × Nat × Nat) := []        -- (id, src, dst) that must be delivered (fail = 0 only)
  recvd : List Nat := []
  res : OResult := {}

def hostTok (t : String) : Nat := (t.drop 1).toNat?.getD 0
def addrHost (t : String) : Option Nat :=
  match t.splitOn ":" with
  | [ip, _] => if ip.startsWith "h" then some (hostTok ip) else none
  | _ => none

def parseLinksView (obs : List String) : List (Nat × Nat × Nat) :=
  -- tokens like h0-h1[h0:9000>h1:9000/udp:0001ab,...]
  obs.foldl (fun acc t =>
    match t.splitOn "[" with
    | [_, body] =>
      let body := (body.dropEnd 1).toString
      if body.isEmpty then acc else
      acc ++ (body.splitOn ",").filterMap (fun m =>
        match m.splitOn "/" with
        | [sd, proto] =>
          match sd.splitOn ">" with
          | [s, d] =>
            match addrHost s, addrHost d, (if proto.startsWith "udp:" then msgId (proto.drop 4).toString else none) with
            | some sh, some dh, some id => some (sh, dh, id)
            | _, _, _ => none
          | _ => none
        | _ => none)
    | _ => acc) []

def c03Partition (st : C03St) (dirs : List (Nat × Nat)) (useLinks : Bool) : C03St :=
  let doomed := if useLinks && st.linksFresh then
      st.lastLinks.filter (fun (s, d, _) => dirs.contains (s, d)) |>.map (fun (_, _, id) => (id, "in flight when partitioned"))
    else []
  -- messages that were in flight in a partitioned direction need not be delivered any more
  let inDirs := fun (x : Nat × Nat × Nat) => dirs.contains (x.2.1, x.2.2)
  { st with explicit := st.explicit ++ dirs.filter (fun d => !st.explicit.contains d),
            bad := st.bad ++ doomed,
            good := st.good.filter (fun g => !inDirs g) }

def c03Repair (st : C03St) (dirs : List (Nat × Nat)) : C03St :=
  { st with explicit := st.explicit.filter (fun d => !dirs.contains d) }

def c03Step (failZero : Bool) (st : C03St) (x : Nat × List String × List String) : C03St :=
  let (ln, op, obs) := x
  let both := fun (a b : String) => [(hostTok a, hostTok b), (hostTok b, hostTok a)]
  let one := fun (a b : String) => [(hostTok a, hostTok b)]
  match op with
  | ["ctl", "links"] => { st with lastLinks := parseLinksView obs, linksFresh := true }
  | ["ctl", "partition", a, b] => c03Partition st (both a b) true
  | ["ctl", "partition1", a, b] => c03Partition st (one a b) true
  | ["ctl", "repair", a, b] => c03Repair st (both a b)
  | ["ctl", "repair1", a, b] => c03Repair st (one a b)
  | [_, "net_partition", a, b] => c03Partition st (both a b) false
  | [_, "net_partition1", a, b] => c03Partition st (one a b) false
  | [_, "net_repair", a, b] => c03Repair st (both a b)
  | [_, "net_repair1", a, b] => c03Repair st (one a b)
  | [h, "udp_send", _, dst, hex] =>
    let st := { st with linksFresh := false }
    if obs.head? != some "ok" then st else
    match addrHost dst, msgId hex with
    | some d, some id =>
      let s := hostTok h
      if s == d then st
      else if st.explicit.contains (s, d) then { st with bad := st.bad ++ [(id, "sent while explicitly partitioned")] }
      else if failZero then { st with good := st.good ++ [(id, s, d)] } else st
    | _, _ => st
  | [_, "udp_tryrecv", _, _] =>
    match obs with
    | ["ok", _, _, hex] =>
      match msgId hex with
      | some id =>
        let st := { st with recvd := st.recvd ++ [id] }
        match st.bad.find? (·.1 == id) with
        | some (_, why) =>
          if st.res.ok then { st with res := { ok := false, line := ln, detail := s!"datagram {id} delivered although {why}" } } else st
        | none =>
          if (st.recvd.filter (· == id)).length > 1 && st.res.ok then
            { st with res := { ok := false, line := ln, detail := s!"datagram {id} delivered twice" } }
          else st
      | none => st
    | _ => st
  | _ => st

/-! ### "still in flight", independently of the links iterator

A datagram is in flight from the moment the link takes it (`EV send`) until it is handed to the destination
host (`EV delivered`).  The links iterator shows only the part of that set that has not yet matured: a message
whose latency has already elapsed (a zero-latency send, say) waits in the link's per-destination queue until
the destination's next turn, invisible to the iterator.  The properties speak of messages *in flight*, so the two
rules below use the events, not the iterator:
  * C08 — in flight when `hold` is called ⇒ not delivered while the hold lasts            (pattern F-C08-1)
  * C03 — in flight in a direction when it is explicitly partitioned ⇒ never delivered      (pattern F-C03-2) -/

def pairKey (a b : Nat) : Nat × Nat := (min a b, max a b)

structure FlightSt where
  undeliv : List (Nat × Nat × Nat) := []          -- (id, src host, dst host): sent, not yet handed over
  heldPairs : List (Nat × Nat) := []
  heldIds : List (Nat × (Nat × Nat)) := []        -- in flight at the hold of that pair
  cutIds : List Nat := []                         -- in flight in a direction when it was partitioned
  bad : Option (Nat × String × String) := none    -- line, pattern, detail

def udpIdOf (proto : String) : Option Nat :=
  if proto.startsWith "udp:" then msgId (proto.drop 4).toString else none

def flightCtl (st : FlightSt) (name a b : String) : FlightSt :=
  let x := hostTok a
  let y := hostTok b
  let k := pairKey x y
  if name == "hold" || name == "net_hold" then
    if st.heldPairs.contains k then st else
    { st with heldPairs := st.heldPairs ++ [k],
              heldIds := st.heldIds ++ (st.undeliv.filter (fun m => pairKey m.2.1 m.2.2 == k)).map (fun m => (m.1, k)) }
  else if name == "release" || name == "net_release" || name == "repair" || name == "net_repair" ||
          name == "repair1" || name == "net_repair1" || name == "deliver" || name == "deliverall" then
    { st with heldPairs := st.heldPairs.filter (· != k), heldIds := st.heldIds.filter (·.2 != k) }
  else if name == "partition" || name == "net_partition" then
    { st with cutIds := st.cutIds ++ (st.undeliv.filter (fun m => pairKey m.2.1 m.2.2 == k)).map (·.1),
              heldPairs := st.heldPairs.filter (· != k), heldIds := st.heldIds.filter (·.2 != k) }
  else if name == "partition1" || name == "net_partition1" then
    { st with cutIds := st.cutIds ++ (st.undeliv.filter (fun m => m.2.1 == x && m.2.2 == y)).map (·.1),
              heldPairs := st.heldPairs.filter (· != k), heldIds := st.heldIds.filter (·.2 != k) }
  else st

def flightLine (st : FlightSt) (ln : Nat) (l : String) : FlightSt :=
  match toks l with
  | ["EV", "send", src, dst, proto] =>
    (match addrHost src, addrHost dst, udpIdOf proto with
     | some s, some d, some id => if s == d then st else { st with undeliv := st.undeliv ++ [(id, s, d)] }
     | _, _, _ => st)
  | ["EV", "delivered", src, dst, proto] =>
    (match addrHost src, addrHost dst, udpIdOf proto with
     | some s, some d, some id =>
       let st := if st.bad.isSome then st
         else if st.cutIds.contains id then
           { st with bad := some (ln, "F-C03-2", s!"datagram {id} h{s}->h{d} was in flight when its direction was explicitly partitioned and was delivered all the same") }
         else match st.heldIds.find? (·.1 == id) with
           | some (_, k) => if st.heldPairs.contains k then
               { st with bad := some (ln, "F-C08-1", s!"datagram {id} h{s}->h{d} was in flight when the link was held and was delivered while the hold lasted") } else st
           | none => st
       { st with undeliv := st.undeliv.filter (·.1 != id) }
     | _, _, _ => st)
  | ["OP", _, name, a, b] =>
    if name.endsWith "_set" then
      let base := (name.dropEnd 4).toString
      (a.splitOn ",").foldl (fun st x => (b.splitOn ",").foldl (fun st y => if x != y then flightCtl st base x y else st) st) st
    else flightCtl st name a b
  | ["OP", _, name, a, b, _] => if name == "deliver" then flightCtl st name a b else st
  | _ => st

/-- the messages in flight by the events (`EV send` without `EV delivered`) just before every line, for the lines
    that are `hold` calls: `(line number, [(id, src host, dst host)])`. -/
def flightSnapshots (lines : List String) : List (Nat × List (Nat × Nat × Nat)) :=
  let (_, _, acc) := lines.foldl (fun (x : FlightSt × Nat × List (Nat × List (Nat × Nat × Nat))) l =>
    let (st, ln, acc) := x
    let acc := match toks l with
      | "OP" :: _ :: name :: _ => if name == "hold" || name == "net_hold" || name == "hold_set" then acc ++ [(ln, st.undeliv)] else acc
      | _ => acc
    (flightLine st ln l, ln + 1, acc)) ({}, 1, [])
  acc

/-- host index ↦ numeric address, from the registration lines. -/
def hostIps (lines : List String) : List (Nat × Nat) :=
  lines.filterMap (fun l => match toks l with
    | "OP" :: "ctl" :: "reg" :: i :: rest => some (i.toNat?.getD 0, kvNat rest "ip" 0)
    | _ => none)

/-- first breach of the two in-flight rules, if any. -/
def flightRule (lines : List String) : Option (Nat × String × String) :=
  let (st, _) := lines.foldl (fun (acc : FlightSt × Nat) l => (flightLine acc.1 acc.2 l, acc.2 + 1)) ({}, 1)
  st.bad

def withFlightRule (want : String) (lines : List String) (res : OResult) : OResult :=
  if !res.ok then res else
  match flightRule lines with
  | some (ln, pat, detail) => if pat == want then { res with ok := false, line := ln, pattern := pat, detail := detail } else res
  | none => res

def oracleC03 (lines : List String) : OResult :=
  let cfgT := match lines.find? (·.startsWith "CFG ") with | some l => toks l | none => []
  let failZero := kvGet cfgT "fail" == some "0" && !lines.any (fun l => l.startsWith "OP ctl setfail" || l.startsWith "OP ctl setlinkfail")
  let drained := lines.any (· == "OP ctl mark drained")
  let st := (opObsPairs lines).foldl (c03Step failZero) {}
  let res := st.res
  -- keeps-flowing half: with fail_rate = 0 every datagram sent across a direction that was not
  -- explicitly partitioned (and not caught in flight by a later partition) is delivered.
  let res := if res.ok && failZero && drained then
      match st.good.find? (fun g => !st.recvd.contains g.1) with
      | some (id, s, d) => { res with ok := false, detail := s!"datagram {id} h{s}->h{d} sent on a healthy direction was never delivered" }
      | none => res
    else res
  let cov := (if st.bad.isEmpty then [] else ["o:badmsgs"]) ++ (if st.good.isEmpty then [] else ["o:goodmsgs"])
  let res := { res with cov := cov }
  if res.ok then withFlightRule "F-C03-2" lines res
  else if hasCoin lines then { res with pattern := "F-C03-1" } else res

/-! ### C08 -/

structure C08St where
  held : List (Nat × Nat) := []
  known : List (Nat × Nat) := []                 -- held pairs whose in-flight queue is known exactly
  expect : List ((Nat × Nat) × List (Nat × Nat × Nat)) := []   -- pair ↦ ordered (src,dst,id) expected in flight
  lastLinks : List (Nat × Nat × Nat) := []
  linksFresh : Bool := false
  heldMsgs : List Nat := []                      -- ids that must not be received (yet)
  batches : List (List (Nat × Nat × Nat)) := []  -- released together: must arrive in this order per direction
  sentAll : List (Nat × Nat × Nat) := []         -- (id, src, dst) of every accepted send
  recvLog : List (Nat × Nat) := []               -- (receiver, id) in receive order
  leaving : List Nat := []                       -- manually delivered: leave the queue at the next step
  readyN : List ((Nat × Nat) × Nat) := []        -- held pair ↦ how many leading entries of its expected queue were recalled from the ready queues
  res : OResult := {}

def C08St.fail (st : C08St) (ln : Nat) (msg : String) : C08St :=
  if st.res.ok then { st with res := { ok := false, line := ln, detail := msg } } else st

def c08Expect (st : C08St) (k : Nat × Nat) : List (Nat × Nat × Nat) :=
  match st.expect.find? (·.1 == k) with | some p => p.2 | none => []

def c08SetExpect (st : C08St) (k : Nat × Nat) (v : List (Nat × Nat × Nat)) : C08St :=
  { st with expect := (st.expect.filter (·.1 != k)) ++ [(k, v)] }

def c08Step (snaps : List (Nat × List (Nat × Nat × Nat))) (ips : List (Nat × Nat))
    (st : C08St) (x : Nat × List String × List String) : C08St :=
  let (ln, op, obs) := x
  let onPair := fun (k : Nat × Nat) (e : Nat × Nat × Nat) => pairKey e.1 e.2.1 == k
  let ipOf : Nat → Nat := fun h => match ips.find? (·.1 == h) with | some p => p.2 | none => h
  let doHold := fun (st : C08St) (a b : String) (fresh : Bool) =>
    let k := pairKey (hostTok a) (hostTok b)
    if st.held.contains k then st else
    let st := { st with held := st.held ++ [k] }
    if fresh && st.linksFresh then
      let shown := st.lastLinks.filter (onPair k)
      -- in flight is more than the iterator showed before the hold: messages that are ready but not yet handed to
      -- their host (events, not iterator).  `hold` recalls them to the head of the queue — lower destination
      -- address first, each destination's in order — and from then on the iterator shows them too.
      let ev := match snaps.find? (·.1 == ln) with | some p => p.2 | none => []
      let ready := (ev.filter (fun m => pairKey m.2.1 m.2.2 == k && !shown.any (·.2.2 == m.1))).map (fun m => (m.2.1, m.2.2, m.1))
      let lo : Nat := if Nat.ble (ipOf k.1) (ipOf k.2) then k.1 else k.2
      let inflight := ready.filter (·.2.1 == lo) ++ ready.filter (·.2.1 != lo) ++ shown
      -- the recalled part keeps the order of the ready queues, which is maturation order, not send order (a
      -- later message with a shorter latency matures first): the oracle knows it as a set only; its exact
      -- order is pinned by the model (K compares every `links` view)
      let st := { st with readyN := (st.readyN.filter (·.1 != k)) ++ [(k, ready.length)] }
      let st := c08SetExpect st k inflight
      { st with known := st.known ++ [k], heldMsgs := st.heldMsgs ++ inflight.map (·.2.2) }
    else st
  let doRelease := fun (st : C08St) (a b : String) =>
    let k := pairKey (hostTok a) (hostTok b)
    if !st.held.contains k then st else
    let nReady := match st.readyN.find? (·.1 == k) with | some p => p.2 | none => 0
    let all := c08Expect st k
    let st := { st with heldMsgs := st.heldMsgs.filter (fun id => !((all.take nReady).any (·.2.2 == id))),
                        readyN := st.readyN.filter (·.1 != k) }
    let batch := all.drop nReady
    let st := { st with held := st.held.filter (· != k), known := st.known.filter (· != k),
                        heldMsgs := st.heldMsgs.filter (fun id => !(batch.any (·.2.2 == id))) }
    let st := c08SetExpect st k []
    -- ids sent after a host-code hold are in heldMsgs but not in a known queue: free them too
    let st := { st with heldMsgs := st.heldMsgs.filter (fun id =>
      match st.sentAll.find? (·.1 == id) with
      | some (_, s, d) => pairKey s d != k
      | none => true) }
    if batch.isEmpty then st else { st with batches := st.batches ++ [batch] }
  match op with
  | ["ctl", "links"] =>
    let view := parseLinksView obs
    let st := { st with lastLinks := view, linksFresh := true }
    -- the iterator must show exactly the in-flight queue of every held link we know exactly
    st.known.foldl (fun st k =>
      let want := (c08Expect st k).map (·.2.2)
      let got := (view.filter (onPair k)).map (·.2.2)
      let n := match st.readyN.find? (·.1 == k) with | some p => p.2 | none => 0
      let same := (want.take n).mergeSort (· ≤ ·) == (got.take n).mergeSort (· ≤ ·) && want.drop n == got.drop n
      if same then st else st.fail ln s!"links view of held link {k.1}-{k.2} shows {got}, expected {want} (the first {n} in any order)") st
  | ["ctl", "hold", a, b] => doHold st a b true
  | [_, "net_hold", a, b] => doHold st a b false
  | ["ctl", "release", a, b] => doRelease st a b
  | [_, "net_release", a, b] => doRelease st a b
  | ["ctl", "deliverall", a, b] =>
    let k := pairKey (hostTok a) (hostTok b)
    if !st.linksFresh then st else
    let ids := (st.lastLinks.filter (onPair k)).map (·.2.2)
    { st with heldMsgs := st.heldMsgs.filter (fun id => !ids.contains id), leaving := st.leaving ++ ids }
  | ["ctl", "deliver", a, b, i] =>
    let k := pairKey (hostTok a) (hostTok b)
    if !st.linksFresh then st else
    match (st.lastLinks.filter (onPair k))[i.toNat?.getD 0]? with
    | some (_, _, id) =>
      -- scheduled for the next step; until then it is still shown as in flight
      { st with heldMsgs := st.heldMsgs.filter (· != id), leaving := st.leaving ++ [id] }
    | none => st
  | ["ctl", "step"] =>
    { st with leaving := [],
              readyN := st.readyN.map (fun q =>
                let ex := match st.expect.find? (·.1 == q.1) with | some p => p.2 | none => []
                (q.1, q.2 - ((ex.take q.2).filter (fun e => st.leaving.contains e.2.2)).length)),
              expect := st.expect.map (fun p => (p.1, p.2.filter (fun e => !st.leaving.contains e.2.2))) }
  | [h, "udp_send", _, dst, hex] =>
    let st := { st with linksFresh := false }
    if obs.head? != some "ok" then st else
    match addrHost dst, msgId hex with
    | some d, some id =>
      let s := hostTok h
      if s == d then st else
      let st := { st with sentAll := st.sentAll ++ [(id, s, d)] }
      let k := pairKey s d
      if st.held.contains k then
        let st := { st with heldMsgs := st.heldMsgs ++ [id] }
        if st.known.contains k then c08SetExpect st k (c08Expect st k ++ [(s, d, id)]) else st
      else st
    | _, _ => st
  | [h, "udp_tryrecv", _, _] =>
    match obs with
    | ["ok", _, _, hex] =>
      match msgId hex with
      | some id =>
        let st := if st.recvLog.any (·.2 == id) then st.fail ln s!"datagram {id} delivered twice" else st
        let st := if st.heldMsgs.contains id then st.fail ln s!"datagram {id} delivered while its link is held" else st
        { st with recvLog := st.recvLog ++ [(hostTok h, id)] }
      | none => st
    | _ => st
  | _ => st

def isSubseq : List Nat → List Nat → Bool
  | [], _ => true
  | _ :: _, [] => false
  | x :: xs, y :: ys => if x == y then isSubseq xs ys else isSubseq (x :: xs) ys

def oracleC08 (lines : List String) : OResult :=
  let drained := lines.any (· == "OP ctl mark drained")
  let st := (opObsPairs lines).foldl (c08Step (flightSnapshots lines) (hostIps lines)) {}
  let res := st.res
  -- released together ⇒ arrive in send order per direction
  let res := if !res.ok then res else
    match st.batches.find? (fun batch =>
      let dirs := (batch.map (fun e => (e.1, e.2.1))).eraseDups
      dirs.any (fun (s, d) =>
        let want := (batch.filter (fun e => e.1 == s && e.2.1 == d)).map (·.2.2)
        let got := (st.recvLog.filter (fun r => r.1 == d)).map (·.2)
        let got := got.filter (fun id => want.contains id)
        drained && got.length == want.length && !(got == want))) with
    | some batch => { res with ok := false, detail := s!"messages released together did not all arrive in send order: {batch.map (·.2.2)}" }
    | none => res
  -- nothing is lost (no partitions, fail_rate 0 in these families)
  let res := if res.ok && drained && st.held.isEmpty then
      match st.sentAll.find? (fun m => !st.recvLog.any (·.2 == m.1)) with
      | some (id, s, d) => { res with ok := false, detail := s!"datagram {id} h{s}->h{d} was never delivered" }
      | none => res
    else res
  withFlightRule "F-C08-1" lines
    { res with cov := (if st.batches.isEmpty then [] else ["o:batch"]) ++ (if st.known.isEmpty && st.batches.isEmpty then [] else ["o:held"]) }

/-! ### C14 -/

structure C14Msg where
  id : Nat
  s : Nat
  d : Nat
  sendMs : Nat
  minL : Nat
  maxL : Nat
  delay : Option Nat := none     -- ns, from the decision log

structure C14St where
  step : Nat := 0
  tick : Nat := 1
  gmin : Nat := 0
  gmax : Nat := 100
  over : List ((Nat × Nat) × (Nat × Nat)) := []
  offs : List (Nat × Nat) := []          -- host ↦ ms slept inside the current step
  msgs : List C14Msg := []
  recvLog : List (Nat × Nat × Nat) := [] -- (receiver, id, recv ms)
  lastEmpty : List (Nat × Nat) := []     -- receiver ↦ last step in which a `try_recv_from` found its queue empty
  res : OResult := {}

def c14Lat (st : C14St) (a b : Nat) : Nat × Nat :=
  match st.over.find? (·.1 == pairKey a b) with
  | some p => p.2
  | none => (st.gmin, st.gmax)

def c14Step (st : C14St) (x : Nat × List String × List String) : C14St :=
  let (ln, op, obs) := x
  let fail := fun (st : C14St) (msg : String) =>
    if st.res.ok then { st with res := { ok := false, line := ln, detail := msg } } else st
  match op with
  | ["ctl", "step"] => { st with step := st.step + 1, offs := [] }
  | ["ctl", "setlat", a, b, v] =>
    let k := pairKey (hostTok a) (hostTok b)
    let v := v.toNat?.getD 0
    { st with over := (st.over.filter (·.1 != k)) ++ [(k, (v, v))] }
  | ["ctl", "setmaxlat", a, b, v] =>
    let k := pairKey (hostTok a) (hostTok b)
    let cur := c14Lat st k.1 k.2
    { st with over := (st.over.filter (·.1 != k)) ++ [(k, (cur.1, v.toNat?.getD 0))] }
  | ["ctl", "setgmaxlat", v] => { st with gmax := v.toNat?.getD 0 }
  | [h, "sleep", v] =>
    let hh := hostTok h
    let cur := match st.offs.find? (·.1 == hh) with | some p => p.2 | none => 0
    { st with offs := (st.offs.filter (·.1 != hh)) ++ [(hh, cur + v.toNat?.getD 0)] }
  | [h, "udp_send", _, dst, hex] =>
    if obs.head? != some "ok" then st else
    match addrHost dst, msgId hex with
    | some d, some id =>
      let s := hostTok h
      if s == d then st else
      let off := match st.offs.find? (·.1 == s) with | some p => p.2 | none => 0
      let (mn, mx) := c14Lat st s d
      { st with msgs := st.msgs ++ [{ id := id, s := s, d := d, sendMs := st.step * st.tick + off, minL := mn, maxL := mx }] }
    | _, _ => st
  | [h, "udp_tryrecv", _, _] =>
    match obs with
    | ["err", "wouldblock"] =>
      let r := hostTok h
      { st with lastEmpty := (st.lastEmpty.filter (·.1 != r)) ++ [(r, st.step)] }
    | ["ok", _, _, hex] =>
      match msgId hex with
      | some id =>
        let r := hostTok h
        let recvMs := st.step * st.tick
        -- the latest moment the datagram can have reached the socket's queue: messages are handed to a host
        -- at the start of its turn, so a queue seen empty during step j received it in step j+1 or later; a
        -- receiver that did not drain its queue (more arrivals than reads in a step) reads it later than it
        -- arrived, and that lag is the reader's, not the link's
        let arrivedBy := match st.lastEmpty.find? (·.1 == r) with
          | some (_, j) => if j < st.step then some ((j + 1) * st.tick) else some recvMs
          | none => none
        let st := if st.recvLog.any (·.2.1 == id) then fail st s!"datagram {id} delivered twice" else st
        let st := { st with recvLog := st.recvLog ++ [(r, id, recvMs)] }
        match st.msgs.find? (·.id == id) with
        | some m =>
          if m.sendMs + m.minL > recvMs + st.tick then
            fail st s!"datagram {id}: latency {recvMs}-{m.sendMs} ms below min {m.minL} ms - tick {st.tick} ms"
          else match arrivedBy with
            | some a =>
              if a > m.sendMs + m.maxL + st.tick then
                fail st s!"datagram {id}: latency {a}-{m.sendMs} ms above max {m.maxL} ms + tick {st.tick} ms"
              else st
            | none => st
        | none => st
      | none => st
    | _ => st
  | _ => st

/-- attach the logged delay (hook H1) to each send: the `ORA delay` that follows the send's OP line. -/
def sendDelays (lines : List String) : List (Nat × Nat) :=
  let (acc, _) := lines.foldl (fun (st : List (Nat × Nat) × Option Nat) l =>
    let (acc, cur) := st
    match toks l with
    | ["OP", _, "udp_send", _, _, hex] => (acc, msgId hex)
    | ["ORA", "delay", v] => (match cur with | some id => (acc ++ [(id, v.toNat?.getD 0)], none) | none => (acc, none))
    | "OBS" :: _ => (acc, none)
    | _ => (acc, cur)) ([], none)
  acc

def oracleC14 (lines : List String) : OResult :=
  let cfgT := match lines.find? (·.startsWith "CFG ") with | some l => toks l | none => []
  let st0 : C14St := { tick := kvNat cfgT "tick_ms" 1, gmin := kvNat cfgT "minlat_ms" 0, gmax := kvNat cfgT "maxlat_ms" 100 }
  let st := (opObsPairs lines).foldl c14Step st0
  let drained := lines.any (· == "OP ctl mark drained")
  let delays := sendDelays lines
  let res := st.res
  -- sampled delays stay inside the range in force
  let res := if !res.ok then res else
    match st.msgs.find? (fun m => match delays.find? (·.1 == m.id) with
        | some (_, ns) => ns < m.minL * 1000000 || ns > m.maxL * 1000000
        | none => false) with
    | some m => { res with ok := false, detail := s!"datagram {m.id}: sampled delay outside [{m.minL},{m.maxL}] ms" }
    | none => res
  -- equal latency ⇒ FIFO per direction
  let res := if !res.ok then res else
    let bad := st.msgs.find? (fun m2 =>
      st.msgs.any (fun m1 =>
        m1.id < m2.id && m1.s == m2.s && m1.d == m2.d &&
        (match delays.find? (·.1 == m1.id), delays.find? (·.1 == m2.id) with
         | some (_, d1), some (_, d2) => d1 == d2
         | _, _ => false) &&
        (match st.recvLog.findIdx? (·.2.1 == m1.id), st.recvLog.findIdx? (·.2.1 == m2.id) with
         | some i1, some i2 => i2 < i1
         | _, _ => false)))
    match bad with
    | some m2 => { res with ok := false, detail := s!"datagram {m2.id} overtook an earlier datagram with the same latency" }
    | none => res
  let res := if res.ok && drained then
      match st.msgs.find? (fun m => !st.recvLog.any (·.2.1 == m.id)) with
      | some m => { res with ok := false, detail := s!"datagram {m.id} h{m.s}->h{m.d} on a healthy link was never delivered" }
      | none => res
    else res
  { res with cov := (if st.over.isEmpty then [] else ["o:override"]) ++ (if st.msgs.length > 10 then ["o:traffic"] else []) }

/-! ### C15 -/

structure C15Obj where
  host : Nat
  slot : Nat
  kind : String            -- udp | listener | stream | connecting
  port : Nat               -- 0 = not yet known (pending connect)
  eph : Bool

structure C15St where
  lo : Nat := 0
  hi : Nat := 0
  objs : List C15Obj := []
  failedConnect : List Nat := []     -- hosts on which a connect failed or was dropped while pending
  snap : List ((Nat × Nat) × List Nat) := []   -- (host, slot) of a connect ↦ ports live when it started
  res : OResult := {}
  sawWrap : Bool := false
  -- DNS
  nameIp : List (String × Nat) := []

def C15St.fail (st : C15St) (ln : Nat) (msg : String) : C15St :=
  if st.res.ok then { st with res := { ok := false, line := ln, detail := msg } } else st

def c15LivePorts (st : C15St) (h : Nat) : List Nat :=
  (st.objs.filter (fun o => o.host == h && o.port != 0)).map (·.port)

def c15Drop (st : C15St) (h s : Nat) : C15St :=
  let pendingDropped := st.objs.any (fun o => o.host == h && o.slot == s && o.kind == "connecting")
  { st with objs := st.objs.filter (fun o => !(o.host == h && o.slot == s)),
            failedConnect := if pendingDropped then st.failedConnect ++ [h] else st.failedConnect }

def addrPort (t : String) : Nat := match t.splitOn ":" with | [_, p] => p.toNat?.getD 0 | _ => 0

def c15Step (st : C15St) (x : Nat × List String × List String) : C15St :=
  let (ln, op, obs) := x
  let inRange := fun (p : Nat) => st.lo ≤ p && p ≤ st.hi
  let freeInRange := fun (h : Nat) =>
    -- ports of the range not used by any socket we know to be alive (pending connects hold one unknown port each)
    let live := c15LivePorts st h
    let pending := (st.objs.filter (fun o => o.host == h && o.port == 0)).length
    let used := ((List.range (st.hi - st.lo + 1)).filter (fun i => live.contains (st.lo + i))).length
    (st.hi - st.lo + 1) - used - pending
  match op with
  | ["ctl", "dnsbulk", _, n] =>
    (match obs with
     | "ok" :: kv =>
       if kvNat kv "distinct" 0 == n.toNat?.getD 0 then st
       else st.fail ln s!"{n} fresh names were given only {kvNat kv "distinct" 0} distinct addresses"
     | _ => st)
  | [h, kind, s, a] =>
    let hh := hostTok h
    let ss := (s.drop 1).toNat?.getD 0
    if kind == "udp_bind" || kind == "tcp_bind" then
      let k := if kind == "udp_bind" then "udp" else "listener"
      let reqPort := addrPort a
      match obs with
      | ["ok", p] =>
        let p := p.toNat?.getD 0
        let st := if reqPort == 0 then
            let st := if !inRange p then st.fail ln s!"ephemeral port {p} outside the configured range" else st
            if (c15LivePorts st hh).contains p then st.fail ln s!"ephemeral port {p} handed out while in use on h{hh}" else st
          else
            let st := if p != reqPort then st.fail ln s!"bind to {reqPort} returned {p}" else st
            if st.objs.any (fun o => o.host == hh && o.kind == k && o.port == reqPort) then
              st.fail ln s!"bind to port {reqPort} succeeded although a {k} socket already holds it" else st
        { st with objs := st.objs ++ [{ host := hh, slot := ss, kind := k, port := p, eph := reqPort == 0 }] }
      | ["err", "addrinuse"] =>
        if reqPort != 0 && !st.objs.any (fun o => o.host == hh && o.kind == k && o.port == reqPort) then
          st.fail ln s!"bind to free port {reqPort} failed with AddrInUse"
        else if reqPort == 0 then st.fail ln "port 0 bind failed with AddrInUse" else st
      | ["panic"] =>
        if reqPort == 0 && freeInRange hh > 0 then
          st.fail ln s!"ephemeral ports reported exhausted on h{hh} although {freeInRange hh} of the range are free"
        else st
      | _ => st
    else if kind == "tcp_connect" then
      let st := { st with snap := (st.snap.filter (·.1 != (hh, ss))) ++ [((hh, ss), c15LivePorts st hh)] }
      match obs with
      | ["pending"] => { st with objs := st.objs ++ [{ host := hh, slot := ss, kind := "connecting", port := 0, eph := true }] }
      | ["ok", loc, _] =>
        let p := addrPort loc
        let st := if !inRange p then st.fail ln s!"connect got local port {p} outside the range" else st
        let st := if (c15LivePorts st hh).contains p then st.fail ln s!"connect got local port {p} already in use on h{hh}" else st
        { st with objs := st.objs ++ [{ host := hh, slot := ss, kind := "stream", port := p, eph := true }] }
      | ["err", _] => { st with failedConnect := st.failedConnect ++ [hh] }
      | ["panic"] =>
        if freeInRange hh > 0 then
          st.fail ln s!"ephemeral ports reported exhausted on h{hh} although {freeInRange hh} of the range are free"
        else st
      | _ => st
    else if kind == "tcp_accept" then
      match obs with
      | ["ok", loc, _] =>
        let ns := (a.drop 1).toNat?.getD 0
        { st with objs := st.objs ++ [{ host := hh, slot := ns, kind := "stream", port := addrPort loc, eph := false }] }
      | _ => st
    else st
  | [h, "tcp_cpoll", s] =>
    let hh := hostTok h
    let ss := (s.drop 1).toNat?.getD 0
    match obs with
    | ["ok", loc, _] =>
      let p := addrPort loc
      let before := match st.snap.find? (·.1 == (hh, ss)) with | some x => x.2 | none => []
      let st := if !inRange p then st.fail ln s!"connect got local port {p} outside the range" else st
      let st := if before.contains p then st.fail ln s!"connect got local port {p} that was in use on h{hh} when it started" else st
      { st with objs := st.objs.map (fun o => if o.host == hh && o.slot == ss then { o with kind := "stream", port := p } else o) }
    | ["err", "refused"] =>
      { st with objs := st.objs.filter (fun o => !(o.host == hh && o.slot == ss)), failedConnect := st.failedConnect ++ [hh] }
    | _ => st
  | [h, "drop", s] =>
    if obs == ["ok"] then c15Drop st (hostTok h) ((s.drop 1).toNat?.getD 0) else st
  | ["ctl", "crash", h] =>
    let hh := hostTok h
    { st with objs := st.objs.filter (fun o => o.host != hh), failedConnect := st.failedConnect.filter (· != hh),
              snap := st.snap.filter (fun x => x.1.1 != hh) }
  | ["ctl", "bounce", h] =>
    let hh := hostTok h
    { st with objs := st.objs.filter (fun o => o.host != hh), failedConnect := st.failedConnect.filter (· != hh),
              snap := st.snap.filter (fun x => x.1.1 != hh) }
  -- DNS: same name ↦ same address, different names ↦ different addresses, reverse inverts
  | ["ctl", "dns", name] =>
    match obs with
    | ["ok", ip] =>
      let ip := ip.toNat?.getD 0
      match st.nameIp.find? (·.1 == name) with
      | some (_, ip0) => if ip0 == ip then st else st.fail ln s!"name {name} resolved to two different addresses"
      | none =>
        let st := match st.nameIp.find? (·.2 == ip) with
          | some (other, _) => st.fail ln s!"names {other} and {name} share an address"
          | none => st
        { st with nameIp := st.nameIp ++ [(name, ip)] }
    | _ => st
  | ["ctl", "rdns", ip] =>
    match st.nameIp.find? (·.2 == ip.toNat?.getD 0), obs with
    | some (name, _), ["ok", got] => if got == name then st else st.fail ln s!"reverse lookup of {name}'s address returned {got}"
    | some (name, _), ["none"] => st.fail ln s!"reverse lookup of {name}'s address found nothing"
    | _, _ => st
  | ["ctl", "dnsip", ip] =>
    if obs == ["ok", ip] then st else st.fail ln "literal address did not resolve to itself"
  | _ => st

def oracleC15 (lines : List String) : OResult :=
  let cfgT := match lines.find? (·.startsWith "CFG ") with | some l => toks l | none => []
  let st0 : C15St := { lo := kvNat cfgT "ephlo" 0, hi := kvNat cfgT "ephhi" 0 }
  let pairs := opObsPairs lines
  let st := pairs.foldl c15Step st0
  let res := { st.res with cov := (if st.nameIp.length > 20 then ["o:dns"] else []) ++ (if st.objs.length > 2 then ["o:ports"] else []) }
  if res.ok then res
  else if res.detail.startsWith "ephemeral ports reported exhausted" &&
      (pairs.any (fun (_, op, obs) => (op.getD 1 "" == "tcp_connect" || op.getD 1 "" == "tcp_cpoll") && obs.head? == some "err")
       || lines.any (fun l => l.startsWith "OP h" && (toks l).getD 2 "" == "drop")) then
    { res with pattern := "F-C12-1" }
  else res

/-! ### C02 -/

structure C02Dir where
  writer : Nat × Nat            -- (host, slot)
  reader : Nat × Nat
  accepted : String := ""
  readLog : String := ""
  eof : Bool := false
  closedByWriter : Bool := false
  reset : Bool := false
  lastSendStep : Nat := 0          -- step of the writer's last accepted write / close
  lastReadStep : Nat := 0          -- step of the reader's last read with a non-empty buffer
  lastReadPending : Bool := false  -- … and whether it found nothing
  graceful : Bool := false         -- the writer went away after consuming the peer's whole stream incl. its FIN: no reset may follow

structure C02St where
  client : Option (Nat × Nat) := none
  server : Option (Nat × Nat) := none
  dirs : List C02Dir := []
  step : Nat := 0
  held : Bool := false
  partitioned : Bool := false
  lastReleaseStep : Nat := 0
  fins : List (Nat × Nat × Nat) := []   -- (line, source host, destination host) of every delivered FIN
  laterClients : List (Nat × Nat) := []   -- connects after the first one, not yet accepted
  res : OResult := {}

def C02St.fail (st : C02St) (ln : Nat) (msg : String) : C02St :=
  if st.res.ok then { st with res := { ok := false, line := ln, detail := msg } } else st

def c02Init (st : C02St) : C02St :=
  match st.client, st.server with
  | some c, some s => if st.dirs.isEmpty then { st with dirs := [{ writer := c, reader := s }, { writer := s, reader := c }] } else st
  | _, _ => st

def c02Upd (st : C02St) (p : C02Dir → Bool) (f : C02Dir → C02Dir) : C02St :=
  { st with dirs := st.dirs.map (fun d => if p d then f d else d) }

def slotTok (t : String) : Nat := (t.drop 1).toNat?.getD 0

/-- the stream towards `who` is finished and fully consumed: its writer closed it, every accepted byte
    was read, and the FIN had been delivered to `who`'s host before line `ln` (so nothing can be
    "unread data" when `who` drops its read half, and nothing will arrive later). -/
def c02GracefulIn (st : C02St) (ln : Nat) (who : Nat × Nat) : Bool :=
  !st.partitioned && !st.held &&
  st.dirs.any (fun d => d.reader == who && d.closedByWriter && !d.reset && d.readLog == d.accepted && d.writer.1 != who.1 &&
    st.fins.any (fun f => f.1 < ln && f.2.1 == d.writer.1 && f.2.2 == who.1))

def c02Step (st : C02St) (x : Nat × List String × List String) : C02St :=
  let (ln, op, obs) := x
  match op with
  | ["ctl", "step"] => { st with step := st.step + 1 }
  | ["ctl", "hold", _, _] => { st with held := true }
  | [_, "net_hold", _, _] => { st with held := true }
  | ["ctl", "release", _, _] => { st with held := false, lastReleaseStep := st.step }
  | [_, "net_release", _, _] => { st with held := false, lastReleaseStep := st.step }
  | ["ctl", "partition", _, _] => { st with partitioned := true }
  | ["ctl", "partition1", _, _] => { st with partitioned := true }
  | ["ctl", "crash", _] => { st with partitioned := true }
  | [h, "tcp_connect", s, _] =>
    if st.client.isNone then c02Init { st with client := some (hostTok h, slotTok s) }
    else
      -- a later connection of the case (reconnect families): paired with the next successful accept
      { st with laterClients := st.laterClients ++ [(hostTok h, slotTok s)] }
  | [h, "tcp_accept", _, s] =>
    if obs.head? != some "ok" then st
    else if st.server.isNone then c02Init { st with server := some (hostTok h, slotTok s) }
    else match st.laterClients with
      | c :: rest =>
        let sv := (hostTok h, slotTok s)
        { st with laterClients := rest, dirs := st.dirs ++ [{ writer := c, reader := sv }, { writer := sv, reader := c }] }
      | [] => st
  | [h, w, s, hex] =>
    let who := (hostTok h, slotTok s)
    if w == "tcp_write" || w == "tcp_pwrite" then
      match obs with
      | ["ok", n] =>
        let n := n.toNat?.getD 0
        let bytes := if hex == "-" then "" else hex
        c02Upd st (fun d => d.writer == who) (fun d => { d with accepted := d.accepted ++ (String.ofList (bytes.toList.take (2 * n))), lastSendStep := st.step })
      | _ => st
    else if w == "tcp_read" || w == "tcp_peek" then
      let n := hex.toNat?.getD 0
      match st.dirs.find? (fun d => d.reader == who) with
      | none => st
      | some d =>
        match obs with
        | ["ok", got] =>
          let got := if got == "-" then "" else got
          if w == "tcp_peek" then
            if (d.readLog ++ got).length ≤ d.accepted.length && d.accepted.startsWith (d.readLog ++ got) then st
            else st.fail ln s!"peek returned bytes that are not the next bytes of the stream"
          else
            let log := d.readLog ++ got
            let st := if d.accepted.startsWith log then st
              else st.fail ln s!"bytes read are not a prefix of the bytes written (read so far {log.length / 2} bytes)"
            let st := if d.eof && got != "" then st.fail ln "data after end-of-file" else st
            let isEof := got == "" && n > 0
            let st := if isEof && log.length < d.accepted.length && !d.reset then
                st.fail ln s!"end-of-file after {log.length / 2} of {d.accepted.length / 2} accepted bytes" else st
            let lrs := fun (d : C02Dir) => if n > 0 then st.step else d.lastReadStep
            let lrp := fun (d : C02Dir) => if n > 0 then false else d.lastReadPending
            c02Upd st (fun d => d.reader == who) (fun d => { d with readLog := log, eof := d.eof || isEof, lastReadStep := lrs d, lastReadPending := lrp d })
        | ["err", "reset"] =>
          let st := if d.graceful && !st.partitioned then
              st.fail ln "connection reset although the peer had consumed the whole stream, seen its FIN arrive and closed gracefully" else st
          c02Upd st (fun d => d.reader == who) (fun d => { d with reset := true })
        | ["pending"] =>
          if w == "tcp_read" && n > 0 then
            c02Upd st (fun d => d.reader == who) (fun d => { d with lastReadStep := st.step, lastReadPending := true })
          else st
        | _ => st
    else st
  | [h, "tcp_shutdown", s] =>
    if obs == ["ok"] then c02Upd st (fun d => d.writer == (hostTok h, slotTok s)) (fun d => { d with closedByWriter := true, lastSendStep := st.step }) else st
  | [h, "tcp_dropw", s] =>
    if obs == ["ok"] then c02Upd st (fun d => d.writer == (hostTok h, slotTok s)) (fun d => { d with closedByWriter := true, lastSendStep := st.step }) else st
  | [h, "tcp_dropr", s] =>
    let who := (hostTok h, slotTok s)
    let st := if obs == ["ok"] && c02GracefulIn st ln who then c02Upd st (fun d => d.writer == who) (fun d => { d with graceful := true }) else st
    c02Upd st (fun d => d.reader == who) (fun d => { d with reset := true })
  | [h, "drop", s] =>
    let who := (hostTok h, slotTok s)
    if obs == ["ok"] && c02GracefulIn st ln who then
      -- nothing is unread: the drop closes the outgoing direction with a FIN, like a shutdown
      let st := c02Upd st (fun d => d.writer == who) (fun d => { d with graceful := true, closedByWriter := true, lastSendStep := st.step })
      c02Upd st (fun d => d.reader == who) (fun d => { d with reset := true })
    else c02Upd st (fun d => d.reader == who || d.writer == who) (fun d => { d with reset := true })
  | _ => st

def oracleC02 (lines : List String) (modelCov : List String) : OResult :=
  let cfgT := match lines.find? (·.startsWith "CFG ") with | some l => toks l | none => []
  let latSteps := kvNat cfgT "maxlat_ms" 100 / (max 1 (kvNat cfgT "tick_ms" 1)) + 2
  let fins := (lines.zipIdx 1).filterMap (fun (l, i) =>
    match toks l with
    | ["EV", "delivered", src, dst, "fin"] =>
      (match addrHost src, addrHost dst with | some a, some b => some (i, a, b) | _, _ => none)
    | _ => none)
  let st := (opObsPairs lines).foldl c02Step { fins := fins }
  let res := st.res
  -- delivery half: the link stayed healthy, the writer closed gracefully, every latency has
  -- elapsed, and the reader's latest read (non-empty buffer) found nothing although bytes or the
  -- end-of-file are still owed: nothing will ever arrive any more.
  let res := if res.ok && !st.partitioned && !st.held then
      match st.dirs.find? (fun d => d.closedByWriter && !d.reset && d.lastReadPending &&
          d.lastReadStep ≥ (max d.lastSendStep st.lastReleaseStep) + latSteps &&
          (d.readLog != d.accepted || !d.eof)) with
      | some d =>
        let msg := if d.readLog != d.accepted then s!"only {d.readLog.length / 2} of {d.accepted.length / 2} accepted bytes were ever read"
                   else "all bytes were read but end-of-file never arrived"
        { res with ok := false, detail := s!"h{d.writer.1}->h{d.reader.1}: {msg} although the link is healthy and the reader kept reading" }
      | none => res
    else res
  let cov := (if st.dirs.any (fun d => d.accepted.length > 8) then ["o:bytes"] else []) ++ (if st.dirs.any (·.eof) then ["o:eof"] else [])
  let res := { res with cov := cov }
  let res := if !res.ok && modelCov.contains "chanfull" && (res.detail.endsWith "kept reading") then { res with pattern := "F-C02-1" } else res
  -- F-C02-2: a later connection of the case re-used the address pair of an earlier, reset one whose stream
  -- object is still around, and that old object wrote into / closed the new connection
  let reused := st.dirs.length > 2 && (kvGet cfgT "ephlo" == kvGet cfgT "ephhi")
  if !res.ok && res.pattern == "none" && reused &&
     ((res.detail.splitOn "end-of-file after").length > 1 || (res.detail.splitOn "not a prefix").length > 1 ||
      (res.detail.splitOn "data after end-of-file").length > 1) then { res with pattern := "F-C02-2" } else res

/-! ### C12 -/

structure C12Conn where
  host : Nat
  slot : Nat
  dst : String
  loc : Option String := none
  status : String := "pending"      -- pending | ok | refused | gaveup
  matched : Bool := false
  doomed : Bool := false            -- its request was still in flight when the link was partitioned both ways

structure C12St where
  synLocs : List (Nat × String) := []     -- line of a tcp_connect OP ↦ source address of the SYN it sent
  conns : List C12Conn := []
  accepts : List (String × String × Bool) := []     -- (local, peer, matched)
  arrivals : List String := []                      -- SYN source addresses in arrival order at the listener
  synDelivered : List (Nat × String) := []          -- (line, SYN source address) of every delivered SYN
  listeners : List (Nat × Nat × String) := []       -- (host, slot, port) of live listeners
  settled : Bool := false
  -- evidence that the history really healed and drained before `mark settled` (a shrunk history may not)
  maxlat : Nat := 0
  heldPairs : List (Nat × Nat) := []                -- unordered pairs held and not yet released
  cutPairs : List (Nat × Nat) := []                 -- unordered pairs with a partitioned direction, not yet repaired
  quiet : Nat := 0                                  -- steps since the last connect / link / listener operation
  dry : Bool := false                               -- an accept found nothing to accept after `quiet` exceeded the latency
  res : OResult := {}

def C12St.fail (st : C12St) (ln : Nat) (msg : String) : C12St :=
  if st.res.ok then { st with res := { ok := false, line := ln, detail := msg } } else st

def c12SetStatus (st : C12St) (h s : Nat) (f : C12Conn → C12Conn) : C12St :=
  -- the most recent attempt in that slot
  match (st.conns.reverse.findIdx? (fun c => c.host == h && c.slot == s)) with
  | none => st
  | some ri =>
    let i := st.conns.length - 1 - ri
    { st with conns := st.conns.mapIdx (fun j c => if j == i then f c else c) }

def c12Result (st : C12St) (ln : Nat) (h s : Nat) (obs : List String) : C12St :=
  let st := match st.conns.reverse.find? (fun c => c.host == h && c.slot == s) with
    | some c =>
      if c.doomed && c.status == "pending" && (obs == ["pending"] || obs.head? == some "ok") then
        st.fail ln s!"connect from h{h} to {c.dst}: the link was partitioned while its request was in flight, yet it {if obs == ["pending"] then "is still pending" else "succeeded"} instead of being refused"
      else st
    | none => st
  match obs with
  | ["ok", loc, peer] =>
    let st := c12SetStatus st h s (fun c => { c with status := "ok", loc := some loc })
    let dst := match st.conns.reverse.find? (fun c => c.host == h && c.slot == s) with | some c => c.dst | none => ""
    if peer != dst then st.fail ln s!"connect to {dst} reports peer {peer}" else st
  | ["err", "refused"] => c12SetStatus st h s (fun c => { c with status := "refused" })
  | _ => st

/-- The link between hosts `x` and `y` is explicitly partitioned (`both`), or only the direction `x → y`: every
pending connect whose SYN travels in a cut direction and has not been delivered yet is doomed. -/
def c12Cut (st : C12St) (ln x y : Nat) (both : Bool) : C12St :=
  { st with conns := st.conns.map (fun c =>
      match c.loc, addrHost c.dst with
      | some src, some d =>
        if c.status == "pending" && ((c.host == x && d == y) || (both && c.host == y && d == x)) && c.host != d &&
           !st.synDelivered.any (fun p => p.1 < ln && p.2 == src) then { c with doomed := true } else c
      | _, _ => c) }

def upair (a b : Nat) : Nat × Nat := if a ≤ b then (a, b) else (b, a)

/-- bookkeeping for the "nobody hangs" rule: which links are still held / cut, and how long the history has been quiet. -/
def c12Evidence (st : C12St) (op obs : List String) : C12St :=
  let stir := fun (st : C12St) => { st with quiet := 0, dry := false }
  match op with
  | ["ctl", "step"] => { st with quiet := st.quiet + 1 }
  | [_, "tcp_connect", _, _] => stir st
  | [_, "tcp_bind", _, _] => stir st
  | [_, "drop", _] => stir st
  | ["ctl", "crash", _] => stir st
  | ["ctl", "bounce", _] => stir st
  | [_, "tcp_accept", _, _] => if obs == ["pending"] && st.quiet ≥ st.maxlat + 2 then { st with dry := true } else st
  | [_, name, a, b] =>
    let pr := upair (hostTok a) (hostTok b)
    if name == "hold" || name == "net_hold" then stir { st with heldPairs := pr :: st.heldPairs.filter (· != pr) }
    else if name == "release" || name == "net_release" then stir { st with heldPairs := st.heldPairs.filter (· != pr) }
    else if name == "partition" || name == "net_partition" || name == "partition1" || name == "net_partition1" then
      stir { st with cutPairs := pr :: st.cutPairs.filter (· != pr) }
    else if name == "repair" || name == "net_repair" then stir { st with cutPairs := st.cutPairs.filter (· != pr) }
    else if name == "repair1" || name == "net_repair1" then stir st
    else st
  | _ => st

def c12StepCore (st : C12St) (x : Nat × List String × List String) : C12St :=
  let (ln, op, obs) := x
  match op with
  | [h, "tcp_connect", s, dst] =>
    if obs == ["err", "slotbusy"] then st else
    let loc := (st.synLocs.find? (·.1 == ln)).map (·.2)
    let st := { st with conns := st.conns ++ [{ host := hostTok h, slot := slotTok s, dst := dst, loc := loc }] }
    c12Result st ln (hostTok h) (slotTok s) obs
  | [h, "tcp_bind", s, a] =>
    let hh := hostTok h
    match obs with
    | ["ok", p] => { st with listeners := st.listeners ++ [(hh, slotTok s, p)] }
    | ["err", "addrinuse"] =>
      -- a listener bind conflicts with listeners only: a port is free again once its listener is dropped,
      -- whatever streams it accepted are still open
      let port := match a.splitOn ":" with | [_, q] => q | _ => ""
      if port != "0" && !st.listeners.any (fun l => l.1 == hh && l.2.2 == port) then
        st.fail ln s!"listener bind of port {port} on h{hh} refused with AddrInUse although no listener holds it"
      else st
    | _ => st
  | ["ctl", "crash", h] => { st with listeners := st.listeners.filter (·.1 != hostTok h) }
  | ["ctl", "bounce", h] => { st with listeners := st.listeners.filter (·.1 != hostTok h) }
  | [h, "tcp_cpoll", s] => c12Result st ln (hostTok h) (slotTok s) obs
  | [h, "drop", s] =>
    if obs == ["ok"] then
      let st := { st with listeners := st.listeners.filter (fun l => !(l.1 == hostTok h && l.2.1 == slotTok s)) }
      c12SetStatus st (hostTok h) (slotTok s) (fun c => if c.status == "pending" then { c with status := "gaveup" } else c)
    else st
  | [_, "tcp_accept", _, _] =>
    match obs with
    | ["ok", loc, peer] =>
      -- the most recent connector that used this source address
      let st := match st.conns.reverse.find? (fun c => c.loc == some peer) with
        | some c => if c.status == "gaveup" then st.fail ln s!"accept handed out {peer}, a connector that had already given up" else st
        | none => st
      { st with accepts := st.accepts ++ [(loc, peer, false)] }
    | _ => st
  | ["ctl", "partition", a, b] => c12Cut st ln (hostTok a) (hostTok b) true
  | [_, "net_partition", a, b] => if obs == ["ok"] then c12Cut st ln (hostTok a) (hostTok b) true else st
  -- one direction cut: a request travelling in that direction — in flight or ready but not handed over — is lost
  | ["ctl", "partition1", a, b] => c12Cut st ln (hostTok a) (hostTok b) false
  | [_, "net_partition1", a, b] => if obs == ["ok"] then c12Cut st ln (hostTok a) (hostTok b) false else st
  | ["ctl", "mark", "settled"] =>
    -- "nobody hangs" is judged here, before the leftovers are dropped: everything was healed and accepted
    -- it applies only to a history that shows the healing: no link still held or cut, longer quiet than the largest
    -- latency, and either no listener left or an accept that found nothing more to accept
    let healed := st.heldPairs.isEmpty && st.cutPairs.isEmpty && st.quiet ≥ st.maxlat + 3 &&
                  (st.dry || !st.listeners.any (fun l => l.1 == 0))
    let st := if !healed then st else match st.conns.find? (fun c => c.status == "pending") with
      | some c => st.fail ln s!"connect from h{c.host} to {c.dst} neither completed nor was refused after every link was healed and every request accepted"
      | none => st
    { st with settled := true }
  | [h, "count"] =>
    if st.settled then
      match obs with
      | "ok" :: kv => if kvGet kv "streams" == some "0" then st
                      else st.fail ln s!"h{hostTok h} still counts established streams after every stream was dropped: {kv}"
      | _ => st
    else st
  | _ => st

def c12Step (st : C12St) (x : Nat × List String × List String) : C12St :=
  let st := c12StepCore st x
  -- the `ctl` token of controller operations is the host position of host operations: strip it for link ops
  let op := match x.2.1 with | "ctl" :: name :: a :: b :: [] => ["ctl", name, a, b] | o => o
  c12Evidence st op x.2.2

def portOf (a : String) : String := match a.splitOn ":" with | [_, p] => p | _ => ""

def oracleC12 (lines : List String) : OResult :=
  let pairs := opObsPairs lines
  -- source address of each connect's SYN, from the `Send` trace event that follows the OP line
  let (synLocs, _, _) := lines.foldl (fun (acc : List (Nat × String) × Option Nat × Nat) l =>
    let (out, cur, ln) := acc
    match toks l with
    | ["OP", _, "tcp_connect", _, _] => (out, some ln, ln + 1)
    | ["EV", "send", src, _, "syn"] => (match cur with | some n => ((n, src) :: out, none, ln + 1) | none => (out, none, ln + 1))
    | "OBS" :: _ => (out, none, ln + 1)
    | _ => (out, cur, ln + 1)) ([], none, 1)
  let synDelivered := (lines.zipIdx 1).filterMap (fun (l, i) => match toks l with
    | ["EV", "delivered", src, _, "syn"] => some (i, src)
    | _ => none)
  let cfgT := match lines.find? (·.startsWith "CFG ") with | some l => toks l | none => []
  let st := pairs.foldl c12Step { synLocs := synLocs, synDelivered := synDelivered, maxlat := kvNat cfgT "maxlat_ms" 0 }
  let res := st.res
  -- (1) every successful connect is matched by exactly one accept with mirrored addresses
  let (res, accepts) := st.conns.foldl (fun (acc : OResult × List (String × String × Bool)) c =>
    let (res, accepts) := acc
    if c.status != "ok" then (res, accepts) else
    let loc := c.loc.getD ""
    match accepts.findIdx? (fun a => !a.2.2 && a.2.1 == loc && portOf a.1 == portOf c.dst) with
    | some i => (res, accepts.mapIdx (fun j a => if j == i then (a.1, a.2.1, true) else a))
    | none => (if res.ok then { res with ok := false, detail := s!"connect {loc} -> {c.dst} succeeded but no accept returned a stream with that peer" } else res, accepts))
    (res, st.accepts)
  -- an accepted stream whose peer matches no connector that could have produced it twice
  let res := if !res.ok then res else
    match accepts.find? (fun a => !a.2.2 && st.conns.all (fun c => c.loc != some a.2.1) &&
        st.conns.all (fun c => c.status == "ok" || c.status == "refused")) with
    | some a => { res with ok := false, detail := s!"accept returned a stream for peer {a.2.1} that belongs to no connector" }
    | none => res
  -- (2) accepted in arrival order
  let arrivals := lines.filterMap (fun l => match toks l with
    | ["EV", "delivered", src, dst, "syn"] => if portOf dst == "80" then some src else none
    | _ => none)
  let accPeers := st.accepts.map (·.2.1)
  let res := if res.ok && !isSubseqS accPeers arrivals then
      { res with ok := false, detail := s!"accept order {accPeers} is not the arrival order {arrivals}" } else res
  -- (3) nobody hangs: after everything was healed and accepted, no connect is still pending
  let res := if res.ok && st.settled then
      match st.conns.find? (fun c => c.status == "pending") with
      | some c => { res with ok := false, detail := s!"connect from h{c.host} to {c.dst} neither completed nor was refused" }
      | none => res
    else res
  -- (4) connects to a port nobody listens on / an unowned address never succeed
  let res := if !res.ok then res else
    match st.conns.find? (fun c => c.status == "ok" && (portOf c.dst != "80" || c.dst.startsWith "x")) with
    | some c => { res with ok := false, detail := s!"connect to {c.dst} succeeded although nothing listens there" }
    | none => res
  { res with cov := (if st.accepts.length ≥ 2 then ["o:accepts"] else []) ++
                    (if st.conns.any (·.status == "refused") then ["o:refused"] else []) ++
                    (if st.conns.any (·.status == "gaveup") then ["o:gaveup"] else []) }
where
  isSubseqS : List String → List String → Bool
    | [], _ => true
    | _ :: _, [] => false
    | x :: xs, y :: ys => if x == y then isSubseqS xs ys else isSubseqS (x :: xs) ys

/-! ### C09 -/

structure C09Sock where
  host : Nat
  slot : Nat
  bindIp : String            -- "any" | "lo"
  port : Nat
  connected : Option String := none
  bcast : Bool := false
  mloop : Bool := true
  sinceStep : Nat := 0
  connStep : Nat := 0        -- step of the last connect() on it
  disturbed : Bool := false  -- connected / dropped / re-bound during its life: excluded from completeness

structure C09Send where
  id : Nat
  srcHost : Nat
  origin : String
  dst : String
  payload : String
  bcastOn : Bool
  mloop : Bool
  members : List (Nat × Nat)     -- (host, port) members of the group at send time
  step : Nat

structure C09St where
  socks : List C09Sock := []
  groups : List ((String × Nat) × List (Nat × Nat)) := []   -- (group ip token, port) ↦ member (host, port)
  sends : List C09Send := []
  got : List (Nat × Nat × Nat) := []    -- (host, slot, id)
  everDropped : List (Nat × Nat) := []  -- (host, port) sockets that were dropped at some point
  blindReads : List (Nat × Nat) := []   -- sockets that consumed a datagram with a buffer too small to show its id
  emptySent : List (Nat × Nat) := []     -- (destination host, step) empty datagrams accepted for the probe port 9009
  emptyGot : List Nat := []              -- hosts whose probe socket received an empty datagram (one entry each)
  step : Nat := 0
  res : OResult := {}

def C09St.fail (st : C09St) (ln : Nat) (msg : String) : C09St :=
  if st.res.ok then { st with res := { ok := false, line := ln, detail := msg } } else st

def c09Sock (st : C09St) (h s : Nat) : Option C09Sock := st.socks.find? (fun k => k.host == h && k.slot == s)

def c09UpdSock (st : C09St) (h s : Nat) (f : C09Sock → C09Sock) : C09St :=
  { st with socks := st.socks.map (fun k => if k.host == h && k.slot == s then f k else k) }

def ipOf (a : String) : String := match a.splitOn ":" with | [ip, _] => ip | _ => ""

/-- does socket `k` qualify as a target of send `σ`? -/
def c09Targets (σ : C09Send) (k : C09Sock) : Bool :=
  let dip := ipOf σ.dst
  let dport := (portOf σ.dst).toNat?.getD 0
  -- the peer filter is applied on arrival: a connect() made after the send may not have been in force
  let filt := match k.connected with | some t => t == σ.origin || k.connStep ≥ σ.step | none => true
  filt && k.port == dport &&
  (if dip == "lo" then k.host == σ.srcHost
   else if dip == "bc" then σ.bcastOn && k.bindIp == "any"
   else if dip.startsWith "mc" then
     k.bindIp == "any" && σ.members.contains (k.host, dport) && (k.host != σ.srcHost || σ.mloop)
   else if dip.startsWith "h" then k.host == hostTok dip && k.bindIp == "any"
   else false)

def c09Recv (lat cap : Nat) (st : C09St) (ln : Nat) (h s buflen : Nat) (obs : List String) : C09St :=
  match obs with
  | ["ok", n, origin, hex] =>
    let got := if hex == "-" then "" else hex
    let n := n.toNat?.getD 0
    match c09Sock st h s with
    | none => st
    | some k =>
      -- the id is only visible with a buffer of ≥ 2 bytes
      if buflen < 2 then { st with blindReads := st.blindReads ++ [(h, s)] } else
      if got == "" && n == 0 && k.port == 9009 then
        -- an empty datagram on the probe port: at most as many as were sent there
        if (st.emptyGot.filter (· == h)).length < (st.emptySent.filter (·.1 == h)).length then { st with emptyGot := st.emptyGot ++ [h] }
        else st.fail ln "received an empty datagram that was never sent"
      else
      match msgId got with
      | none => st.fail ln "received a datagram that was never sent (no id)"
      | some id =>
        match st.sends.find? (·.id == id) with
        | none => st.fail ln s!"received datagram {id} that was never sent"
        | some σ =>
          let want := String.ofList (σ.payload.toList.take (2 * buflen))
          let st := if got != want || n != want.length / 2 then st.fail ln s!"datagram {id}: payload altered or wrongly cut (got {got}, sent {σ.payload}, buffer {buflen})" else st
          let st := if origin != σ.origin then st.fail ln s!"datagram {id}: reported source {origin}, sent from {σ.origin}" else st
          let st := if !c09Targets σ k then st.fail ln s!"datagram {id} sent to {σ.dst} was delivered to h{h} port {k.port} (bind {k.bindIp}) which it does not target" else st
          let st := if st.got.contains (h, s, id) then st.fail ln s!"datagram {id} delivered twice to the same socket" else st
          { st with got := st.got ++ [(h, s, id)] }
  | ["err", "wouldblock"] =>
    (match c09Sock st h s with
     | some k =>
       -- the probe socket's queue is empty: every empty datagram sent to it long enough ago must have arrived
       -- (three probe datagrams: only when the queue certainly had room for all of them)
       if k.port == 9009 && cap ≥ 3 then
         let due := (st.emptySent.filter (fun e => e.1 == h && e.2 + lat + 1 ≤ st.step)).length
         if (st.emptyGot.filter (· == h)).length < due then
           st.fail ln s!"a zero-length datagram sent to h{h}:9009 was never delivered"
         else st
       else st
     | none => st)
  | _ => st

def c09Step (lat cap : Nat) (st : C09St) (x : Nat × List String × List String) : C09St :=
  let (ln, op, obs) := x
  match op with
  | ["ctl", "step"] => { st with step := st.step + 1 }
  | [h, "udp_bind", s, a] =>
    match obs with
    | ["ok", p] =>
      let hh := hostTok h
      let port := p.toNat?.getD 0
      let again := st.everDropped.contains (hh, port)
      { st with socks := st.socks ++ [{ host := hh, slot := slotTok s, bindIp := ipOf a, port := port, sinceStep := st.step, disturbed := again }] }
    | _ => st
  | [h, "drop", s] =>
    if obs != ["ok"] then st else
    match c09Sock st (hostTok h) (slotTok s) with
    | none => st
    | some k =>
      { st with socks := st.socks.filter (fun x => !(x.host == k.host && x.slot == k.slot)),
                everDropped := st.everDropped ++ [(k.host, k.port)],
                groups := st.groups.map (fun g => (g.1, g.2.filter (fun m => m != (k.host, k.port)))) }
  | [h, "udp_connect", s, a] => if obs == ["ok"] then c09UpdSock st (hostTok h) (slotTok s) (fun k => { k with connected := some a, disturbed := true, connStep := st.step }) else st
  | [h, "udp_bcast", s, on] => if obs == ["ok"] then c09UpdSock st (hostTok h) (slotTok s) (fun k => { k with bcast := on == "1" }) else st
  | [h, "udp_mloop", s, on] => if obs == ["ok"] then c09UpdSock st (hostTok h) (slotTok s) (fun k => { k with mloop := on == "1" }) else st
  | [h, "udp_join", s, g, _] =>
    if obs != ["ok"] then st else
    match c09Sock st (hostTok h) (slotTok s) with
    | none => st
    | some k =>
      let key := (g, k.port)
      let cur := match st.groups.find? (·.1 == key) with | some p => p.2 | none => []
      let cur := if cur.contains (k.host, k.port) then cur else cur ++ [(k.host, k.port)]
      { st with groups := (st.groups.filter (·.1 != key)) ++ [(key, cur)] }
  | [h, "udp_leave", s, g, _] =>
    match c09Sock st (hostTok h) (slotTok s) with
    | none => st
    | some k =>
      let key := (g, k.port)
      let cur := match st.groups.find? (·.1 == key) with | some p => p.2 | none => []
      let isMember := cur.contains (k.host, k.port)
      if obs == ["ok"] then
        let st := if !isMember then st.fail ln "leave succeeded for a group that was never joined" else st
        { st with groups := st.groups.map (fun p => if p.1 == key then (p.1, p.2.filter (· != (k.host, k.port))) else p) }
      else if obs == ["err", "addrnotavailable"] && isMember then st.fail ln "leave of a joined group failed"
      else st
  | [h, "udp_send", s, dst, hex] =>
    let hh := hostTok h
    match c09Sock st hh (slotTok s), obs with
    | some k, ["ok", _] =>
      let dip := ipOf dst
      let origin := if dip == "lo" then s!"lo:{k.port}" else if k.bindIp == "any" then s!"h{hh}:{k.port}" else s!"{k.bindIp}:{k.port}"
      let dport := (portOf dst).toNat?.getD 0
      let members := match st.groups.find? (·.1 == (dip, dport)) with | some p => p.2 | none => []
      -- multicast loop is a property of the sender host's socket bound to the destination port
      let loopSock := st.socks.find? (fun x => x.host == hh && x.port == dport)
      let mloop := match loopSock with | some x => x.mloop | none => true
      match msgId (if hex == "-" then "" else hex) with
      | some id => { st with sends := st.sends ++ [{ id := id, srcHost := hh, origin := origin, dst := dst, payload := hex,
                                                       bcastOn := k.bcast, mloop := mloop, members := members, step := st.step }] }
      | none =>
        -- an empty datagram for the probe port: to another host's address, or to this host over loopback
        if hex == "-" && dport == 9009 then
          let d := if dip == "lo" then some hh else addrHost dst
          match d with | some x => { st with emptySent := st.emptySent ++ [(x, st.step)] } | none => st
        else st
    | some k, ["err", "permissiondenied"] =>
      if ipOf dst == "bc" && k.bcast then st.fail ln "broadcast send refused although SO_BROADCAST is enabled" else st
    | _, _ => st
  | [h, "udp_tryrecv", s, n] => c09Recv lat cap st ln (hostTok h) (slotTok s) (n.toNat?.getD 0) obs
  | [h, "udp_recv", s, n] => c09Recv lat cap st ln (hostTok h) (slotTok s) (n.toNat?.getD 0) obs
  | _ => st

def oracleC09 (lines : List String) : OResult :=
  let cfgT := match lines.find? (·.startsWith "CFG ") with | some l => toks l | none => []
  let cap := kvNat cfgT "udpcap" 64
  let lat := kvNat cfgT "maxlat_ms" 2 / (max 1 (kvNat cfgT "tick_ms" 1)) + 2
  let st := (opObsPairs lines).foldl (c09Step lat cap) {}
  let drained := lines.any (· == "OP ctl mark drained")
  let res := st.res
  -- exactly once on a healthy link within capacity: plain unicast to a socket that existed before the
  -- send, was never connected / dropped / re-bound, with a queue that cannot have overflowed
  let res := if res.ok && drained && cap ≥ 64 && st.sends.length < 60 then
      match st.sends.find? (fun σ =>
        ((ipOf σ.dst).startsWith "h" || (ipOf σ.dst == "bc" && σ.bcastOn) || (ipOf σ.dst).startsWith "mc") &&
        st.socks.any (fun k => !k.disturbed && k.sinceStep < σ.step && !st.blindReads.contains (k.host, k.slot) &&
          c09Targets σ k && !st.got.contains (k.host, k.slot, σ.id))) with
      | some σ => { res with ok := false, detail := s!"datagram {σ.id} to {σ.dst} was never delivered although the link is healthy and the queue had room" }
      | none => res
    else res
  { res with cov := (if st.sends.any (fun σ => (ipOf σ.dst).startsWith "mc") then ["o:mcast"] else []) ++
                    (if st.sends.any (fun σ => ipOf σ.dst == "bc") then ["o:bcast"] else []) ++
                    (if st.got.length > 5 then ["o:recv"] else []) }

/-! ### C05 -/

structure C05Host where
  reg : Nat                    -- steps completed when the host was registered
  last : Nat := 0              -- last elapsed() seen (monotonicity)
  sleepFrom : Option (Nat × Nat) := none   -- (elapsed before the sleep, ms) of the sleep in progress
  armed : Option (Nat × Nat) := none       -- set when the sleep returned: next clock must show from + ms

structure C05St where
  tick : Nat := 1000000
  done : Nat := 0              -- completed steps
  hosts : List C05Host := []
  lastClock : List (Nat × Nat) := []   -- host ↦ elapsed of its latest clock op
  res : OResult := {}

def C05St.fail (st : C05St) (ln : Nat) (msg : String) : C05St :=
  if st.res.ok then { st with res := { ok := false, line := ln, detail := msg } } else st

def c05Upd (st : C05St) (h : Nat) (f : C05Host → C05Host) : C05St :=
  { st with hosts := st.hosts.mapIdx (fun i x => if i == h then f x else x) }

def c05Step (st : C05St) (x : Nat × List String × List String) : C05St :=
  let (ln, op, obs) := x
  match op with
  | "ctl" :: "reg" :: _ => { st with hosts := st.hosts ++ [{ reg := st.done }] }
  | ["ctl", "reglate"] => if obs.head? == some "ok" then { st with hosts := st.hosts ++ [{ reg := st.done }] } else st
  | ["ctl", "step"] => { st with done := st.done + 1 }      -- emitted when the step starts
  | ["ctl", "crash", h] => c05Upd st (hostTok h) (fun x => { x with sleepFrom := none, armed := none })
  | ["ctl", "bounce", h] => c05Upd st (hostTok h) (fun x => { x with sleepFrom := none, armed := none })
  | ["ctl", "simclock"] =>
    match obs with
    | "ok" :: kv =>
      let e := kvNat kv "elapsed" 0
      let ep := kvNat kv "epoch" 0
      let st := if e != st.done * st.tick then st.fail ln s!"Sim::elapsed = {e} ns after {st.done} steps of {st.tick} ns" else st
      if ep != 1700000000123456789 + e then st.fail ln "Sim::since_epoch is not epoch + elapsed" else st
    | _ => st
  | [h, "sleep", ms] =>
    let hh := hostTok h
    -- the OP line is logged when the sleep starts, its OBS when it returns
    match st.hosts[hh]? with
    | none => st
    | some hs =>
      match (st.lastClock.find? (·.1 == hh)) with
      | some (_, e0) => c05Upd st hh (fun x => { x with armed := some (e0, ms.toNat?.getD 0), sleepFrom := none }) |> fun st' => let _ := hs; st'
      | none => st
  | [h, "clock"] =>
    let hh := hostTok h
    match obs, st.hosts[hh]? with
    | "ok" :: kv, some hs =>
      let e := kvNat kv "elapsed" 0
      let sim := kvNat kv "sim" 0
      let ep := kvNat kv "epoch" 0
      -- this op runs inside step number `done` (counted when it started): done-1 steps are complete
      let k := st.done - 1 - hs.reg
      let st := if e < k * st.tick || e > (k + 1) * st.tick then
          st.fail ln s!"h{hh}: elapsed() = {e} ns outside the window [{k * st.tick}, {(k + 1) * st.tick}] of the step it runs in" else st
      let st := if sim != hs.reg * st.tick + e then st.fail ln s!"h{hh}: sim_elapsed() {sim} is not registration time {hs.reg * st.tick} + elapsed() {e}" else st
      let st := if ep != 1700000000123456789 + sim then st.fail ln s!"h{hh}: since_epoch() is not epoch + sim_elapsed()" else st
      let st := if e < hs.last then st.fail ln s!"h{hh}: elapsed() went backwards" else st
      let st := match hs.armed with
        | some (e0, ms) =>
          if e != e0 + ms * 1000000 then st.fail ln s!"h{hh}: sleep({ms} ms) started at elapsed {e0} ns returned at {e} ns" else st
        | none => st
      let st := c05Upd st hh (fun x => { x with last := e, armed := none })
      { st with lastClock := (st.lastClock.filter (·.1 != hh)) ++ [(hh, e)] }
    | _, _ => st
  | _ => st

def oracleC05 (lines : List String) : OResult :=
  let cfgT := match lines.find? (·.startsWith "CFG ") with | some l => toks l | none => []
  let tick := if kvNat cfgT "tick_us" 0 > 0 then kvNat cfgT "tick_us" 0 * 1000 else kvNat cfgT "tick_ms" 1 * 1000000
  let st := (opObsPairs lines).foldl c05Step { tick := tick }
  -- destructors run by crash / bounce (between steps) read `sim_elapsed`: it must be the step boundary, however
  -- much real time the controller let pass (`stall`)
  let (_, _, gd, gbad) := lines.foldl (fun (acc : Nat × Nat × Nat × Option (Nat × String)) l =>
    let (ln, done, gd, bad) := acc
    match toks l with
    | ["OP", "ctl", "step"] => (ln + 1, done + 1, gd, bad)
    | ["EV", "guarddrop", h, tv] =>
      (match (tv.drop 2).toString.toNat? with
       | some ns => if ns == done * tick || bad.isSome then (ln + 1, done, gd + 1, bad) else
           (ln + 1, done, gd + 1, some (ln, s!"a destructor of h{h} run by crash / bounce read sim_elapsed = {ns} ns at virtual time {done * tick} ns"))
       | none => (ln + 1, done, gd, bad))      -- `t=-`: dropped together with the Sim, outside any simulation
    | _ => (ln + 1, done, gd, bad)) (1, 0, 0, none)
  let stalled := lines.any (fun l => l.startsWith "OP ctl stall")
  let res0 := match gbad with
    | some (ln, msg) => if st.res.ok then { st.res with ok := false, line := ln, detail := msg } else st.res
    | none => st.res
  let res := { res0 with cov := (if st.done > 5 then ["o:steps"] else []) ++ (if tick % 1000000 != 0 then ["o:subms"] else []) ++
                                (if gd > 0 then ["o:guarddrop"] else []) ++ (if gd > 0 && stalled then ["o:stalled-teardown"] else []) }
  if !res.ok && tick % 1000000 != 0 then { res with pattern := "F-C05-1" } else res

/-! ### C04 -/

structure C04St where
  step : Nat := 0
  lat : Nat := 3
  down : List Nat := []
  crashStep : List (Nat × Nat) := []         -- host ↦ step of its latest crash
  tickers : List (Nat × Nat) := []           -- host ↦ live background tasks with a drop guard
  inCrash : List Nat := []                   -- hosts being torn down between `OP ctl crash` / `bounce` (or `…_set`) and its OBS
  guardDrops : Nat := 0
  starts : List (Nat × Nat) := []            -- host ↦ `EV start` seen in the current incarnation
  stepsSince : List (Nat × Nat) := []        -- host ↦ steps since its incarnation began
  curOp : List String := []
  estab : List (Nat × Nat × Nat) := []       -- (peer host, peer slot, victim host) streams established
  queuedSyn : List (String × Nat) := []      -- (connector source address, victim host): SYN delivered, not accepted
  connLoc : List ((Nat × Nat) × String) := []  -- (host, slot) ↦ source address of its SYN
  lateIds : List (Nat × Nat) := []           -- (victim host, datagram id) that reached the victim while it was down
  pendingLate : List (Nat × Nat × Nat) := [] -- (victim, id, step at which it matures) sent while the victim was down
  lateConn : List (String × Nat) := []       -- (SYN source, victim) that reached the victim while it was down
  pendingConn : List (String × Nat × Nat) := []
  tick : Nat := 1000000
  lastSend : Option (Nat × Nat) := none      -- (victim, id) of the datagram just sent, waiting for its sampled delay
  lastSyn : Option (String × Nat) := none
  peerReads : List ((Nat × Nat) × (Nat × Bool)) := []  -- (peer,slot) ↦ reads after the deadline: (count, any terminal)
  peerWrites : List ((Nat × Nat) × (Nat × Bool)) := [] -- (peer,slot) ↦ writes after the deadline: (count, any not blocked)
  afterBounce : List Nat := []               -- hosts bounced after a crash (new incarnation)
  members : List (Nat × String × Nat) := []  -- (host, group ip token, step of the join): multicast memberships
  mcSends : List (Nat × String × Nat) := []  -- (datagram id, group ip token, step) accepted sends to a group
  mcSnap : List (Nat × List Nat) := []       -- datagram id ↦ hosts that were members of its group when it was sent
  mcRecvd : List (Nat × Nat) := []           -- (host, datagram id) received
  res : OResult := {}

def C04St.fail (st : C04St) (ln : Nat) (msg : String) : C04St :=
  if st.res.ok then { st with res := { ok := false, line := ln, detail := msg } } else st

def assocGet (l : List (Nat × Nat)) (k : Nat) : Nat := match l.find? (·.1 == k) with | some p => p.2 | none => 0
def assocSet (l : List (Nat × Nat)) (k v : Nat) : List (Nat × Nat) := (l.filter (·.1 != k)) ++ [(k, v)]

/-- bookkeeping of one host's bounce (what had matured by now reached the host while it was down). -/
def c04Bounced (st : C04St) (x : Nat) : C04St :=
  let wasDown := st.down.contains x
  let late := (st.pendingLate.filter (fun q => q.1 == x && q.2.2 ≤ st.step)).map (fun q => (q.1, q.2.1))
  let lateC := (st.pendingConn.filter (fun q => q.2.1 == x && q.2.2 ≤ st.step)).map (fun q => (q.1, q.2.1))
  { st with down := st.down.filter (· != x), inCrash := [], curOp := [], tickers := assocSet st.tickers x 0,
            members := st.members.filter (·.1 != x),
            starts := assocSet st.starts x 0, stepsSince := assocSet st.stepsSince x 0,
            lateIds := st.lateIds ++ late, lateConn := st.lateConn ++ lateC,
            pendingLate := st.pendingLate.filter (·.1 != x), pendingConn := st.pendingConn.filter (·.2.1 != x),
            afterBounce := if wasDown then st.afterBounce ++ [x] else st.afterBounce }

def c04Line (st : C04St) (ln : Nat) (l : String) : C04St :=
  let t := toks l
  match t with
  | ["OP", "ctl", "step"] =>
    { st with step := st.step + 1, curOp := t, stepsSince := st.stepsSince.map (fun p => (p.1, p.2 + 1)) }
  | ["OP", "ctl", "crash", h] =>
    let x := hostTok h
    { st with curOp := t, inCrash := [x], guardDrops := 0 }
  | ["OP", "ctl", "bounce", h] =>
    let x := hostTok h
    -- exactly one start per finished incarnation that ran at least one step
    let st := if assocGet st.stepsSince x ≥ 1 && !st.down.contains x && assocGet st.starts x != 1 then
        st.fail ln s!"h{x}: software was started {assocGet st.starts x} times in one incarnation" else st
    { st with curOp := t, inCrash := [x], guardDrops := 0 }
  | ["OP", "ctl", "crash_set", hs] =>
    { st with curOp := t, inCrash := (hs.splitOn ",").map hostTok, guardDrops := 0 }
  | ["OP", "ctl", "bounce_set", hs] =>
    let xs := (hs.splitOn ",").map hostTok
    -- exactly one start per finished incarnation that ran at least one step
    let st := xs.foldl (fun st x =>
      if assocGet st.stepsSince x ≥ 1 && !st.down.contains x && assocGet st.starts x != 1 then
        st.fail ln s!"h{x}: software was started {assocGet st.starts x} times in one incarnation" else st) st
    { st with curOp := t, inCrash := xs, guardDrops := 0 }
  | "OP" :: "ctl" :: _ => { st with curOp := t }
  | "OP" :: h :: rest =>
    let x := hostTok h
    let st := if st.down.contains x then st.fail ln s!"code of crashed host h{x} ran: {rest}" else st
    let st := match rest with
      | ["spawn_ticker"] => { st with tickers := assocSet st.tickers x (assocGet st.tickers x + 1) }
      | ["spawn_rt_ticker"] => { st with tickers := assocSet st.tickers x (assocGet st.tickers x + 1) }
      | ["udp_send", _, dst, hex] =>
        (match addrHost dst, msgId hex with
         | some d, some id => if st.down.contains d then { st with lastSend := some (d, id) } else st
         | _, _ => st)
      | _ => st
    { st with curOp := t }
  | ["EV", "ticker", h] =>
    let x := h.toNat?.getD 0
    if st.down.contains x then st.fail ln s!"a background task of crashed host h{x} ran" else st
  | "EV" :: "guarddrop" :: _ :: rest =>
    -- the destructor's clock reading (`t=<ns>` of `sim_elapsed`): crash and bounce run destructors between steps,
    -- where the virtual time is the step boundary — hosts of this family are registered at time 0
    let st := match rest with
      | [tv] =>
        (match (tv.drop 2).toString.toNat? with
         | some ns => if ns == st.step * st.tick then st else
             { (st.fail ln s!"a destructor run by crash / bounce read sim_elapsed = {ns} ns at virtual time {st.step * st.tick} ns") with
               res := { (st.fail ln s!"a destructor run by crash / bounce read sim_elapsed = {ns} ns at virtual time {st.step * st.tick} ns").res with pattern := "F-C05-2" } }
         | none => st)
      | _ => st
    { st with guardDrops := st.guardDrops + 1 }
  | ["EV", "start", h] =>
    let x := h.toNat?.getD 0
    let st := if st.down.contains x then st.fail ln s!"software of crashed host h{x} was started" else st
    { st with starts := assocSet st.starts x (assocGet st.starts x + 1) }
  | ["EV", "send", src, dst, proto] =>
    let st := match addrHost src with
      | some x => if st.down.contains x && !st.inCrash.contains x then st.fail ln s!"crashed host h{x} sent {proto} to {dst}" else st
      | none => st
    -- remember the source address of a connect's SYN
    match st.curOp, proto with
    | ["OP", h, "tcp_connect", s, d], "syn" =>
      let st := { st with connLoc := st.connLoc ++ [((hostTok h, slotTok s), src)] }
      (match addrHost d with
       | some x => if st.down.contains x then { st with lastSyn := some (src, x) } else st
       | none => st)
    | _, _ => st
  | ["ORA", "delay", v] =>
    -- the message matures at the first step whose topology clock has passed send-time + delay
    let d := v.toNat?.getD 0
    let m := st.step + (d + st.tick - 1) / st.tick
    let st := match st.lastSend with
      | some (x, id) => { st with pendingLate := st.pendingLate ++ [(x, id, m)], lastSend := none }
      | none => st
    match st.lastSyn with
    | some (src, x) => { st with pendingConn := st.pendingConn ++ [(src, x, m)], lastSyn := none }
    | none => st
  | ["EV", "delivered", src, dst, "syn"] =>
    match addrHost dst with
    | some x => { st with queuedSyn := st.queuedSyn ++ [(src, x)] }
    | none => st
  | "OBS" :: "step" :: _ => { st with curOp := [] }
  | "OBS" :: obs =>
    match st.curOp with
    | ["OP", "ctl", "crash", h] =>
      let x := hostTok h
      let wasUp := !st.down.contains x
      let st := if wasUp && st.guardDrops != assocGet st.tickers x then
          st.fail ln s!"crash of h{x} dropped {st.guardDrops} of its {assocGet st.tickers x} background tasks" else st
      let st := if wasUp && assocGet st.stepsSince x ≥ 1 && assocGet st.starts x != 1 then
          st.fail ln s!"h{x}: software was started {assocGet st.starts x} times in one incarnation" else st
      { st with down := if wasUp then st.down ++ [x] else st.down, inCrash := [], curOp := [],
                members := st.members.filter (·.1 != x),
                tickers := assocSet st.tickers x 0,
                crashStep := if wasUp then assocSet st.crashStep x st.step else st.crashStep }
    | ["OP", "ctl", "crash_set", hs] =>
      -- `Sim::crash(<several hosts>)`: every selected host that was up is down afterwards, whatever the
      -- state of the hosts selected before it
      let xs := (hs.splitOn ",").map hostTok
      let up := xs.filter (fun x => !st.down.contains x)
      let expected := (up.map (assocGet st.tickers)).sum
      let st := if st.guardDrops != expected then
          st.fail ln s!"crash of hosts {xs} dropped {st.guardDrops} of their {expected} background tasks" else st
      { st with down := st.down ++ up, inCrash := [], curOp := [],
                members := st.members.filter (fun m => !up.contains m.1),
                tickers := up.foldl (fun t x => assocSet t x 0) st.tickers,
                crashStep := up.foldl (fun c x => assocSet c x st.step) st.crashStep }
    | ["OP", "ctl", "bounce", h] =>
      let x := hostTok h
      let wasDown := st.down.contains x
      let st := if !wasDown && st.guardDrops != assocGet st.tickers x then
          st.fail ln s!"bounce of h{x} dropped {st.guardDrops} of its {assocGet st.tickers x} background tasks" else st
      c04Bounced st x
    | ["OP", "ctl", "bounce_set", hs] =>
      -- `Sim::bounce(<several hosts>)`: each selected host restarted exactly once
      let xs := (hs.splitOn ",").map hostTok
      let expected := ((xs.filter (fun x => !st.down.contains x)).map (assocGet st.tickers)).sum
      let st := if st.guardDrops != expected then
          st.fail ln s!"bounce of hosts {xs} dropped {st.guardDrops} of their {expected} background tasks" else st
      xs.foldl c04Bounced st
    | ["OP", h, "countof", a] =>
      let _ := h
      let x := hostTok a
      if st.down.contains x && obs != ["ok", "streams=0", "udp=0", "tcpb=0"] then
        st.fail ln s!"crashed host h{x} still holds table entries: {obs}" else st
    | ["OP", h, "tcp_accept", _, s] =>
      let x := hostTok h
      match obs with
      | ["ok", _, peer] =>
        let st := if st.lateConn.contains (peer, x) then st.fail ln s!"the new incarnation of h{x} accepted a connection request ({peer}) that reached the host while it was down" else st
        let st := { st with queuedSyn := st.queuedSyn.filter (fun q => !(q.1 == peer && q.2 == x)) }
        match addrHost peer with
        | some p =>
          -- the connector's slot: the one whose SYN came from `peer`
          (match st.connLoc.find? (·.2 == peer) with
           | some ((ph, ps), _) => let _ := p; let _ := s; { st with estab := st.estab ++ [(ph, ps, x)] }
           | none => st)
        | none => st
      | _ => st
    | ["OP", h, "tcp_cpoll", s] =>
      let p := hostTok h
      let sl := slotTok s
      -- a connector whose SYN was queued at a host that crashed afterwards must be refused, not left pending
      match st.connLoc.find? (·.1 == (p, sl)) with
      | some (_, loc) =>
        (match st.queuedSyn.find? (·.1 == loc) with
         | some (_, x) =>
           if obs == ["pending"] && (st.down.contains x || st.afterBounce.contains x) && st.step ≥ assocGet st.crashStep x + 1
              && st.crashStep.any (·.1 == x) then
             st.fail ln s!"connect from h{p} queued at h{x} before its crash is still pending after the crash"
           else st
         | none => st)
      | none => st
    | ["OP", h, "tcp_read", s, n] =>
      let p := hostTok h
      let sl := slotTok s
      match st.estab.find? (fun e => e.1 == p && e.2.1 == sl) with
      | some (_, _, x) =>
        if st.crashStep.any (·.1 == x) && st.step ≥ assocGet st.crashStep x + st.lat + 1 && n != "0" then
          let terminal := obs == ["ok", "-"] || obs == ["err", "reset"]
          let cur := match st.peerReads.find? (·.1 == (p, sl)) with | some q => q.2 | none => (0, false)
          { st with peerReads := (st.peerReads.filter (·.1 != (p, sl))) ++ [((p, sl), (cur.1 + 1, cur.2 || terminal))] }
        else st
      | none => st
    | ["OP", h, wop, s, _] =>
      if wop == "tcp_pwrite" || wop == "tcp_write" then
        -- a peer blocked in a write on a stream to the crashed host (no flow-control credit: the victim had
        -- stopped reading) must be unblocked by the reset too, not left pending for ever
        let p := hostTok h
        let sl := slotTok s
        match st.estab.find? (fun e => e.1 == p && e.2.1 == sl) with
        | some (_, _, x) =>
          if st.crashStep.any (·.1 == x) && st.step ≥ assocGet st.crashStep x + 2 * st.lat + 2 then
            let blocked := obs == ["pending"] || obs == ["err", "wouldblock"]
            let cur := match st.peerWrites.find? (·.1 == (p, sl)) with | some q => q.2 | none => (0, false)
            { st with peerWrites := (st.peerWrites.filter (·.1 != (p, sl))) ++ [((p, sl), (cur.1 + 1, cur.2 || !blocked))] }
          else st
        | none => st
      else if wop == "udp_tryrecv" then
      let x := hostTok h
      match obs with
      | ["ok", _, _, hex] =>
        (match msgId hex with
         | some id =>
           let st := { st with mcRecvd := st.mcRecvd ++ [(x, id)] }
           -- a datagram sent to a group reaches members only: a crashed / bounced host's memberships are gone
           let st := match st.mcSnap.find? (·.1 == id) with
             | some (_, ms) => if ms.contains x then st else st.fail ln s!"h{x} received datagram {id} sent to a multicast group it is not a member of (a membership survived its socket)"
             | none => st
           if st.lateIds.contains (x, id) then st.fail ln s!"datagram {id} that reached h{x} while it was down was handed to its new incarnation" else st
         | none => st)
      | ["err", "wouldblock"] =>
        -- the queue is empty: a datagram sent to a group this host has belonged to since before the send,
        -- and whose latency has certainly elapsed, was never delivered — somebody else's crash or drop
        -- must not cancel this host's membership
        (match st.mcSends.find? (fun q => st.members.any (fun m => m.1 == x && m.2.1 == q.2.1 && m.2.2 < q.2.2) &&
            q.2.2 + st.lat + 1 ≤ st.step && !st.mcRecvd.contains (x, q.1)) with
         | some q => st.fail ln s!"h{x} is a member of {q.2.1} but never received datagram {q.1} sent to the group"
         | none => st)
      | _ => st
      else if (wop == "udp_bind" || wop == "tcp_bind") && st.afterBounce.contains (hostTok h) && obs == ["err", "addrinuse"] then
        st.fail ln s!"after crash and bounce h{hostTok h} cannot bind its port again: still in use"
      else st
    | ["OP", h, "udp_join", _, g, _] =>
      if obs == ["ok"] then { st with members := st.members ++ [(hostTok h, g, st.step)] } else st
    | ["OP", h, "udp_leave", _, g, _] =>
      let x := hostTok h
      { st with members := st.members.filter (fun m => !(m.1 == x && m.2.1 == g)) }
    | ["OP", h, "drop", _] => let x := hostTok h; { st with members := st.members.filter (·.1 != x) }
    | ["OP", _, "udp_send", _, dst, hex] =>
      (match dst.splitOn ":", msgId hex with
       | [g, _], some id =>
         if g.startsWith "mc" && obs.head? == some "ok" then
           { st with mcSends := st.mcSends ++ [(id, g, st.step)],
                     mcSnap := st.mcSnap ++ [(id, (st.members.filter (·.2.1 == g)).map (·.1))] }
         else st
       | _, _ => st)
    | ["OP", "ctl", "xprobe_bw", _, _, _] =>
      -- self-contained probe run by the harness on a private Sim: a writer parked on flow control (in a real
      -- task, with a real waker) whose peer crashes, or drops its stream with unread data, must finish with an error
      if obs == ["ok"] then st else
        { (st.fail ln s!"blocked-writer probe: {" ".intercalate obs}") with res := { (st.fail ln s!"blocked-writer probe: {" ".intercalate obs}").res with pattern := "F-C04-1" } }
    | _ => st
  | _ => st

def oracleC04 (lines : List String) : OResult :=
  let cfgT := match lines.find? (·.startsWith "CFG ") with | some l => toks l | none => []
  let lat := kvNat cfgT "maxlat_ms" 2 / (max 1 (kvNat cfgT "tick_ms" 1)) + 2
  let tick := (max 1 (kvNat cfgT "tick_ms" 1)) * 1000000
  let (st, _) := lines.foldl (fun (acc : C04St × Nat) l => (c04Line acc.1 acc.2 l, acc.2 + 1)) ({ lat := lat, tick := tick }, 1)
  let res := st.res
  let res := if !res.ok then res else
    match st.peerReads.find? (fun q => q.2.1 ≥ 2 && !q.2.2) with
    | some q => { res with ok := false, detail := s!"h{q.1.1} slot {q.1.2}: reads on a stream to the crashed host stay pending (no end-of-file, no reset)" }
    | none => res
  let res := if !res.ok then res else
    match st.peerWrites.find? (fun q => q.2.1 ≥ 2 && !q.2.2) with
    | some q => { res with ok := false, pattern := "F-C04-1", detail := s!"h{q.1.1} slot {q.1.2}: writes on a stream to the crashed host stay blocked after the reset has reached the peer (no broken pipe, no reset)" }
    | none => res
  { res with cov := (if st.crashStep.isEmpty then [] else ["o:crash"]) ++ (if st.estab.isEmpty then [] else ["o:estab"]) ++
                    (if st.lateIds.isEmpty then [] else ["o:late"]) ++ (if st.afterBounce.isEmpty then [] else ["o:bounce"]) }

def oracleRaw (prop : String) (lines : List String) (modelCov : List String) : OResult :=
  match prop with
  | "C02" => oracleC02 lines modelCov
  | "C12" => oracleC12 lines
  | "C03" => oracleC03 lines
  | "C08" => oracleC08 lines
  | "C15" => oracleC15 lines
  | "C14" => oracleC14 lines
  | "C09" => oracleC09 lines
  | "C05" => oracleC05 lines
  | "C04" => oracleC04 lines
  | _ => {}

/-- Properties whose scenario families never reach a documented panic: a panic of the
    implementation is a failure in its own right. -/
def noPanicProps : List String := ["C02", "C03", "C08", "C12", "C14", "C05", "C09", "C04"]

def oracle (prop : String) (lines : List String) (modelCov : List String := []) : OResult :=
  let r := oracleRaw prop lines modelCov
  if r.ok && noPanicProps.contains prop && lines.any (· == "OBS panic") then
    let ln := (lines.findIdx? (· == "OBS panic")).getD 0
    { r with ok := false, line := ln + 1, detail := "the implementation panicked" }
  else r

end TV.Driver
