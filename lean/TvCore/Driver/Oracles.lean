import Driver.Replay
/-
  Property oracles evaluated on the implementation's own observations (O).
-/
namespace TV.Driver

structure OResult where
  ok : Bool := true
  pattern : String := "none"
  line : Nat := 0
  detail : String := ""
  cov : List String := []

def oracle (prop : String) (lines : List String) : OResult :=
  match prop with
  | _ => {}

end TV.Driver
