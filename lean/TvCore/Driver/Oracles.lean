import Driver.Replay
/-
  Property oracles evaluated on the implementation's own observations (O).
  They read only OP / OBS / EV / ORA lines of the trace — never the model's state.
-/
namespace TV.Driver

structure OResult where
  ok : Bool := true
  pattern : String := "none"
  line : Nat := 0
  detail : String := ""
  cov : List String := []

def toks (l : String) : List String := (l.splitOn " ").filter (· != "")

/-- (line number, OP tokens, OBS tokens) for every operation of a case, in order. -/
def opObsPairs (lines : List String) : List (Nat × List String × List String) :=
  let (acc, _, _) := lines.foldl (fun (st : List (Nat × List String × List String) × Option (Nat × List String) × Nat) l =>
    let (acc, cur, ln) := st
    let t := toks l
    match t with
    | "OP" :: rest =>
      -- a pending ctl op without OBS (e.g. `q`) is emitted with an empty observation
      let acc := match cur with | some (n, op) => acc ++ [(n, op, [])] | none => acc
      (acc, some (ln, rest), ln + 1)
    | "OBS" :: rest =>
      match cur with
      | some (n, op) => (acc ++ [(n, op, rest)], none, ln + 1)
      | none => (acc, none, ln + 1)
    | _ => (acc, cur, ln + 1)) ([], none, 1)
  acc

def hasCoin (lines : List String) : Bool :=
  lines.any (fun l => l == "ORA fail 1" || l.startsWith "ORA repair")

def msgId (hex : String) : Option Nat :=
  if hex.length < 4 then none else
  let cs := hex.toList.take 4
  cs.foldl (fun acc c =>
    match acc with
    | none => none
    | some v =>
      let d := if '0' ≤ c && c ≤ '9' then some (c.toNat - '0'.toNat)
               else if 'a' ≤ c && c ≤ 'f' then some (c.toNat - 'a'.toNat + 10) else none
      d.map (fun d => v * 16 + d)) (some 0)

/-! ### C03 -/

structure C03St where
  explicit : List (Nat × Nat) := []          -- directions (src host, dst host) explicitly partitioned now
  lastLinks : List (Nat × Nat × Nat) := []   -- (src host, dst host, msg id) in flight at the last `links` view
  linksFresh : Bool := false                 -- no send since the last `links` view
  bad : List (Nat × String) := []            -- msg id → why it must never be delivered
  good : List (Nat × Nat × Nat) := []        -- (id, src, dst) that must be delivered (fail = 0 only)
  recvd : List Nat := []
  res : OResult := {}

def hostTok (t : String) : Nat := (t.drop 1).toNat?.getD 0
def addrHost (t : String) : Option Nat :=
  match t.splitOn ":" with
  | [ip, _] => if ip.startsWith "h" then some (hostTok ip) else none
  | _ => none

def parseLinksView (obs : List String) : List (Nat × Nat × Nat) :=
  -- tokens like h0-h1[h0:9000>h1:9000/udp:0001ab,...]
  obs.foldl (fun acc t =>
    match t.splitOn "[" with
    | [_, body] =>
      let body := (body.dropEnd 1).toString
      if body.isEmpty then acc else
      acc ++ (body.splitOn ",").filterMap (fun m =>
        match m.splitOn "/" with
        | [sd, proto] =>
          match sd.splitOn ">" with
          | [s, d] =>
            match addrHost s, addrHost d, (if proto.startsWith "udp:" then msgId (proto.drop 4).toString else none) with
            | some sh, some dh, some id => some (sh, dh, id)
            | _, _, _ => none
          | _ => none
        | _ => none)
    | _ => acc) []

def c03Partition (st : C03St) (dirs : List (Nat × Nat)) (useLinks : Bool) : C03St :=
  let doomed := if useLinks && st.linksFresh then
      st.lastLinks.filter (fun (s, d, _) => dirs.contains (s, d)) |>.map (fun (_, _, id) => (id, "in flight when partitioned"))
    else []
  -- messages that were in flight in a partitioned direction need not be delivered any more
  let inDirs := fun (x : Nat × Nat × Nat) => dirs.contains (x.2.1, x.2.2)
  { st with explicit := st.explicit ++ dirs.filter (fun d => !st.explicit.contains d),
            bad := st.bad ++ doomed,
            good := st.good.filter (fun g => !inDirs g) }

def c03Repair (st : C03St) (dirs : List (Nat × Nat)) : C03St :=
  { st with explicit := st.explicit.filter (fun d => !dirs.contains d) }

def c03Step (failZero : Bool) (st : C03St) (x : Nat × List String × List String) : C03St :=
  let (ln, op, obs) := x
  let both := fun (a b : String) => [(hostTok a, hostTok b), (hostTok b, hostTok a)]
  let one := fun (a b : String) => [(hostTok a, hostTok b)]
  match op with
  | ["ctl", "links"] => { st with lastLinks := parseLinksView obs, linksFresh := true }
  | ["ctl", "partition", a, b] => c03Partition st (both a b) true
  | ["ctl", "partition1", a, b] => c03Partition st (one a b) true
  | ["ctl", "repair", a, b] => c03Repair st (both a b)
  | ["ctl", "repair1", a, b] => c03Repair st (one a b)
  | [_, "net_partition", a, b] => c03Partition st (both a b) false
  | [_, "net_partition1", a, b] => c03Partition st (one a b) false
  | [_, "net_repair", a, b] => c03Repair st (both a b)
  | [_, "net_repair1", a, b] => c03Repair st (one a b)
  | [h, "udp_send", _, dst, hex] =>
    let st := { st with linksFresh := false }
    if obs.head? != some "ok" then st else
    match addrHost dst, msgId hex with
    | some d, some id =>
      let s := hostTok h
      if s == d then st
      else if st.explicit.contains (s, d) then { st with bad := st.bad ++ [(id, "sent while explicitly partitioned")] }
      else if failZero then { st with good := st.good ++ [(id, s, d)] } else st
    | _, _ => st
  | [_, "udp_tryrecv", _, _] =>
    match obs with
    | ["ok", _, _, hex] =>
      match msgId hex with
      | some id =>
        let st := { st with recvd := st.recvd ++ [id] }
        match st.bad.find? (·.1 == id) with
        | some (_, why) =>
          if st.res.ok then { st with res := { ok := false, line := ln, detail := s!"datagram {id} delivered although {why}" } } else st
        | none =>
          if (st.recvd.filter (· == id)).length > 1 && st.res.ok then
            { st with res := { ok := false, line := ln, detail := s!"datagram {id} delivered twice" } }
          else st
      | none => st
    | _ => st
  | _ => st

def oracleC03 (lines : List String) : OResult :=
  let cfgT := match lines.find? (·.startsWith "CFG ") with | some l => toks l | none => []
  let failZero := kvGet cfgT "fail" == some "0" && !lines.any (fun l => l.startsWith "OP ctl setfail" || l.startsWith "OP ctl setlinkfail")
  let drained := lines.any (· == "OP ctl mark drained")
  let st := (opObsPairs lines).foldl (c03Step failZero) {}
  let res := st.res
  -- keeps-flowing half: with fail_rate = 0 every datagram sent across a direction that was not
  -- explicitly partitioned (and not caught in flight by a later partition) is delivered.
  let res := if res.ok && failZero && drained then
      match st.good.find? (fun g => !st.recvd.contains g.1) with
      | some (id, s, d) => { res with ok := false, detail := s!"datagram {id} h{s}->h{d} sent on a healthy direction was never delivered" }
      | none => res
    else res
  let cov := (if st.bad.isEmpty then [] else ["o:badmsgs"]) ++ (if st.good.isEmpty then [] else ["o:goodmsgs"])
  let res := { res with cov := cov }
  if res.ok then res
  else if hasCoin lines then { res with pattern := "F-C03-1" } else res

def oracle (prop : String) (lines : List String) : OResult :=
  match prop with
  | "C03" => oracleC03 lines
  | _ => {}

end TV.Driver
