import TvCore.Model.Ops
import TvCore.Model.Step
import TvCore.Model.StreamId
import TvCore.Props.C04Socks
/-
  Replays one case of a tv-sim trace on the World model (correspondence K).
-/
namespace TV.Driver
open TV TV.World

def parseIp (t : String) : Ip :=
  if t == "lo" then .lo else if t == "any" then .any else if t == "bc" then .bc
  else if t.startsWith "mc" then .mc ((t.drop 2).toNat?.getD 0)
  else if t.startsWith "h" then .host ((t.drop 1).toNat?.getD 0)
  else if t.startsWith "x" then .x ((t.drop 1).toNat?.getD 0)
  else .x 999

def parseAddr (t : String) : Addr :=
  match t.splitOn ":" with
  | [ip, port] => { ip := parseIp ip, port := port.toNat?.getD 0 }
  | _ => { ip := .x 999, port := 0 }

def parseHex (t : String) : Hex := if t == "-" then "" else t
def slotOf (t : String) : Nat := (t.drop 1).toNat?.getD 0
def hostOf (t : String) : Nat := (t.drop 1).toNat?.getD 0

def kvGet (toks : List String) (k : String) : Option String :=
  toks.findSome? (fun t => match t.splitOn "=" with
    | [k', v] => if k' == k then some v else none
    | _ => none)

def kvNat (toks : List String) (k : String) (d : Nat) : Nat :=
  match kvGet toks k with | some v => v.toNat?.getD d | none => d

def evLine (e : Env) : String := s!"EV delivered {e.src.toTok} {e.dst.toTok} {e.msg.toTok}"

/-- tokens of a host-level op → the call with parsed arguments. -/
def parseHOp (t : List String) : HOp :=
  match t with
  | ["udp_bind", s, a] => .udpBind (slotOf s) (parseAddr a)
  | ["tcp_bind", s, a] => .tcpBind (slotOf s) (parseAddr a)
  | ["udp_send", s, a, p] => .udpSend (slotOf s) (parseAddr a) (parseHex p)
  | ["udp_tryrecv", s, n] => .udpTryRecv (slotOf s) (n.toNat?.getD 0)
  | ["udp_recv", s, n] => .udpRecv (slotOf s) (n.toNat?.getD 0)
  | ["udp_readable", s] => .udpReadable (slotOf s)
  | ["udp_connect", s, a] => .udpConnect (slotOf s) (parseAddr a)
  | ["udp_bcast", s, on] => .udpBcast (slotOf s) (on == "1")
  | ["udp_mloop", s, on] => .udpMloop (slotOf s) (on == "1")
  | ["udp_join", s, g, i] => .udpJoin (slotOf s) (parseIp g) (parseIp i)
  | ["udp_leave", s, g, i] => .udpLeave (slotOf s) (parseIp g) (parseIp i)
  | ["tcp_connect", s, a] => .tcpConnect (slotOf s) (parseAddr a)
  | ["tcp_cpoll", s] => .tcpCPoll (slotOf s)
  | ["tcp_accept", ls, s] => .tcpAccept (slotOf ls) (slotOf s)
  | ["tcp_write", s, p] => .tcpWrite (slotOf s) (parseHex p)
  | ["tcp_split", s] => .tcpSplit (slotOf s)
  | ["tcp_reunite", s] => .tcpReunite (slotOf s)
  | ["tcp_pwrite", s, p] => .tcpPWrite (slotOf s) (parseHex p)
  | ["tcp_shutdown", s] => .tcpShutdown (slotOf s)
  | ["tcp_read", s, n] => .tcpRead (slotOf s) (n.toNat?.getD 0)
  | ["tcp_peek", s, n] => .tcpPeek (slotOf s) (n.toNat?.getD 0)
  | ["drop", s] => .drop (slotOf s)
  | ["tcp_dropr", s] => .tcpDropR (slotOf s)
  | ["tcp_dropw", s] => .tcpDropW (slotOf s)
  | ["count"] => .count
  | ["countof", a] => .countOf (hostOf a)
  | ["spawn_ticker"] => .spawnTicker
  | ["spawn_rt_ticker"] => .spawnTicker
  | ["select4"] => .select4
  | ["exit"] => .exit
  | ["net_partition", a, b] => .net .partition (hostOf a) (hostOf b)
  | ["net_partition1", a, b] => .net .partitionOneway (hostOf a) (hostOf b)
  | ["net_repair", a, b] => .net .repair (hostOf a) (hostOf b)
  | ["net_repair1", a, b] => .net .repairOneway (hostOf a) (hostOf b)
  | ["net_hold", a, b] => .net .hold (hostOf a) (hostOf b)
  | ["net_release", a, b] => .net .release (hostOf a) (hostOf b)
  | ["sleep", ms] => .sleep (ms.toNat?.getD 0)
  | ["clock"] => .clock
  | ["lookup", name] => .lookup name
  | _ => .unknown

/-- the transition system the variant runs: with `cfg.fixStreamId` the repaired one (`Model/StreamId.lean`). -/
def stepD (w : World) (st : Step) : World := if w.cfg.fixStreamId then applyStepI w st else applyStep w st
def hopD (w : World) (h : Nat) (op : HOp) : World × String := if w.cfg.fixStreamId then applyHOpI w h op else applyHOp w h op

/-- Host-level op → model: the World is `stepD w (.host h op)`. -/
def hostOp (w : World) (h : Nat) (t : List String) : World × String := hopD w h (parseHOp t)

def norm (s : String) : String := " ".intercalate ((s.splitOn " ").filter (· != ""))

structure RState where
  w : World
  expectEv : List String := []
  expectObs : Option String := none
  inStep : Bool := false
  bad : Option (Nat × String) := none      -- first mismatch: line number, detail
  done : Bool := false                     -- stop comparing (after a panic)
  stepNo : Nat := 0                        -- completed steps
  loGrew : Nat := 0                        -- step in which a loopback message was last queued
  loCount : Nat := 0                       -- loopback messages queued on running hosts

def RState.fail (s : RState) (ln : Nat) (msg : String) : RState :=
  match s.bad with
  | some _ => s
  | none => { s with bad := some (ln, msg) }

/-- running hosts in registration order, as `h0,h2`. -/
def runningOrder (w : World) : String :=
  ",".intercalate (((List.range w.hosts.length).filter (fun i => (w.host! i).running)).map (fun i => s!"h{i}"))

/-- host-set forms of the link-control calls. -/
def netCtlOfSet (name : String) : Option NetCtl :=
  if name == "partition_set" then some .partition
  else if name == "partition1_set" then some .partitionOneway
  else if name == "repair_set" then some .repair
  else if name == "repair1_set" then some .repairOneway
  else if name == "hold_set" then some .hold
  else if name == "release_set" then some .release
  else none

/-- Controller op → model.  Every World is obtained from the previous one by `applyStep`s
    (`dnsLookup` is called directly where its result is needed: `stepD w (.dns n) = (w.dnsLookup n).2`). -/
def ctlOp (s : RState) (t : List String) : RState :=
  let w := s.w
  match t with
  | "reg" :: _ :: rest =>
    let ip := kvNat rest "ip" 0
    let (w, bad) := match kvGet rest "name" with
      | some "-" => (w, false)
      | none => (w, false)
      | some name => let (ip', w) := w.dnsLookup name; (w, ip' != ip)
    let s := if bad then { s with bad := some (0, "registered host address differs from the DNS model") } else s
    { s with w := stepD w (.register ip (kvGet rest "kind" == some "client")), expectObs := some "ok" }
  | ["dns", name] => let (ip, w) := w.dnsLookup name; { s with w := w, expectObs := some s!"ok {ip}" }
  | ["dnsip", ip] => { s with expectObs := some s!"ok {ip}" }
  | ["dnsbulk", pfx, n] =>
    let (w, ips) := (List.range (n.toNat?.getD 0)).foldl (fun (acc : World × List Nat) i =>
      let (ip, w) := acc.1.dnsLookup s!"{pfx}{i}"
      (w, ip :: acc.2)) (w, [])
    let last := match ips with | ip :: _ => toString ip | [] => "-"
    { s with w := w, expectObs := some s!"ok distinct={ips.eraseDups.length} last={last} xor={ips.foldl Nat.xor 0}" }
  | ["rdns", ip] =>
    { s with expectObs := some (match w.dnsReverse (ip.toNat?.getD 0) with | some n => s!"ok {n}" | none => "none") }
  | ["dnsprefix", p] =>
    let ips := (w.dns.names.filter (fun x => x.1.startsWith p)).map (fun x => toString (ipOfCounter w.v6 x.2))
    { s with expectObs := some s!"ok {if ips.isEmpty then "-" else ",".intercalate ips}" }
  | "q" :: _ => s
  | ["step"] => { s with w := stepD w .stepBegin, inStep := true, expectObs := none }
  | ["partition", a, b] => { s with w := stepD w (.link .partition (hostOf a) (hostOf b)), expectObs := some "ok" }
  | ["partition1", a, b] => { s with w := stepD w (.link .partitionOneway (hostOf a) (hostOf b)), expectObs := some "ok" }
  | ["repair", a, b] => { s with w := stepD w (.link .repair (hostOf a) (hostOf b)), expectObs := some "ok" }
  | ["repair1", a, b] => { s with w := stepD w (.link .repairOneway (hostOf a) (hostOf b)), expectObs := some "ok" }
  | ["hold", a, b] => { s with w := stepD w (.link .hold (hostOf a) (hostOf b)), expectObs := some "ok" }
  | ["release", a, b] => { s with w := stepD w (.link .release (hostOf a) (hostOf b)), expectObs := some "ok" }
  | ["crash", a] => { s with w := stepD w (.crash (hostOf a)), expectObs := some "ok" }
  | ["bounce", a] => { s with w := stepD w (.bounce (hostOf a)), expectObs := some "ok" }
  | ["crash_set", hs] =>
    -- `Sim::crash(regex)`: the selected hosts in registration order
    let xs := ((hs.splitOn ",").map hostOf).mergeSort (· ≤ ·)
    { s with w := xs.foldl (fun w x => stepD w (.crash x)) w, expectObs := some "ok" }
  | ["bounce_set", hs] =>
    let xs := ((hs.splitOn ",").map hostOf).mergeSort (· ≤ ·)
    { s with w := xs.foldl (fun w x => stepD w (.bounce x)) w, expectObs := some "ok" }
  | ["links"] => { s with expectObs := some s!"links {w.linksView}" }
  | ["deliverall", a, b] =>
    { s with w := stepD w (.deliverAll (hostOf a) (hostOf b)), expectObs := some "ok" }
  | ["deliver", a, b, i] =>
    { s with w := stepD w (.deliver (hostOf a) (hostOf b) (i.toNat?.getD 0)), expectObs := none }
  | ["mark", _] => { s with expectObs := some "ok" }
  | ["stall", _] => { s with expectObs := some "ok" }      -- real time passes in the controller: no effect on the world
  | ["xprobe_bw", _, _, _] =>
    -- a probe on a private Sim inside the harness (blocked writer, real task and waker): no effect on this world
    { s with expectObs := some "ok" }
  | ["reglate"] =>
    let i := w.hosts.length
    let (ip, w) := w.dnsLookup s!"n{i}"
    { s with w := stepD w (.register ip false), expectObs := some s!"ok {i} ip={ip}" }
  | [name, as, bs] =>
    -- host-set forms (`Sim::partition(regex, regex)` …): every ordered pair of distinct hosts, first set outermost
    let xs := (as.splitOn ",").map hostOf
    let ys := (bs.splitOn ",").map hostOf
    match netCtlOfSet name with
    | some op => { s with w := stepD w (.linkPairs op xs ys), expectObs := some "ok" }
    | none => { s with expectObs := none }
  | ["isrunning", a] => { s with expectObs := some s!"ok {(w.host! (hostOf a)).running}" }
  | ["setcurve", _] => { s with expectObs := some "ok" }
  | ["simclock"] => { s with expectObs := some s!"ok elapsed={w.elapsed} epoch={1700000000123456789 + w.elapsed}" }
  | _ => { s with expectObs := none }

/-- Process one trace line. -/
def line (s : RState) (ln : Nat) (l : String) : RState :=
  if s.done then s else
  let toks := (l.splitOn " ").filter (· != "")
  match toks with
  | "TURN" :: i :: _ =>
    let h := i.toNat?.getD 0
    let s := if s.expectEv.isEmpty then s else s.fail ln s!"expected {s.expectEv.head!} before TURN"
    -- the World is `stepD s.w (.turn h)`
    let (envs, w) := turnStep s.w h
    { s with w := w, expectEv := envs.map evLine }
  | "EV" :: "delivered" :: _ =>
    match s.expectEv with
    | e :: rest =>
      if e == l then { s with expectEv := rest } else s.fail ln s!"want {e}"
    | [] =>
      -- loopback delivery on the current host
      match s.w.cur with
      | none => s.fail ln "delivery outside a turn"
      | some h =>
        let pend := (s.w.host! h).lo
        match pend.findIdx? (fun e => evLine e == l) with
        | none => s.fail ln "unexpected delivery"
        | some i =>
          -- the World is `stepD s.w (.loDeliver h i)`
          match loStep s.w h i with
          | (w, some r) => { s with w := w, expectEv := [evLine r] }
          | (w, none) => { s with w := w }
  | "EV" :: _ => s
  | "ORA" :: _ => s
  | "OP" :: "ctl" :: rest =>
    let s := if s.expectEv.isEmpty then s else s.fail ln s!"expected {s.expectEv.head!}"
    ctlOp s rest
  | "OP" :: h :: rest =>
    let s := if s.expectEv.isEmpty then s else s.fail ln s!"expected {s.expectEv.head!}"
    -- the World is `stepD s.w (.host h (parseHOp rest))`
    let (w, obs) := hostOp s.w (hostOf h) rest
    let obs := match w.panicked with | some _ => "panic" | none => obs
    { s with w := w, expectObs := some obs }
  | "OBS" :: rest =>
    let got := " ".intercalate rest
    if got.startsWith "step " then
      let s := if s.expectEv.isEmpty then s else s.fail ln s!"expected {s.expectEv.head!}"
      let want := s!"step finished=true order={runningOrder s.w}"
      let s := if s.w.panicked.isSome then s else if got == want then s else s.fail ln s!"want {want}"
      { s with w := stepD s.w .stepEnd, inStep := false, expectObs := none, stepNo := s.stepNo + 1 }
    else
      let s := match s.expectObs with
        | some want => if want == "?" || norm want == got then s else s.fail ln s!"want {want}"
        | none => s
      let s := { s with expectObs := none }
      if got == "panic" then { s with done := true } else s
  | _ => s

/-- every bind-table entry and every stream-table entry of every host belongs to a held object. -/
def ownedOk (w : World) : Bool :=
  w.hosts.all (fun hs => TV.C04.bindsOwnedB hs && (!w.cfg.fixConnectLeak || TV.C04.socksOwnedB w.cfg.fixConnectLeak hs))

/-- loopback messages still queued on running hosts. -/
def loPending (w : World) : Nat := (w.hosts.map (fun hs => if hs.running then hs.lo.length else 0)).sum

def parseCfg (toks : List String) (link : Cfg) (fixLeak fixFin fixWr : Bool) (fixSid fixRst : Bool := false) : WCfg :=
  { tick := (if kvNat toks "tick_us" 0 > 0 then kvNat toks "tick_us" 0 * 1000 else kvNat toks "tick_ms" 1 * 1000000),
    tcpCap := kvNat toks "tcpcap" 64, udpCap := kvNat toks "udpcap" 64,
    ephLo := kvNat toks "ephlo" 49152, ephHi := kvNat toks "ephhi" 65535,
    link := link, fixConnectLeak := fixLeak, fixFinRedrain := fixFin, fixWriterReset := fixWr,
    fixStreamId := fixSid, fixStaleRst := fixRst }

def parseOracle (lines : List String) : List Ora :=
  lines.filterMap (fun l =>
    match (l.splitOn " ").filter (· != "") with
    | ["ORA", "fail", v] => some (.fail (v == "1"))
    | ["ORA", "repair", _] => some .repair
    | ["ORA", "delay", v] => some (.delay (v.toNat?.getD 0))
    | _ => none)

/-- Replay a case under one model variant. Result: final state. -/
def replay (lines : List String) (link : Cfg) (fixLeak fixFin : Bool) (fixWr : Bool := true) (fixSid fixRst : Bool := false) : RState :=
  let cfgToks := match lines.find? (·.startsWith "CFG ") with
    | some l => (l.splitOn " ").filter (· != "")
    | none => []
  let w0 : World := { cfg := parseCfg cfgToks link fixLeak fixFin fixWr fixSid fixRst, oracle := parseOracle lines,
                      v6 := kvGet cfgToks "ipv" == some "6" }
  let (s, _) := lines.foldl (fun (acc : RState × Nat) l =>
    let s := line acc.1 acc.2 l
    -- hypotheses of the aggregate release theorems (C04Own, C04Socks), on every state reached
    let s := if s.bad.isNone && s.w.panicked.isNone && !ownedOk s.w then s.fail acc.2 "ownership invariant (BindsOwned / SocksOwned) broken" else s
    let n := loPending s.w
    let s := if n > s.loCount then { s with loGrew := s.stepNo, loCount := n } else { s with loCount := n }
    (s, acc.2 + 1)) ({ w := w0 }, 1)
  -- a loopback message is delivered by a task that sleeps one tick (at least one timer-wheel
  -- millisecond): it cannot still be queued on a running host several steps later
  let slack := (1000000 + s.w.cfg.tick - 1) / (max 1 s.w.cfg.tick) + 3
  let s := if !s.done && s.w.panicked.isNone && loPending s.w > 0 && s.stepNo ≥ s.loGrew + slack then
      s.fail 0 "a loopback message was never delivered" else s
  let s := if !s.done && !s.w.oracle.isEmpty then s.fail 0 "unused oracle values" else s
  if s.w.oraErr then s.fail 0 "missing oracle value" else s

end TV.Driver
