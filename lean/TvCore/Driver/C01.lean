import Driver.Replay
import Driver.Oracles
/-
  C01: every case of the trace holds four executions of the same scenario (twice in one process,
  twice in fresh processes).  O: the four traces are identical, line by line.  K: the first
  execution is replayed on the World model where the family is modelled.
-/
namespace TV.Driver.C01
open TV TV.Driver

/-- split a case into its executions at the `TWIN <label>` markers. -/
def splitTwins (lines : List String) : List (String × List String) :=
  let (acc, curLabel, cur) := lines.foldl (fun (st : List (String × List String) × String × List String) l =>
    let (acc, label, cur) := st
    if l.startsWith "TWIN " then (acc ++ [(label, cur.reverse)], (l.drop 5).toString, [])
    else if l == "END" then (acc, label, cur)
    else (acc, label, l :: cur)) ([], "first", [])
  acc ++ [(curLabel, cur.reverse)]

def firstDiff : List String → List String → Nat → Option (Nat × String × String)
  | [], [], _ => none
  | a :: _, [], n => some (n, a, "<end of trace>")
  | [], b :: _, n => some (n, "<end of trace>", b)
  | a :: as, b :: bs, n => if a == b then firstDiff as bs (n + 1) else some (n, a, b)

def evalCase (lines : List String) : String × Bool × Bool :=
  let header := lines.headD ""
  let n := (header.splitOn " ").getD 1 "0"
  let body := lines.drop 1
  let twins := splitTwins body
  let first := match twins.head? with | some t => t.2 | none => []
  -- O: all executions identical
  let o : OResult := twins.drop 1 |>.foldl (fun (r : OResult) t =>
    if !r.ok then r else
    match firstDiff first t.2 1 with
    | none => r
    | some (ln, a, b) => { ok := false, line := ln, detail := s!"execution '{t.1}' differs from the first at line {ln}: '{a}' vs '{b}'" }) {}
  let o := if twins.length < 4 then { o with ok := false, detail := s!"only {twins.length} of 4 executions present" } else o
  -- the read_dir finding: the differing line is a directory listing
  let o := if !o.ok && (o.detail.splitOn "OBS ok").length > 1 && first.any (fun l => (l.splitOn " fs_ls").length > 1) &&
              (match firstDiff first ((twins.getD 1 ("", [])).2) 1 with | _ => true) then
      -- classify only if the line just before the difference is a directory listing op
      let ln := o.line
      let prev := first.getD (ln - 2) ""
      if (prev.splitOn " fs_ls").length > 1 then { o with pattern := "F-C01-1" } else o
    else o
  -- K: replay the first execution on the model (network / clock families)
  let modelled := !((header.splitOn "family=c01_fs").length > 1)
  let cfgLine := (first.find? (·.startsWith "CFG ")).getD ""
  let randomOrder := (cfgLine.splitOn "random_order=1").length > 1
  let caseLines := header :: first
  let rec firstOk (vs : List (String × Cfg × Bool × Bool)) : Option (String × RState) :=
    match vs with
    | [] => none
    | (name, link, leak, fin) :: rest =>
      let st := replay caseLines link leak fin true
      if st.bad.isNone then some (name, st) else
      let st := replay caseLines link leak fin true true
      if st.bad.isNone then some (name ++ "+streamid", st) else
      let st := replay caseLines link leak fin false
      if st.bad.isNone then some (name ++ "-writer", st) else firstOk rest
  let variants : List (String × Cfg × Bool × Bool) :=
    [("fixed:all", Cfg.fixed, true, true), ("fixed:rand+leak+fin", Cfg.fixedRand, true, true),  -- second: the tree before the repair of F-C08-1 / F-C03-2
     ("faithful", Cfg.faithful, false, false), ("fixed:rand", Cfg.fixedRand, false, false),
     ("fixed:leak+fin", Cfg.faithful, true, true), ("fixed:rand+leak", Cfg.fixedRand, true, false), ("fixed:rand+fin", Cfg.fixedRand, false, true),
     ("fixed:leak", Cfg.faithful, true, false), ("fixed:fin", Cfg.faithful, false, true)]
  let (kOk, vname, cov, kline, kdetail) :=
    if !modelled || randomOrder then (true, "-", ([] : List String), 0, "") else
    match firstOk variants with
    | some (name, st) => (true, name, st.w.cov.reverse, 0, "")
    | none =>
      let st := replay caseLines Cfg.faithful false false
      let (ln, d) := match st.bad with | some p => p | none => (0, "")
      (false, "none", st.w.cov.reverse, ln, d)
  let fam := match (header.splitOn "family=") with | [_, r] => (r.splitOn " ").headD "" | _ => ""
  let cov := [s!"fam:{fam}"] ++ (if randomOrder then ["randorder"] else []) ++ cov.take 6
  (s!"CASE {n} K={if kOk then "ok" else "mismatch"} O={if o.ok then "ok" else "fail"} variant={vname} pattern={o.pattern} line={if kOk then o.line else kline} cov={",".intercalate cov} detail={if !o.ok then o.detail else kdetail}",
   kOk, o.ok)

end TV.Driver.C01
