import TvCore.Model.Run
import Driver.Oracles
/-
  C11: replay of a c11 case on the Run model (K) and the property oracle on the observations (O).

  Model variants (as in Driver/Main.lean: K=ok only for the code as it stands): the committed tree has the repair
  of F-C11-1 (`Sim.fixLateRun := true`: `Sim::step` refuses to begin once the duration has elapsed and a client is
  unfinished).  A case that replays only on the tree before that repair is a K mismatch
  `variant=regressed:prefix-late-run`.  The oracle still recognises the finding (pattern F-C11-1) if it comes back.
-/
namespace TV.Driver.C11
open TV.Run TV.Driver

def parseOutcome (s : String) : Outcome :=
  if s == "ok" then .ok else if s == "err" then .err else if s == "panic" then .panic else .never

def resStr (before : Nat) (m : Sim) (r : StepRes) : String :=
  match r with
  | .cont _ => s!"run ok steps={m.steps - before}"
  | .errSoftware => s!"run err software steps={m.steps - before}"
  | .errTimeout => s!"run err timeout steps={m.steps - before}"
  | .panic => "run panic"

/-- several softwares with different non-Ok outcomes observed in the same step: with random host
    order the first one is not determined by the model. -/
def ambiguous (m : Sim) : Bool :=
  let evs := m.sws.filter (fun s => s.running && s.finStep m.tick == s.ticks + 1 && (s.effective == .err || s.effective == .panic))
  evs.length ≥ 2 && evs.any (·.effective == .err) && evs.any (·.effective == .panic)

def stepnLoop (ro : Bool) : Nat → Sim → List String → Bool → Sim × List String × Bool
  | 0, m, acc, amb => (m, acc, amb)
  | n + 1, m, acc, amb =>
    let amb := amb || ambiguous m
    let (m', r) := step m
    match r with
    | .cont true => stepnLoop ro n m' (acc ++ ["t"]) amb
    | .cont false => stepnLoop ro n m' (acc ++ ["f"]) amb
    | .errSoftware =>
      -- the simulation can be driven on after a software error; with random host order the model does
      -- not know which hosts the aborted step had already ticked, so the comparison stops there
      if ro then (m', acc ++ ["software"], amb) else stepnLoop ro n m' (acc ++ ["software"]) amb
    | .errTimeout => (m', acc ++ ["timeout"], amb)
    | .panic => (m', acc ++ ["panic"], amb)

def runAmb : Nat → Sim → Bool
  | 0, _ => false
  | f + 1, m => ambiguous m || (match step m with | (m', .cont false) => runAmb f m' | _ => false)

structure KState where
  m : Sim
  ro : Bool := false        -- random host order
  bad : Option (Nat × String) := none
  dead : Bool := false

def kStep (st : KState) (x : Nat × List String × List String) : KState :=
  let (ln, op, obs) := x
  if st.dead then st else
  let fail := fun (st : KState) (want : String) =>
    if st.bad.isSome then st else { st with bad := some (ln, s!"want {want}") }
  let got := " ".intercalate obs
  match op with
  | "ctl" :: "sw" :: kind :: kv =>
    let s : Sw := { client := kind == "client", atUs := kvNat kv "at" 0, outcome := parseOutcome ((kvGet kv "outcome").getD "ok"),
                    spawned := kvGet kv "spawned" == some "1" }
    { st with m := register st.m s }
  | ["ctl", "crash", i] => { st with m := crash st.m (i.toNat?.getD 0) }
  | ["ctl", "bounce", i] => { st with m := bounce st.m (i.toNat?.getD 0) }
  | ["ctl", "run"] =>
    let amb := runAmb (st.m.duration / st.m.tick + 4) st.m
    let (m', r) := run st.m
    let want := resStr st.m.steps m' r
    let st' := { st with m := m', dead := r == .errTimeout || r == .panic || (st.ro && r == .errSoftware) }
    if got == want || amb then st' else fail st' want
  | ["ctl", "stepn", n] =>
    let (m', acc, amb) := stepnLoop st.ro (n.toNat?.getD 0) st.m [] false
    let want := s!"stepn {",".intercalate acc}"
    let cutShort := st.ro && acc.getLast? == some "software"
    let ended := match acc.getLast? with | some r => r == "timeout" || r == "panic" || cutShort | none => false
    let st' := { st with m := m', dead := ended }
    let gotCmp := if cutShort then s!"stepn {",".intercalate (((obs.getD 1 "").splitOn ",").take acc.length)}" else got
    if gotCmp == want || amb then st' else fail st' want
  | _ => st

/-! ### oracle -/

structure OSw where
  client : Bool
  atUs : Nat
  outcome : String
  spawned : Bool
  regStep : Nat
  crashed : Bool := false

structure OState where
  tick : Nat
  duration : Nat
  sws : List OSw := []
  steps : Nat := 0          -- completed steps so far (from observations)
  res : OResult := {}
  dead : Bool := false

def OState.fail (st : OState) (ln : Nat) (msg : String) : OState :=
  if st.res.ok then { st with res := { ok := false, line := ln, detail := msg } } else st

/-- earliest / latest global step in which the outcome may be observed (an instant exactly on a
    step boundary may be attributed to either adjacent step). -/
def earliest (tick : Nat) (s : OSw) : Nat :=
  s.regStep + (if s.atUs % tick == 0 && s.atUs > 0 then s.atUs / tick else s.atUs / tick + 1)
def latest (tick : Nat) (s : OSw) : Nat := s.regStep + s.atUs / tick + 1

def finishesOk (s : OSw) : Bool := s.outcome == "ok"
def raises (s : OSw) (what : String) : Bool :=
  !s.crashed && s.outcome == what && (what == "panic" || !s.spawned)

/-- Judge one `run` / `stepn` outcome that ended after `k` completed steps (`endStep` = the step in
    which it ended: k for ok/timeout, k+1 for a software error / panic). -/
def judge (st : OState) (ln : Nat) (kind : String) (endStep : Nat) : OState :=
  let tick := st.tick
  let clients := st.sws.filter (·.client)
  let pendingClients := clients.filter (fun c => !(finishesOk c && latest tick c ≤ st.steps))   -- not certainly done before this run
  -- first step k0 at which the duration is exceeded
  let k0 := st.duration / tick + 1
  if kind == "ok" then
    let st := match clients.find? (fun c => !finishesOk c) with
      | some c => st.fail ln s!"run/step reported success although a client ({c.outcome} at {c.atUs} us) never finished Ok"
      | none => st
    let st := match clients.find? (fun c => earliest tick c > endStep) with
      | some c => st.fail ln s!"success after {endStep} steps although a client finishes only at {c.atUs} us"
      | none => st
    let st := match st.sws.find? (fun s => (raises s "err" || raises s "panic") && latest tick s < endStep && latest tick s > st.steps) with
      | some s => st.fail ln s!"success although a software {s.outcome} at {s.atUs} us happened earlier (step {latest tick s} < {endStep})"
      | none => st
    -- in time: the last client may finish in the step that crosses the duration, not later
    if endStep > k0 && pendingClients.any (fun c => earliest tick c > k0) then
      let st := st.fail ln "success after the duration had been exceeded"
      -- known corner: the run started when Sim::elapsed was already beyond the duration
      if st.steps * tick > st.duration && st.res.pattern == "none" && st.res.detail == "success after the duration had been exceeded" then
        { st with res := { st.res with pattern := "F-C11-1" } } else st
    else st
  else if kind == "timeout" then
    -- legitimate only if some client is still unfinished once the duration is exceeded
    let allIn := clients.all (fun c => finishesOk c && latest tick c ≤ endStep)
    let st := if allIn then st.fail ln s!"timeout after {endStep} steps although every client had finished Ok by then" else st
    if endStep * tick ≤ st.duration then st.fail ln s!"timeout reported after {endStep} steps = {endStep * tick} us ≤ duration {st.duration} us" else st
  else if kind == "software" then
    match st.sws.find? (fun s => raises s "err" && earliest tick s ≤ endStep && endStep ≤ latest tick s) with
    | some _ => st
    | none => st.fail ln s!"software error reported in step {endStep} but no software returns Err then"
  else if kind == "panic" then
    match st.sws.find? (fun s => raises s "panic" && earliest tick s ≤ endStep + 1) with
    | some _ => st
    | none => st.fail ln "panic although no software panics"
  else st

def oStep (st : OState) (x : Nat × List String × List String) : OState :=
  let (ln, op, obs) := x
  if st.dead then
    -- after the first reported error the timing judgements stop (an aborted step shifts the clocks of
    -- the hosts that had already been ticked); one rule stays: nothing may panic unless a software panics
    let panicked := obs.any (fun t => t == "panic" || (t.splitOn ",").contains "panic")
    if panicked && !st.sws.any (fun s => s.outcome == "panic") then st.fail ln "the simulation panicked although no software panics (a finished software was polled again?)" else st
  else
  match op with
  | "ctl" :: "sw" :: kind :: kv =>
    { st with sws := st.sws ++ [{ client := kind == "client", atUs := kvNat kv "at" 0, outcome := (kvGet kv "outcome").getD "ok",
                                  spawned := kvGet kv "spawned" == some "1", regStep := st.steps }] }
  | ["ctl", "crash", i] =>
    { st with sws := st.sws.mapIdx (fun j s => if j == i.toNat?.getD 0 then { s with crashed := true } else s) }
  | ["ctl", "bounce", i] =>
    { st with sws := st.sws.mapIdx (fun j s => if j == i.toNat?.getD 0 then { s with crashed := false, regStep := st.steps } else s) }
  | ["ctl", "run"] =>
    match obs with
    | ["run", "ok", k] =>
      let k := kvNat [k] "steps" 0
      let st := if !st.sws.any (·.client) && k != 0 then st.fail ln "run with zero clients stepped the simulation" else st
      let st' := if st.sws.any (·.client) then judge st ln "ok" (st.steps + k) else st
      { st' with steps := st.steps + k }
    | ["run", "err", cls, k] =>
      let k := kvNat [k] "steps" 0
      let endStep := if cls == "software" then st.steps + k + 1 else st.steps + k
      { (judge st ln cls endStep) with dead := true }
    | ["run", "panic"] =>
      -- the step in which it panicked is not observable: any step up to the timeout limit
      { (judge st ln "panic" (st.duration / st.tick + 3 + st.steps)) with dead := true }
    | _ => st
  | ["ctl", "stepn", _] =>
    match obs with
    | ["stepn", rs] =>
      let all := rs.splitOn ","
      -- judge up to and including the first error; what follows is covered by the panic rule only
      let cut := match all.findIdx? (fun r => r != "t" && r != "f") with | some i => i + 1 | none => all.length
      let rs := all.take cut
      let rest := all.drop cut
      let (st, _, _) := rs.foldl (fun (acc : OState × Nat × Bool) r =>
        let (st, i, seenT) := acc
        let stepNo := st.steps + i + 1
        if r == "t" then
          -- first `true`: same judgement as a successful run ending there; later ones must stay true
          let st := if !seenT && st.sws.any (·.client) then judge st ln "ok" stepNo else st
          (st, i + 1, true)
        else if r == "f" then
          let st := if seenT then st.fail ln "step reported completion and later non-completion" else st
          (st, i + 1, seenT)
        else if r == "software" then (judge st ln "software" stepNo, i + 1, seenT)
        else if r == "timeout" then
          -- a step that *begins* beyond the duration with a client not yet finished reports the timeout at once,
          -- before running anybody (the rule `run` follows, F-C11-1): judged on the state before this step
          let before := stepNo - 1
          let pre := before * st.tick > st.duration &&
            !(st.sws.filter (·.client)).all (fun c => finishesOk c && latest st.tick c ≤ before)
          (if pre then st else judge st ln "timeout" stepNo, i + 1, seenT)
        else (judge st ln "panic" stepNo, i + 1, seenT)) (st, 0, false)
      let st := if rest.contains "panic" && !st.sws.any (fun s => s.outcome == "panic") then
          st.fail ln "the simulation panicked although no software panics (a finished software was polled again?)" else st
      let completed := (rs.filter (fun r => r == "t" || r == "f")).length
      let ended := match rs.getLast? with | some r => r != "t" && r != "f" | none => false
      { st with dead := ended, steps := st.steps + completed }
    | _ => st
  | _ => st

def evalCase (lines : List String) : String × Bool × Bool :=
  let n := match lines.head? with | some l => ((l.splitOn " ").getD 1 "0") | none => "0"
  let cfgT := match lines.find? (·.startsWith "CFG ") with | some l => toks l | none => []
  let tick := kvNat cfgT "tick_us" 1000
  let dur := kvNat cfgT "duration_us" 10000
  let pairs := opObsPairs lines
  let ro := kvGet cfgT "random_order" == some "1"
  -- K: the committed tree first (repair of F-C11-1 in); the tree before the repair only on mismatch
  let ks := pairs.foldl kStep { m := { tick := tick, duration := dur, fixLateRun := true }, ro := ro }
  let kOk := ks.bad.isNone
  let vname :=
    if kOk then "fixed:late-run"
    else if (pairs.foldl kStep { m := { tick := tick, duration := dur, fixLateRun := false }, ro := ro }).bad.isNone
      then "regressed:prefix-late-run"
    else "none"
  let os := pairs.foldl oStep { tick := tick, duration := dur }
  let o := os.res
  let cov := (if os.sws.any (·.outcome == "err") then ["err"] else []) ++ (if os.sws.any (·.outcome == "panic") then ["panic"] else []) ++
             (if os.sws.any (·.outcome == "never") then ["never"] else []) ++ (if os.sws.any (fun s => s.atUs % tick == 0 && s.atUs > 0) then ["boundary"] else []) ++
             (if os.sws.any (·.spawned) then ["spawned"] else [])
  let (ln, kd) := match ks.bad with | some (l, d) => (l, d) | none => (0, "")
  (s!"CASE {n} K={if kOk then "ok" else "mismatch"} O={if o.ok then "ok" else "fail"} variant={vname} pattern={o.pattern} line={if kOk then o.line else ln} cov={if cov.isEmpty then "-" else ",".intercalate cov} detail={if !o.ok then o.detail else kd}",
   kOk, o.ok)

end TV.Driver.C11
