import TvCore.Props.C12
#print axioms TV.C12.pick_spec
#print axioms TV.C12.pick_none
#print axioms TV.C12.pick_none_empties
#print axioms TV.C12.pick_alive
#print axioms TV.C12.acceptLoop_syns
#print axioms TV.C12.accepted_once
#print axioms TV.C12.accepted_was_waiting
#print axioms TV.C12.eraseIdx_removes_key
#print axioms TV.C12.closed_both_gone
#print axioms TV.C12.dropSyn_dropped
#print axioms TV.C12.partitioned_send_dropped
#print axioms TV.C12.unroutable_send_refused
#print axioms TV.C12.connect_refused_of_dropped
#print axioms TV.C12.connect_pending_of_pending
#print axioms TV.C12.dropEnvs_drops
#print axioms TV.C12.partition_refuses_inflight
