import TvCore.Props.C14
#print axioms TV.C14.delay_in_range
#print axioms TV.C14.fixed_latency
#print axioms TV.C14.healthy_send_scheduled
#print axioms TV.C14.matures_iff
#print axioms TV.C14.first_tick
#print axioms TV.C14.window
#print axioms TV.C14.fifo
#print axioms TV.C14.fstep_link
