import TvCore.Props.C14
import TvCore.Props.LinksWorld
#print axioms TV.C14.delay_in_range
#print axioms TV.C14.fixed_latency
#print axioms TV.C14.healthy_send_scheduled
#print axioms TV.C14.matures_iff
#print axioms TV.C14.first_tick
#print axioms TV.C14.window
#print axioms TV.C14.fifo
#print axioms TV.C14.fstep_link
#print axioms TV.LW.step_link
#print axioms TV.LW.step_frame
#print axioms TV.LW.turnStep_out
#print axioms TV.LW.clockOK_run
#print axioms TV.LW.idsOK_init
#print axioms TV.LW.fifo_init
#print axioms TV.LinksWorld.send_scheduled
#print axioms TV.LinksWorld.matured_run
#print axioms TV.LinksWorld.run_now
#print axioms TV.LinksWorld.not_delivered_early
#print axioms TV.LinksWorld.matures_at_tick
#print axioms TV.LinksWorld.waits_until_handed
#print axioms TV.LinksWorld.handed_at_turn
#print axioms TV.LinksWorld.healthy_delivered_in_window
#print axioms TV.LinksWorld.never_duplicated
#print axioms TV.LinksWorld.equal_latency_fifo
#print axioms TV.C14.fifo_any_flag
