import TvCore.Props.C01
#print axioms TV.C01.sorted_perm_eq
#print axioms TV.C01.listing_sorted_invariant
#print axioms TV.C01.listing_sorted_perm
#print axioms TV.C01.witness_hashset
#print axioms TV.C01.fixed_btreeset
#print axioms TV.C01.draws_determined
