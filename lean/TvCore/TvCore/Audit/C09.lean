import TvCore.Props.C09
#print axioms TV.C09.receive_sound
#print axioms TV.C09.drop_isolated
#print axioms TV.C09.at_most_one
#print axioms TV.C09.truncation
#print axioms TV.C09.join_nodup
