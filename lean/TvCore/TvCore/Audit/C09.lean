import TvCore.Props.C09
import TvCore.Props.C09Fanout
import TvCore.Props.C09World
#print axioms TV.C09.receive_sound
#print axioms TV.C09.drop_isolated
#print axioms TV.C09.at_most_one
#print axioms TV.C09.truncation
#print axioms TV.C09.join_nodup
#print axioms TV.C09.fanout_sends
#print axioms TV.C09.fanout_sends_allowed
#print axioms TV.C09.fanout_loopback_exact
#print axioms TV.C09.bcast_targets
#print axioms TV.C09.mcast_targets
#print axioms TV.C09.mcast_own_loop
#print axioms TV.C09.mcast_loopback_exact
#print axioms TV.C09.leave_removes
#print axioms TV.C09.leave_nodup
#print axioms TV.C09.leave_keys_nodup
#print axioms TV.C09.join_keys_nodup
#print axioms TV.C09.join_adds_only
#print axioms TV.C09.unicast_one
#print axioms TV.C09.send_sound
#print axioms TV.C09.setBcast_flag
#print axioms TV.C09.setMloop_flag
#print axioms TV.C09.tryrecv_returns_queue_head
#print axioms TV.C09.dropped_disturbs_nothing
#print axioms TV.C09.dropped_disturbs_nothing_loopback
#print axioms TV.C09.dropped_leaves_table
#print axioms TV.C09.recv_was_sent
#print axioms TV.C09.sentLog_sound
#print axioms TV.C09.recv_at_most_once
#print axioms TV.C09.recv_at_most_once_fresh
#print axioms TV.C09.recv_at_most_once_socket
#print axioms TV.C09.turn_queues
#print axioms TV.C09.loDeliver_queues
#print axioms TV.C09.handed_datagram_queued
#print axioms TV.C09.healthy_exactly_once
#print axioms TV.C09.witness_phantom_loopback
