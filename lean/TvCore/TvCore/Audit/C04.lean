import TvCore.Props.C04
import TvCore.Props.C04Socks
import TvCore.Props.C04Mcast
import TvCore.Props.C04Group
#print axioms TV.C04.only_dropObj
#print axioms TV.C04.only_dropAll
#print axioms TV.C04.crash_frame
#print axioms TV.C04.bounce_frame
#print axioms TV.C04.crash_stops
#print axioms TV.C04.udp_unbound
#print axioms TV.C04.listener_unbound
#print axioms TV.C04.dropObj_binds
#print axioms TV.C04.foldl_dropObj_binds
#print axioms TV.C04.dropAll_binds
#print axioms TV.C04.bindsOwned_of_B
#print axioms TV.C04.crash_releases_binds
#print axioms TV.C04.bounce_releases_binds
#print axioms TV.C04.closeHalf_inv
#print axioms TV.C04.erase_inv
#print axioms TV.C04.hinv_dropObj
#print axioms TV.C04.foldl_dropObj_socks
#print axioms TV.C04.socksOwned_of_B
#print axioms TV.C04.dropAll_releases_socks
#print axioms TV.C04.crash_releases_socks
#print axioms TV.C04.bounce_releases_socks
#print axioms TV.C04.mem_swapRemoveAt
#print axioms TV.C04.mgLeaveAll_keeps
#print axioms TV.C04.mgLeaveAll_removes
#print axioms TV.C04.mgLeaveAll_sub
#print axioms TV.C04.mkeeps_dropObj
#print axioms TV.C04.crash_keeps_membership
#print axioms TV.C04.bounce_keeps_membership
#print axioms TV.C04.crash_keeps_down
#print axioms TV.C04.crashAll_stops
#print axioms TV.C04.crashAll_frame
