import TvCore.Props.C04
#print axioms TV.C04.only_dropObj
#print axioms TV.C04.only_dropAll
#print axioms TV.C04.crash_frame
#print axioms TV.C04.bounce_frame
#print axioms TV.C04.crash_stops
#print axioms TV.C04.udp_unbound
#print axioms TV.C04.listener_unbound
