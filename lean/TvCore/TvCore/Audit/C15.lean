import TvCore.Props.C15
#print axioms TV.C15.assign_fresh
#print axioms TV.C15.assign_none_all_used
#print axioms TV.C15.assign_some_of_free
#print axioms TV.C15.scan_sound
#print axioms TV.C15.scan_split
#print axioms TV.C15.addrV4_injective
#print axioms TV.C15.addrV6_injective
#print axioms TV.C15.wf_lookup
#print axioms TV.C15.reachable_wf
#print axioms TV.C15.lookup_stable
#print axioms TV.C15.distinct
#print axioms TV.C15.reverse_lookup
