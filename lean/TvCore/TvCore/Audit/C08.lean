import TvCore.Props.WorldLinks
import TvCore.Props.C08
import TvCore.Props.C08Mixed
#print axioms TV.C08.hold_establishes
#print axioms TV.C08.process_noop
#print axioms TV.C08.tick_held
#print axioms TV.C08.randStep_held
#print axioms TV.C08.enqueue_held
#print axioms TV.C08.release_all_in_order
#print axioms TV.C08.release_heals
#print axioms TV.C08.manual_exactly_one
#print axioms TV.C08.perm_process
#print axioms TV.C08.perm_tick
#print axioms TV.C08.ids_hold
#print axioms TV.C08.ids_release
#print axioms TV.C08.ids_manual
#print axioms TV.C08.perm_drain
#print axioms TV.WorldLinks.linkEnqueue_other
#print axioms TV.WorldLinks.onLink_other
#print axioms TV.C08.release_none_held
#print axioms TV.C08.release_ids
#print axioms TV.C08.releaseOne_status
#print axioms TV.C08.deliver_then_release_none_held
