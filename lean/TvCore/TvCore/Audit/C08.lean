import TvCore.Props.WorldLinks
import TvCore.Props.C08
import TvCore.Props.C08Mixed
import TvCore.Props.LinksWorld
import TvCore.Props.LinksMatured
#print axioms TV.C08.hold_establishes
#print axioms TV.C08.process_noop
#print axioms TV.C08.tick_held
#print axioms TV.C08.randStep_held
#print axioms TV.C08.enqueue_held
#print axioms TV.C08.release_all_in_order
#print axioms TV.C08.release_heals
#print axioms TV.C08.manual_exactly_one
#print axioms TV.C08.perm_process
#print axioms TV.C08.perm_tick
#print axioms TV.C08.ids_hold
#print axioms TV.C08.ids_release
#print axioms TV.C08.ids_manual
#print axioms TV.C08.perm_drain
#print axioms TV.WorldLinks.linkEnqueue_other
#print axioms TV.WorldLinks.onLink_other
#print axioms TV.C08.release_none_held
#print axioms TV.C08.release_ids
#print axioms TV.C08.releaseOne_status
#print axioms TV.C08.deliver_then_release_none_held
#print axioms TV.LW.linkEnqueue_spec
#print axioms TV.LW.deliverTo_out
#print axioms TV.LW.deliverTo_link
#print axioms TV.LW.turnStep_out
#print axioms TV.LW.step_link
#print axioms TV.LW.step_frame
#print axioms TV.LW.clockOK_run
#print axioms TV.LinksWorld.held_nothing_delivered
#print axioms TV.LinksWorld.held_nothing_delivered_syntactic
#print axioms TV.LinksWorld.held_only_matured
#print axioms TV.LinksWorld.held_nothing_at_all
#print axioms TV.LinksWorld.hold_establishes_world
#print axioms TV.LinksWorld.release_delivers_all_once_in_order
#print axioms TV.LinksWorld.manual_delivers_exactly_one
#print axioms TV.LinksWorld.never_duplicated
#print axioms TV.LinksWorld.held_not_inflight
#print axioms TV.LinksWorld.other_links_unaffected
#print axioms TV.LinksWorld.endsHold_exact
#print axioms TV.LinksWorld.hold_then_nothing_delivered
#print axioms TV.C08.perm_recall
#print axioms TV.C08.ids_hold_off
#print axioms TV.LinksMatured.hold_recalls
#print axioms TV.LinksMatured.hold_keeps_ready_unrepaired
#print axioms TV.LinksMatured.held_nothing_handed_fixed
#print axioms TV.LinksMatured.release_delivers_recalled_first
#print axioms TV.LinksMatured.witness_F_C08_1
#print axioms TV.LinksMatured.fixed_F_C08_1
#print axioms TV.LinksWorld.readyOK_hold
