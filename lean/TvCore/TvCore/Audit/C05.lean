import TvCore.Props.C05
import TvCore.Props.C05Late
#print axioms TV.C05.step_adds_tick
#print axioms TV.C05.elapsed_after_k
#print axioms TV.C05.consistency
#print axioms TV.C05.turnBegin_inWindow
#print axioms TV.C05.sleep_inWindow
#print axioms TV.C05.window
#print axioms TV.C05.monotone_across_step
#print axioms TV.C05.sleep_exact_in_window
#print axioms TV.C05.sleep_across_steps
#print axioms TV.C05.sleep_exact_whole_ms
#print axioms TV.C05.ceilMs_whole
#print axioms TV.C05.witness_submilli
#print axioms TV.C05.timer_whole_ms_instance
#print axioms TV.C05.stepEnd_keeps_running
#print axioms TV.C05.synced_register
#print axioms TV.C05.synced_stepEnd
#print axioms TV.C05.synced_setHost
#print axioms TV.C05.synced_run
#print axioms TV.C05.simNow_at_window_start
