import TvCore.Props.C02
import TvCore.Props.C02Close
import TvCore.Props.C02Refine
import TvCore.Props.C02Flow
import TvCore.Props.C02FlowRun
import TvCore.Props.C02FlowEx
import TvCore.Props.C02Stale
import TvCore.Props.C02FlowConn
import TvCore.Props.C02StreamId
#print axioms TV.C02.drainBuf_inv
#print axioms TV.C02.arrive_inv
#print axioms TV.C02.pop_inv
#print axioms TV.C02.popRedrain_inv
#print axioms TV.C02.run_inv
#print axioms TV.C02.prefix_of_sent
#print axioms TV.C02.drainBuf_bound
#print axioms TV.C02.take_drop
#print axioms TV.C02.drainBuf_maximal
#print axioms TV.C02.complete_fixed
#print axioms TV.C02.witness_fin_stuck
#print axioms TV.C02.delivery_fixed
#print axioms TV.C02.dropRead_cases
#print axioms TV.C02.dropRead_graceful
#print axioms TV.C02.fin_at_head_is_graceful
#print axioms TV.C02.sockBuffer_eq
#print axioms TV.C02.sockBuffer_refines
#print axioms TV.C02.sockBuffer_rst_only_dead
#print axioms TV.C02.sockBuffer_dead
#print axioms TV.C02.read_refines
#print axioms TV.C02.read_stash_untouched
#print axioms TV.C02.peek_then_read
#print axioms TV.C02.chunks_concat
#print axioms TV.C02.reads_concat
#print axioms TV.C02.netSend_refused
#print axioms TV.C02.tryWrite_numbers
#print axioms TV.C02.tryWrite_nosend
#print axioms TV.C02.tryWrite_nosend_frame
#print axioms TV.C02.shutdown_numbers
#print axioms TV.C02.shutdown_nosend
#print axioms TV.C02.tx_sends
#print axioms TV.C02.writes_consecutive
#print axioms TV.C02.witness_refused_consumes_seq
#print axioms TV.C02.allAdmissible_of_nodup
#print axioms TV.C02.step_refines
#print axioms TV.C02.world_run_refines
#print axioms TV.C02.world_prefix
#print axioms TV.C02.world_prefix_fresh
#print axioms TV.C02.receive_is_sockBuffer
#print axioms TV.C02.writes_numbered
#print axioms TV.C02.dropWrite_numbers
#print axioms TV.C02.credits_conserved_write
#print axioms TV.C02.credits_conserved_arrival
#print axioms TV.C02.credits_conserved_arrival_bal
#print axioms TV.C02.credits_conserved_read
#print axioms TV.C02.credits_frame
#print axioms TV.C02.credits_frame_calls
#print axioms TV.C02.credits_frame_links
#print axioms TV.C02.never_overflows
#print axioms TV.C02.channel_bounded
#print axioms TV.C02.backpressure
#print axioms TV.C02.drainBuf_conserves
#print axioms TV.C02.recv_step
#print axioms TV.C02.deliverTo_step
#print axioms TV.C02.loStep_step
#print axioms TV.C02.hop_keeps_tot
#print axioms TV.C02.step_keeps_tot
#print axioms TV.C02.credits_conserved
#print axioms TV.C02.credits_conserved_run
#print axioms TV.C02.never_overflows_run
#print axioms TV.C02.estab_of_dec
#print axioms TV.C02.flow_runOk
#print axioms TV.C02.witness_stale_half_same_pair
#print axioms TV.C02.stale_write_refused_before_reconnect
#print axioms TV.C02.witness_stale_write_accepted
#print axioms TV.C02.stale_bytes_read_by_new_connection
#print axioms TV.C02.stale_drop_kills_new_connection
#print axioms TV.C02.connSafe_of_cursor
#print axioms TV.C02.witness_F_C02_2
#print axioms TV.C02.fixed_F_C02_2
#print axioms TV.C02.residual_F_C02_2
#print axioms TV.C02.residual_fixed
#print axioms TV.C02.stale_half_inert
