import TvCore.Props.C02
import TvCore.Props.C02Close
#print axioms TV.C02.drainBuf_inv
#print axioms TV.C02.arrive_inv
#print axioms TV.C02.pop_inv
#print axioms TV.C02.popRedrain_inv
#print axioms TV.C02.run_inv
#print axioms TV.C02.prefix_of_sent
#print axioms TV.C02.drainBuf_bound
#print axioms TV.C02.take_drop
#print axioms TV.C02.drainBuf_maximal
#print axioms TV.C02.complete_fixed
#print axioms TV.C02.witness_fin_stuck
#print axioms TV.C02.delivery_fixed
#print axioms TV.C02.dropRead_cases
#print axioms TV.C02.dropRead_graceful
#print axioms TV.C02.fin_at_head_is_graceful
