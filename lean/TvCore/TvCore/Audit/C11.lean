import TvCore.Props.C11
#print axioms TV.C11.no_repoll
#print axioms TV.C11.abort_has_cause
#print axioms TV.C11.finished_iff
#print axioms TV.C11.step_counts
#print axioms TV.C11.timeout_iff
#print axioms TV.C11.late_step_decides
#print axioms TV.C11.runLoop_decides
#print axioms TV.C11.run_decides
#print axioms TV.C11.run_zero_clients
#print axioms TV.C11.err_marks_finished
