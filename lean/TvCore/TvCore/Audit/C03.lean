import TvCore.Props.WorldLinks
import TvCore.Props.C03
import TvCore.Props.C03Sets
import TvCore.Props.LinksWorld
import TvCore.Props.LinksMatured
#print axioms TV.C03.fixed
#print axioms TV.C03.witness_rand_overrides_explicit
#print axioms TV.C03.partial_nocoins
#print axioms TV.C03.inflight_dropped
#print axioms TV.C03.inflight_dropped_twoway
#print axioms TV.C03.reverse_unaffected
#print axioms TV.C03.flows_after_repair
#print axioms TV.C03.repair_heals
#print axioms TV.WorldLinks.linkEnqueue_other
#print axioms TV.WorldLinks.onLink_other
#print axioms TV.WorldLinks.onLink_hosts
#print axioms TV.C03Sets.partitionOneway_stable
#print axioms TV.C03Sets.partitionOneway_sets
#print axioms TV.C03Sets.inner_sets
#print axioms TV.C03Sets.partition_oneway_sets
#print axioms TV.LW.step_link
#print axioms TV.LW.step_frame
#print axioms TV.LW.turnStep_out
#print axioms TV.LW.inv2_init
#print axioms TV.LinksWorld.partitioned_never_delivered
#print axioms TV.LinksWorld.partitioned_send_refused
#print axioms TV.LinksWorld.inflight_dropped
#print axioms TV.LinksWorld.inflight_dropped_twoway
#print axioms TV.LinksWorld.other_links_unaffected
#print axioms TV.LinksWorld.ctl_ops_empty_elsewhere
#print axioms TV.C03.fixed_any_flag
#print axioms TV.LinksMatured.partition_drops_ready
#print axioms TV.LinksMatured.partitionOneway_drops_ready
#print axioms TV.LinksMatured.partition_conserves
#print axioms TV.LinksMatured.partitioned_inflight_never_delivered_fixed
#print axioms TV.LinksMatured.partitioned_ready_never_delivered_fixed
#print axioms TV.LinksMatured.partition_refuses_ready
#print axioms TV.LinksMatured.witness_F_C03_2
#print axioms TV.LinksMatured.fixed_F_C03_2
