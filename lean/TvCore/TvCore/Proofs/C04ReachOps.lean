import TvCore.Proofs.C04ReachSh
/-
  The invariant `AllOK` across the calls that write the object table or create / remove binds.
-/
namespace TV.C04
open TV TV.World

/-! ### the object table as a list -/

theorem keys_unique {o : List (Nat × Obj)} (hk : KeysNodup o) {x y : Nat × Obj} (hx : x ∈ o) (hy : y ∈ o)
    (e : x.1 = y.1) : x = y := by
  obtain ⟨i, hi, rfl⟩ := List.mem_iff_getElem.mp hx
  obtain ⟨j, hj, rfl⟩ := List.mem_iff_getElem.mp hy
  have hp := List.pairwise_iff_getElem.mp hk
  rcases Nat.lt_trichotomy i j with hlt | heq | hgt
  · exact absurd e (hp i j hi hj hlt)
  · subst heq; rfl
  · exact absurd e.symm (hp j i hj hi hgt)

/-- the object found in slot `s`. -/
def slotObj (o : List (Nat × Obj)) (s : Nat) : Option Obj := (o.find? (·.1 == s)).map (·.2)

theorem slotObj_of_mem {o : List (Nat × Obj)} (hk : KeysNodup o) {x : Nat × Obj} (hx : x ∈ o) :
    slotObj o x.1 = some x.2 := by
  unfold slotObj
  cases hf : o.find? (·.1 == x.1) with
  | none =>
    have := List.find?_eq_none.mp hf x hx
    simp at this
  | some y =>
    have hy := List.mem_of_find?_eq_some hf
    have he : y.1 = x.1 := by simpa using List.find?_some hf
    rw [keys_unique hk hy hx he]
    rfl

theorem getObj_eq_slotObj (w : World) (h s : Nat) : w.getObj h s = slotObj (w.host! h).objs s := rfl

theorem keysNodup_update {o : List (Nat × Obj)} (hk : KeysNodup o) (s : Nat) (extra : List (Nat × Obj))
    (hx : ∀ x ∈ extra, x.1 = s) (hx1 : extra.length ≤ 1) : KeysNodup (o.filter (·.1 != s) ++ extra) := by
  unfold KeysNodup
  rw [List.pairwise_append]
  refine ⟨hk.sublist List.filter_sublist, ?_, ?_⟩
  · match extra, hx1 with
    | [], _ => exact List.Pairwise.nil
    | [a], _ => exact List.pairwise_singleton _ _
    | _ :: _ :: _, h => simp at h
  · intro a ha b hb
    have h1 := (List.mem_filter.mp ha).2
    have h2 := hx b hb
    simp at h1
    omega

/-- the object table changes at slot `s` only, and every port of the new tables has an owner that
    is still there. -/
theorem oks_update {u t u' t' : List Nat} {o : List (Nat × Obj)} (hk : OKs u t o) (s : Nat) (extra : List (Nat × Obj))
    (hx : ∀ x ∈ extra, x.1 = s) (hx1 : extra.length ≤ 1)
    (hu : ∀ p ∈ u', (∃ x ∈ o, x.1 ≠ s ∧ udpPortOf x.2 = some p) ∨ (∃ x ∈ extra, udpPortOf x.2 = some p))
    (ht : ∀ p ∈ t', (∃ x ∈ o, x.1 ≠ s ∧ lisPortOf x.2 = some p) ∨ (∃ x ∈ extra, lisPortOf x.2 = some p)) :
    OKs u' t' (o.filter (·.1 != s) ++ extra) := by
  refine ⟨fun p hp => ?_, fun p hp => ?_, keysNodup_update hk.2.2 s extra hx hx1⟩
  · rcases hu p hp with ⟨x, hxo, hne, e⟩ | ⟨x, hxe, e⟩
    · exact ⟨x, List.mem_append_left _ (List.mem_filter.mpr ⟨hxo, by simpa using hne⟩), e⟩
    · exact ⟨x, List.mem_append_right _ hxe, e⟩
  · rcases ht p hp with ⟨x, hxo, hne, e⟩ | ⟨x, hxe, e⟩
    · exact ⟨x, List.mem_append_left _ (List.mem_filter.mpr ⟨hxo, by simpa using hne⟩), e⟩
    · exact ⟨x, List.mem_append_right _ hxe, e⟩

/-- `setObj`: the new object owns every port the replaced one owned (if there was one). -/
theorem oks_set {u t : List Nat} {o : List (Nat × Obj)} (hk : OKs u t o) (s : Nat) (n : Obj)
    (hp : ∀ old, slotObj o s = some old →
      (∀ p, udpPortOf old = some p → udpPortOf n = some p) ∧ (∀ p, lisPortOf old = some p → lisPortOf n = some p)) :
    OKs u t (o.filter (·.1 != s) ++ [(s, n)]) := by
  refine oks_update hk s [(s, n)] (by simp) (by simp) (fun p hpu => ?_) (fun p hpt => ?_)
  · obtain ⟨x, hx, e⟩ := hk.1 p hpu
    by_cases hs : x.1 = s
    · have := slotObj_of_mem hk.2.2 hx
      rw [hs] at this
      exact Or.inr ⟨(s, n), by simp, (hp _ this).1 p e⟩
    · exact Or.inl ⟨x, hx, hs, e⟩
  · obtain ⟨x, hx, e⟩ := hk.2.1 p hpt
    by_cases hs : x.1 = s
    · have := slotObj_of_mem hk.2.2 hx
      rw [hs] at this
      exact Or.inr ⟨(s, n), by simp, (hp _ this).2 p e⟩
    · exact Or.inl ⟨x, hx, hs, e⟩

/-- `delObj` (+ unbinding): no remaining port belonged to the removed object. -/
theorem oks_del {u t u' t' : List Nat} {o : List (Nat × Obj)} (hk : OKs u t o) (s : Nat)
    (hu : ∀ p ∈ u', p ∈ u ∧ ∀ old, slotObj o s = some old → udpPortOf old ≠ some p)
    (ht : ∀ p ∈ t', p ∈ t ∧ ∀ old, slotObj o s = some old → lisPortOf old ≠ some p) :
    OKs u' t' (o.filter (·.1 != s)) := by
  have := oks_update (u' := u') (t' := t') hk s [] (by simp) (by simp) (fun p hpu => ?_) (fun p hpt => ?_)
  · simpa using this
  · obtain ⟨x, hx, e⟩ := hk.1 p (hu p hpu).1
    refine Or.inl ⟨x, hx, fun hs => ?_, e⟩
    have := slotObj_of_mem hk.2.2 hx
    rw [hs] at this
    exact (hu p hpu).2 _ this e
  · obtain ⟨x, hx, e⟩ := hk.2.1 p (ht p hpt).1
    refine Or.inl ⟨x, hx, fun hs => ?_, e⟩
    have := slotObj_of_mem hk.2.2 hx
    rw [hs] at this
    exact (ht p hpt).2 _ this e

/-! ### world level -/

theorem allOK_setHost (w : World) (h : Nat) (f : Host → Host) (hok : AllOK w)
    (hf : HostOK (w.host! h) → HostOK (f (w.host! h))) : AllOK (w.setHost h f) := by
  intro i
  rw [host!_setHost_eq]
  split
  · exact hf (hok h)
  · exact hok i

theorem allOK_setObj (w : World) (h s : Nat) (n : Obj) (hok : AllOK w)
    (hp : ∀ old, w.getObj h s = some old →
      (∀ p, udpPortOf old = some p → udpPortOf n = some p) ∧ (∀ p, lisPortOf old = some p → lisPortOf n = some p)) :
    AllOK (w.setObj h s n) :=
  allOK_setHost w h _ hok (fun hk => oks_set hk s n hp)

theorem allOK_delObj (w : World) (h s : Nat) (hok : AllOK w)
    (hp : ∀ old, w.getObj h s = some old → udpPortOf old = none ∧ lisPortOf old = none) :
    AllOK (w.delObj h s) :=
  allOK_setHost w h _ hok (fun hk => oks_del hk s
    (fun p hpu => ⟨hpu, fun old ho => by rw [(hp old ho).1]; exact fun e => nomatch e⟩)
    (fun p hpt => ⟨hpt, fun old ho => by rw [(hp old ho).2]; exact fun e => nomatch e⟩))

theorem allOK_setObj_same (w : World) (h s : Nat) (n old0 : Obj) (hok : AllOK w) (hg : w.getObj h s = some old0)
    (hu : udpPortOf n = udpPortOf old0) (hl : lisPortOf n = lisPortOf old0) : AllOK (w.setObj h s n) := by
  refine allOK_setObj w h s n hok (fun old ho => ?_)
  rw [hg] at ho
  cases ho
  rw [hu, hl]
  exact ⟨fun _ e => e, fun _ e => e⟩

theorem allOK_setObj_new (w : World) (h s : Nat) (n : Obj) (hok : AllOK w) (hg : w.getObj h s = none) :
    AllOK (w.setObj h s n) := by
  refine allOK_setObj w h s n hok (fun old ho => ?_)
  rw [hg] at ho
  cases ho

theorem allOK_delObj_noport (w : World) (h s : Nat) (old0 : Obj) (hok : AllOK w) (hg : w.getObj h s = some old0)
    (hu : udpPortOf old0 = none) (hl : lisPortOf old0 = none) : AllOK (w.delObj h s) := by
  refine allOK_delObj w h s hok (fun old ho => ?_)
  rw [hg] at ho
  cases ho
  exact ⟨hu, hl⟩

/-- rewriting the queue of one UDP bind in place. -/
theorem sh_udpQueue (w : World) (h bi : Nat) (q : List (Hex × Addr)) :
    Sh w (w.setHost h fun hs => { hs with udp := setAt hs.udp bi fun b => { b with queue := q } }) :=
  sh_setHost w h _ (Shrink.of_ports rfl (map_setAt _ _ _ _ (fun _ => rfl)) rfl)

/-! ### UDP receive calls (the stash lives in the object) -/

theorem allOK_opUdpTryRecv (w : World) (h s n : Nat) (hok : AllOK w) : AllOK (w.opUdpTryRecv h s n).1 := by
  unfold opUdpTryRecv
  split
  · next loc stash hg =>
    split
    · exact allOK_setObj_same w h s _ _ hok hg rfl rfl
    · split
      · exact hok
      · simp only
        split
        · exact hok
        · exact hok.sh (sh_udpQueue w h _ _)
  · exact hok

theorem allOK_opUdpReadable (w : World) (h s : Nat) (hok : AllOK w) : AllOK (w.opUdpReadable h s).1 := by
  unfold opUdpReadable
  split
  · next loc stash hg =>
    split
    · exact hok
    · split
      · exact hok
      · simp only
        split
        · exact hok
        · have hs := sh_udpQueue w h ‹Nat› ‹List (Hex × Addr)›
          exact allOK_setObj_same _ h s _ _ (hok.sh hs) ((hs.getObj_eq h s).trans hg) rfl rfl
  · exact hok

theorem allOK_opUdpRecv (w : World) (h s n : Nat) (hok : AllOK w) : AllOK (w.opUdpRecv h s n).1 := by
  unfold opUdpRecv
  simp only
  split
  · exact allOK_opUdpTryRecv _ h s n (allOK_opUdpReadable w h s hok)
  · exact allOK_opUdpReadable w h s hok

/-! ### TCP calls -/

theorem allOK_connectPoll (w : World) (h s : Nat) (hok : AllOK w) : AllOK (w.connectPoll h s).1 := by
  unfold connectPoll
  split
  · next id loc rem chan fcW hg =>
    split
    · exact hok
    · exact allOK_setObj_same w h s _ _ hok hg rfl rfl
    · simp only
      have h1 := allOK_delObj_noport w h s _ hok hg rfl rfl
      have h2 := h1.sh (sh_setChan _ chan fun c => { c with rxAlive := false })
      refine AllOK.sh ?_ (sh_tag _ "refused")
      split
      · exact h2.sh (sh_removeSock _ _ _ _)
      · exact h2.sh (sh_tag _ _)
  · exact hok

theorem allOK_opTcpConnect (w : World) (h s : Nat) (dst : Addr) (hok : AllOK w) (hn : w.getObj h s = none) :
    AllOK (w.opTcpConnect h s dst).1 := by
  unfold opTcpConnect
  simp only
  have s1 := sh_assignPort w h
  split
  · exact hok.sh s1
  · next p _ =>
    generalize ({ ip := if dst.ip.isLoopback = true then dst.ip else Ip.host h, port := p } : Addr) = loc
    split
    · exact hok.sh (s1.trans (sh_panic _ _))
    · have s2 := s1.trans (sh_newStream (w.assignPort h).2 h loc dst)
      generalize ((w.assignPort h).2.newStream h loc dst) = ns at s2 ⊢
      have s3 : Sh w { ns.2 with syns := ns.2.syns ++ [({} : SynCell)] } := s2.trans (sh_of_hosts rfl)
      generalize ({ ns.2 with syns := ns.2.syns ++ [({} : SynCell)] } : World) = w3 at s3 ⊢
      have s4 := s3.trans (sh_netSend w3 h { src := loc, dst := dst, msg := .syn ns.2.syns.length })
      split
      · refine AllOK.sh ?_ (sh_tag _ "refused")
        have s5 := s4.trans (sh_setChan _ ns.1.1 fun c => { c with rxAlive := false })
        split
        · exact hok.sh (s5.trans (sh_removeSock _ _ _ _))
        · exact hok.sh (s5.trans (sh_tag _ _))
      · apply allOK_connectPoll
        exact allOK_setObj_new _ h s _ (hok.sh s4) ((s4.getObj_eq h s).trans hn)

theorem allOK_opTcpAccept (w : World) (h ls s : Nat) (hok : AllOK w) (hn : w.getObj h s = none) :
    AllOK (w.opTcpAccept h ls s).1 := by
  unfold opTcpAccept
  split
  · next lloc hg =>
    simp only
    have s1 := sh_acceptLoop w h lloc.port
    generalize (w.acceptLoop h lloc.port) = al at s1 ⊢
    split
    · exact hok.sh s1
    · next r _ =>
      generalize (if (if r.src.ip.isLoopback = true then { ip := r.src.ip, port := lloc.port } else lloc).ip.isUnspecified = true then
          { ip := Ip.host h, port := (if r.src.ip.isLoopback = true then { ip := r.src.ip, port := lloc.port } else lloc).port }
        else if r.src.ip.isLoopback = true then { ip := r.src.ip, port := lloc.port } else lloc : Addr) = my
      split
      · exact hok.sh (s1.trans (sh_panic _ _))
      · have s2 := s1.trans (sh_newStream al.1 h my r.src)
        generalize (al.1.newStream h my r.src) = ns at s2 ⊢
        split
        · exact hok.sh (s2.trans (sh_panic _ _))
        · split
          · exact hok.sh (s2.trans (sh_panic _ _))
          · exact allOK_setObj_new _ h s _ (hok.sh s2) ((s2.getObj_eq h s).trans hn)
  · exact hok

theorem allOK_opTcpShutdown (w : World) (h s : Nat) (hok : AllOK w) : AllOK (w.opTcpShutdown h s).1 := by
  unfold opTcpShutdown
  split
  · next rd x hg =>
    split
    · exact hok
    · split
      · exact hok
      · next i _ =>
        simp only
        have s1 := (sh_setHost_eq w h (fun hs => { hs with socks := setAt hs.socks i fun s => { s with nextSendSeq := s.nextSendSeq + 1 } })
          rfl rfl rfl)
        have s2 := s1.trans (sh_netSend _ h { src := x.loc, dst := x.rem, msg := .fin ((w.host! h).socks.getD i default).nextSendSeq })
        split
        · exact allOK_setObj_same _ h s _ _ (hok.sh s2) ((s2.getObj_eq h s).trans hg) rfl rfl
        · exact hok.sh s2
  · exact hok

theorem allOK_opDropRead (w : World) (h s : Nat) (hok : AllOK w) : AllOK (w.opDropRead h s).1 := by
  unfold opDropRead
  split
  · next r wr hg =>
    simp only
    refine AllOK.sh ?_ (sh_dropRead _ h r)
    split
    · exact allOK_setObj_same w h s _ _ hok hg rfl rfl
    · exact allOK_delObj_noport w h s _ hok hg rfl rfl
  · exact hok

theorem allOK_opDropWrite (w : World) (h s : Nat) (hok : AllOK w) : AllOK (w.opDropWrite h s).1 := by
  unfold opDropWrite
  split
  · next rd x hg =>
    simp only
    refine AllOK.sh ?_ (sh_dropWrite _ h x)
    split
    · exact allOK_setObj_same w h s _ _ hok hg rfl rfl
    · exact allOK_delObj_noport w h s _ hok hg rfl rfl
  · exact hok

theorem allOK_opTcpRead (w : World) (h s n : Nat) (peek : Bool) (hok : AllOK w) : AllOK (w.opTcpRead h s n peek).1 := by
  unfold opTcpRead
  split
  · next r wr hg =>
    split
    · exact hok
    · split
      · split
        · exact hok
        · exact allOK_setObj_same w h s _ _ hok hg rfl rfl
      · simp only
        split
        · next seg rest _ =>
          have s1 := sh_setChan w r.chan fun c => { c with items := rest }
          split
          · next b _ =>
            simp only
            refine AllOK.sh ?_ (sh_redrain _ h r)
            have s2 : Sh w { (w.setChan r.chan fun c => { c with items := rest }) with
                fcs := setAt (w.setChan r.chan fun c => { c with items := rest }).fcs r.fc (· + 1) } := s1.trans (sh_of_hosts rfl)
            have s3 := s2.trans (sh_ite (hexLen b > n) (sh_tag _ "partialread") (Sh.refl _))
            exact allOK_setObj_same _ h s _ _ (hok.sh s3) ((s3.getObj_eq h s).trans hg) rfl rfl
          · refine AllOK.sh ?_ (sh_redrain _ h r)
            refine AllOK.sh ?_ (sh_tag _ "eof")
            exact allOK_setObj_same _ h s _ _ (hok.sh s1) ((s1.getObj_eq h s).trans hg) rfl rfl
        · split
          · exact hok.sh (sh_tag _ _)
          · exact hok
  · exact hok

/-! ### binding -/

theorem setAt_setAt {α : Type} (l : List α) (i : Nat) (f g : α → α) :
    setAt (setAt l i f) i g = setAt l i (fun a => g (f a)) := by
  induction l generalizing i with
  | nil => rfl
  | cons x xs ih => cases i <;> simp [setAt, ih]

theorem setHost_setHost (w : World) (h : Nat) (f g : Host → Host) :
    (w.setHost h f).setHost h g = w.setHost h (fun a => g (f a)) := by
  unfold setHost
  simp only [setAt_setAt]

theorem slotObj_none {o : List (Nat × Obj)} {s : Nat} (hn : slotObj o s = none) : ∀ x ∈ o, x.1 ≠ s := by
  intro x hx e
  unfold slotObj at hn
  cases hf : o.find? (·.1 == s) with
  | none =>
    have := List.find?_eq_none.mp hf x hx
    simp [e] at this
  | some y => simp [hf] at hn

theorem allOK_udpBindCore (w : World) (h s : Nat) (a' : Addr) (hok : AllOK w) (hn : w.getObj h s = none) :
    AllOK ((w.setHost h (fun hs => { hs with udp := hs.udp ++ [{ port := a'.port, bindAddr := a' }] })).setObj h s
      (.udp a' none)) := by
  unfold setObj
  rw [setHost_setHost]
  refine allOK_setHost w h _ hok (fun hk => ?_)
  have hne := slotObj_none hn
  refine oks_update hk s [(s, .udp a' none)] (by simp) (by simp) (fun p hp => ?_) (fun p hp => ?_)
  · simp only [uports, List.map_append, List.mem_append, List.map_cons, List.map_nil, List.mem_singleton] at hp
    rcases hp with hp | rfl
    · obtain ⟨x, hx, e⟩ := hk.1 p hp
      exact Or.inl ⟨x, hx, hne x hx, e⟩
    · exact Or.inr ⟨_, List.mem_singleton.mpr rfl, rfl⟩
  · obtain ⟨x, hx, e⟩ := hk.2.1 p hp
    exact Or.inl ⟨x, hx, hne x hx, e⟩

theorem allOK_tcpBindCore (w : World) (h s : Nat) (a' : Addr) (hok : AllOK w) (hn : w.getObj h s = none) :
    AllOK ((w.setHost h (fun hs => { hs with tcpBinds := hs.tcpBinds ++ [{ port := a'.port, bindAddr := a' }] })).setObj h s
      (.listener a')) := by
  unfold setObj
  rw [setHost_setHost]
  refine allOK_setHost w h _ hok (fun hk => ?_)
  have hne := slotObj_none hn
  refine oks_update hk s [(s, .listener a')] (by simp) (by simp) (fun p hp => ?_) (fun p hp => ?_)
  · obtain ⟨x, hx, e⟩ := hk.1 p hp
    exact Or.inl ⟨x, hx, hne x hx, e⟩
  · simp only [tports, List.map_append, List.mem_append, List.map_cons, List.map_nil, List.mem_singleton] at hp
    rcases hp with hp | rfl
    · obtain ⟨x, hx, e⟩ := hk.2.1 p hp
      exact Or.inl ⟨x, hx, hne x hx, e⟩
    · exact Or.inr ⟨_, List.mem_singleton.mpr rfl, rfl⟩

theorem allOK_opUdpBind (w : World) (h s : Nat) (a : Addr) (hok : AllOK w) (hn : w.getObj h s = none) :
    AllOK (w.opUdpBind h s a).1 := by
  unfold opUdpBind
  split
  · exact hok
  · simp only
    have s1 : Sh w (if (a.port == 0) = true then w.assignPort h else (some a.port, w)).2 := by
      split
      · exact sh_assignPort w h
      · exact Sh.refl w
    generalize (if (a.port == 0) = true then w.assignPort h else (some a.port, w)) = r at s1 ⊢
    split
    · exact hok.sh s1
    · next p _ =>
      split
      · exact hok.sh (s1.trans (sh_tag _ _))
      · exact allOK_udpBindCore r.2 h s { ip := a.ip, port := p } (hok.sh s1) ((s1.getObj_eq h s).trans hn)

theorem allOK_opTcpBind (w : World) (h s : Nat) (a : Addr) (hok : AllOK w) (hn : w.getObj h s = none) :
    AllOK (w.opTcpBind h s a).1 := by
  unfold opTcpBind
  split
  · exact hok
  · simp only
    have s1 : Sh w (if (a.port == 0) = true then w.assignPort h else (some a.port, w)).2 := by
      split
      · exact sh_assignPort w h
      · exact Sh.refl w
    generalize (if (a.port == 0) = true then w.assignPort h else (some a.port, w)) = r at s1 ⊢
    split
    · exact hok.sh s1
    · next p _ =>
      split
      · exact hok.sh (s1.trans (sh_tag _ _))
      · exact allOK_tcpBindCore r.2 h s { ip := a.ip, port := p } (hok.sh s1) ((s1.getObj_eq h s).trans hn)

/-! ### destructors -/

theorem allOK_opDrop (w : World) (h s : Nat) (hok : AllOK w) : AllOK (w.opDrop h s).1 := by
  unfold opDrop
  split
  · next o hg =>
    simp only
    intro i
    have S := sh_dropObj (w.delObj h s) h o
    by_cases c : i = h ∧ h < w.hosts.length
    · obtain ⟨rfl, hh⟩ := c
      have hh1 : i < (w.delObj i s).hosts.length := by simpa [delObj, setHost] using hh
      have e1 : (w.delObj i s).host! i = { w.host! i with objs := (w.host! i).objs.filter (·.1 != s) } := by
        unfold delObj; exact host!_setHost_self w i _ hh
      have hb := dropObj_binds i (w.delObj i s) o hh1
      have ho := S.objs_eq i
      rw [e1] at hb ho
      simp only at hb ho
      unfold HostOK uports tports
      rw [ho, hb.1, hb.2]
      refine oks_del (hok i) s (fun p hp => ?_) (fun p hp => ?_)
      · obtain ⟨b, hb', rfl⟩ := List.mem_map.mp hp
        obtain ⟨hbm, hbk⟩ := List.mem_filter.mp hb'
        refine ⟨List.mem_map.mpr ⟨b, hbm, rfl⟩, fun old hso e => ?_⟩
        rw [← getObj_eq_slotObj, hg] at hso
        cases hso
        simp [udpKeep, e] at hbk
      · obtain ⟨b, hb', rfl⟩ := List.mem_map.mp hp
        obtain ⟨hbm, hbk⟩ := List.mem_filter.mp hb'
        refine ⟨List.mem_map.mpr ⟨b, hbm, rfl⟩, fun old hso e => ?_⟩
        rw [← getObj_eq_slotObj, hg] at hso
        cases hso
        simp [lisKeep, e] at hbk
    · have e1 : (w.delObj h s).host! i = w.host! i := by
        unfold delObj; rw [host!_setHost_eq]; simp only [c, if_false]
      have := S.2 i
      rw [e1] at this
      exact (hok i).shrink this
  · exact hok

theorem sh_dropAll_rest (w : World) (h : Nat) :
    Sh (w.setHost h fun hs => { hs with objs := [], lo := [] }) (w.dropAll h) := by
  unfold dropAll
  exact (sh_dropEnvs _ _).trans (sh_foldl_dropObj h _ _)

theorem allOK_dropAll (w : World) (h : Nat) (hok : AllOK w) : AllOK (w.dropAll h) := by
  intro i
  have S := sh_dropAll_rest w h
  by_cases c : i = h ∧ h < w.hosts.length
  · obtain ⟨rfl, hh⟩ := c
    have ho := S.objs_eq i
    rw [host!_setHost_self w i _ hh] at ho
    have hb := dropAll_releases_binds i w hh (hok i).bindsOwned
    unfold HostOK uports tports
    rw [ho, hb.1, hb.2]
    exact ⟨fun _ hp => (by cases hp), fun _ hp => (by cases hp), List.Pairwise.nil⟩
  · have e1 : (w.setHost h fun hs => { hs with objs := [], lo := [] }).host! i = w.host! i := by
      rw [host!_setHost_eq]; simp only [c, if_false]
    have := S.2 i
    rw [e1] at this
    exact (hok i).shrink this

theorem allOK_exit (w : World) (h : Nat) (hok : AllOK w) :
    AllOK ((w.dropAll h).setHost h (fun hs => { hs with exited := true })) :=
  (allOK_dropAll w h hok).sh (sh_setHost_eq _ h _ rfl rfl rfl)

theorem allOK_crash (w : World) (h : Nat) (hok : AllOK w) : AllOK (w.crash h) := by
  unfold crash
  refine AllOK.sh ?_ (sh_setHost_eq _ h _ rfl rfl rfl)
  split
  · exact allOK_dropAll w h hok
  · exact hok

theorem allOK_bounce (w : World) (h : Nat) (hok : AllOK w) : AllOK (w.bounce h) := by
  unfold bounce
  exact (allOK_dropAll w h hok).sh (sh_setHost_eq _ h _ rfl rfl rfl)

theorem allOK_register (w : World) (ip : Nat) (c : Bool) (hok : AllOK w) : AllOK (w.register ip c) := by
  intro i
  unfold register host!
  simp only
  rw [List.getD_eq_getElem?_getD]
  rcases Nat.lt_trichotomy i w.hosts.length with hlt | heq | hgt
  · rw [List.getElem?_append_left hlt]
    have := hok i
    unfold host! at this
    rwa [List.getD_eq_getElem?_getD] at this
  · subst heq
    simp only [List.getElem?_append_right (Nat.le_refl _), Nat.sub_self, List.getElem?_cons_zero, Option.getD_some]
    exact ⟨fun _ hp => (by cases hp), fun _ hp => (by cases hp), List.Pairwise.nil⟩
  · rw [List.getElem?_eq_none (by simp; omega)]
    exact hostOK_default

/-! ### every transition -/

theorem getObj_free {w : World} {h s : Nat} (hb : ¬ (w.getObj h s).isSome = true) : w.getObj h s = none := by
  cases hg : w.getObj h s with
  | none => rfl
  | some o => simp [hg] at hb

theorem allOK_applyHOp (w : World) (h : Nat) (op : HOp) (hok : AllOK w) : AllOK (applyHOp w h op).1 := by
  cases op with
  | udpBind s a =>
    show AllOK (if (w.getObj h s).isSome = true then (w, "err slotbusy") else w.opUdpBind h s a).1
    split
    · exact hok
    · next hb => exact allOK_opUdpBind w h s a hok (getObj_free hb)
  | tcpBind s a =>
    show AllOK (if (w.getObj h s).isSome = true then (w, "err slotbusy") else w.opTcpBind h s a).1
    split
    · exact hok
    · next hb => exact allOK_opTcpBind w h s a hok (getObj_free hb)
  | tcpConnect s a =>
    show AllOK (if (w.getObj h s).isSome = true then (w, "err slotbusy") else w.opTcpConnect h s a).1
    split
    · exact hok
    · next hb => exact allOK_opTcpConnect w h s a hok (getObj_free hb)
  | tcpAccept ls s =>
    show AllOK (if (w.getObj h s).isSome = true then (w, "err slotbusy") else w.opTcpAccept h ls s).1
    split
    · exact hok
    · next hb => exact allOK_opTcpAccept w h ls s hok (getObj_free hb)
  | udpSend s a p => exact hok.sh (sh_opUdpSend w h s a p)
  | udpTryRecv s n => exact allOK_opUdpTryRecv w h s n hok
  | udpRecv s n => exact allOK_opUdpRecv w h s n hok
  | udpReadable s => exact allOK_opUdpReadable w h s hok
  | udpConnect s a => exact hok.sh (sh_opUdpConnect w h s a)
  | udpBcast s on => exact hok.sh (sh_opUdpSetBcast w h s on)
  | udpMloop s on => exact hok.sh (sh_opUdpSetMloop w h s on)
  | udpJoin s g i => exact hok.sh (sh_opUdpJoin w h s g i)
  | udpLeave s g i => exact hok.sh (sh_opUdpLeave w h s g i)
  | tcpCPoll s => exact allOK_connectPoll w h s hok
  | tcpWrite s p => exact hok.sh (sh_opTcpWrite w h s p _)
  | tcpSplit s => exact hok
  | tcpReunite s => exact hok
  | tcpPWrite s p => exact hok.sh (sh_opTcpWrite w h s p true)
  | tcpShutdown s => exact allOK_opTcpShutdown w h s hok
  | tcpRead s n => exact allOK_opTcpRead w h s n false hok
  | tcpPeek s n => exact allOK_opTcpRead w h s n true hok
  | drop s => exact allOK_opDrop w h s hok
  | tcpDropR s => exact allOK_opDropRead w h s hok
  | tcpDropW s => exact allOK_opDropWrite w h s hok
  | count => exact hok
  | countOf a => exact hok
  | spawnTicker => exact hok
  | select4 => exact hok
  | exit => exact allOK_exit w h hok
  | net op a b => exact hok.sh (sh_netCtl op w a b)
  | sleep ms =>
    show AllOK (hopSleep w h ms).1
    exact hok.sh (sh_hopSleep w h ms)
  | clock => exact hok
  | lookup name => exact hok.sh (sh_dnsLookup w name)
  | unknown => exact hok

theorem allOK_applyStep (w : World) (st : Step) (hok : AllOK w) : AllOK (applyStep w st) := by
  cases st with
  | host h op => exact allOK_applyHOp w h op hok
  | register ip c => exact allOK_register w ip c hok
  | dns name => exact hok.sh (sh_dnsLookup w name)
  | stepBegin => exact hok.sh (sh_stepBegin w)
  | stepEnd => exact hok.sh (sh_stepEnd w)
  | crash h => exact allOK_crash w h hok
  | bounce h => exact allOK_bounce w h hok
  | link op x y => exact hok.sh (sh_netCtl op w x y)
  | linkPairs op xs ys => exact hok.sh (sh_forPairs w xs ys op.apply (fun w x y => sh_netCtl op w x y))
  | deliver x y i => exact hok.sh (sh_ctlDeliver w x y i)
  | deliverAll x y => exact hok.sh (sh_ctlDeliverAll w x y)
  | turn h => exact hok.sh (sh_turnStep w h)
  | loDeliver h i => exact hok.sh (sh_loStep w h i)

theorem allOK_init (w0 : World) (h0 : w0.hosts = []) : AllOK w0 := by
  intro i
  rw [host!_of_ge w0 i (by simp [h0])]
  exact hostOK_default

end TV.C04
