import TvCore.Proofs.C04ReachSocksBase
/-
  `FrS` for the functions of the World model that neither create stream sockets nor write the
  object table.
-/
namespace TV.C04
open TV TV.World

@[simp] theorem panicked_tag (w : World) (t : String) : (w.tag t).panicked = w.panicked := by unfold tag; split <;> rfl
@[simp] theorem panicked_dropSyn (w : World) (id : Nat) : (w.dropSyn id).panicked = w.panicked := rfl
@[simp] theorem panicked_dropEnvs (w : World) (es : List Env) : (w.dropEnvs es).panicked = w.panicked := by
  unfold dropEnvs
  induction es generalizing w with
  | nil => rfl
  | cons e es ih =>
    simp only [List.foldl_cons]
    rw [ih]
    cases e.msg <;> simp
@[simp] theorem panicked_popFail (w : World) : (w.popFail).2.panicked = w.panicked := by unfold popFail; split <;> rfl
@[simp] theorem panicked_popRepair (w : World) : (w.popRepair).2.panicked = w.panicked := by unfold popRepair; split <;> rfl
@[simp] theorem panicked_popDelay (w : World) : (w.popDelay).2.panicked = w.panicked := by unfold popDelay; split <;> rfl
@[simp] theorem panicked_linkEnqueue (w : World) (li s d : Nat) (e : Env) : (w.linkEnqueue li s d e).panicked = w.panicked := by
  unfold linkEnqueue
  split
  · rfl
  · simp only
    repeat' split
    all_goals simp
@[simp] theorem panicked_sendMessage (w : World) (e : Env) : (w.sendMessage e).2.panicked = w.panicked := by
  unfold sendMessage
  repeat' split
  all_goals simp

theorem frs_setChan (w : World) (c : Nat) (f : Chan → Chan) : FrS w (w.setChan c f) := frs_of_eq rfl rfl rfl
theorem frs_dropSyn (w : World) (id : Nat) : FrS w (w.dropSyn id) := frs_of_eq rfl rfl rfl
theorem frs_dropEnvs (w : World) (es : List Env) : FrS w (w.dropEnvs es) :=
  frs_of_eq (hosts_dropEnvs w es) (cfg_dropEnvs w es) (panicked_dropEnvs w es)
theorem frs_linkEnqueue (w : World) (li s d : Nat) (e : Env) : FrS w (w.linkEnqueue li s d e) :=
  frs_of_eq (hosts_linkEnqueue w li s d e) (cfg_linkEnqueue w li s d e) (panicked_linkEnqueue w li s d e)
theorem frs_sendMessage (w : World) (e : Env) : FrS w (w.sendMessage e).2 :=
  frs_of_eq (hosts_sendMessage w e) (cfg_sendMessage w e) (panicked_sendMessage w e)

theorem ats_setAtSocks (hs : Host) (i : Nat) (f : Sock → Sock)
    (hp : ∀ s, pairOf (f s) = pairOf s) (hr : ∀ s, (f s).refCt ≤ s.refCt) :
    AtS hs { hs with socks := setAt hs.socks i f } := ⟨rfl, sockLe_setAt _ _ _ hp hr⟩

theorem ats_bumpSeq (hs : Host) (i : Nat) :
    AtS hs { hs with socks := setAt hs.socks i fun s => { s with nextSendSeq := s.nextSendSeq + 1 } } :=
  ats_setAtSocks hs i _ (fun _ => rfl) (fun _ => Nat.le_refl _)

theorem ats_setBuf (hs : Host) (i : Nat) (buf : List (Nat × Seg)) (rs : Nat) :
    AtS hs { hs with socks := setAt hs.socks i fun s => { s with buf := buf, recvSeq := rs } } :=
  ats_setAtSocks hs i _ (fun _ => rfl) (fun _ => Nat.le_refl _)

theorem frs_sendLoopback (w : World) (h : Nat) (e : Env) : FrS w (w.sendLoopback h e) :=
  (frs_setHost_eq w h _ rfl rfl).trans (frs_tag _ _)

theorem frs_netSend (w : World) (h : Nat) (e : Env) : FrS w (w.netSend h e).2 := by
  unfold netSend
  split
  · exact frs_sendLoopback w h e
  · exact frs_sendMessage w e

theorem frs_assignPort (w : World) (h : Nat) : FrS w (w.assignPort h).2 := by
  unfold assignPort
  simp only
  have h1 := frs_setHost_eq w h (fun hs => { hs with nextEph := (assignEphemeral w.cfg.ephLo w.cfg.ephHi
    (fun p => udpPortUsed (w.host! h) p || tcpPortUsed (w.host! h) p) (w.host! h).nextEph).2 }) rfl rfl
  have h2 := frs_ite (w := w) ((assignEphemeral w.cfg.ephLo w.cfg.ephHi
    (fun p => udpPortUsed (w.host! h) p || tcpPortUsed (w.host! h) p) (w.host! h).nextEph).2 ≤ (w.host! h).nextEph)
    (h1.trans (frs_tag _ "wrap")) h1
  split
  · exact h2
  · exact h2.trans (frs_panic _ _)

theorem frs_removeSock (w : World) (h : Nat) (loc rem : Addr) : FrS w (w.removeSock h loc rem) := by
  unfold removeSock
  split
  · exact FrS.refl w
  · exact (frs_setHost w h _ ⟨rfl, sockLe_eraseIdx _ _⟩).trans (frs_setChan _ _ _)

theorem frs_closeStreamHalf (w : World) (h : Nat) (loc rem : Addr) : FrS w (w.closeStreamHalf h loc rem) := by
  unfold closeStreamHalf
  simp only
  have h1 : FrS w (w.setHost h fun hs => { hs with socks := (closeHalfList (w.host! h).socks loc rem).1 }) :=
    frs_setHost w h _ ⟨rfl, sockLe_closeHalf _ _ _⟩
  split
  · exact h1.trans (frs_setChan _ _ _)
  · exact h1

theorem frs_sockBuffer (w : World) (h i seq : Nat) (seg : Seg) : FrS w (w.sockBuffer h i seq seg).2 := by
  unfold sockBuffer
  simp only
  refine FrS.trans ?_ (frs_setChan _ _ _)
  refine FrS.trans ?_ (frs_setHost _ h _ (ats_setBuf _ _ _ _))
  refine FrS.trans ?_ (frs_ite _ (frs_tag _ _) (FrS.refl _))
  refine FrS.trans ?_ (frs_ite _ (frs_tag _ _) (FrS.refl _))
  exact frs_ite _ (frs_panic _ _) (FrS.refl _)

theorem ats_udpReceive (cap : Nat) (hs : Host) (src dst : Addr) (p : Hex) :
    AtS hs (udpReceive cap hs src dst p).1 := by
  unfold udpReceive
  split
  · exact AtS.refl _
  · unfold udpReceiveAt
    repeat' split
    all_goals exact AtS.of_eq rfl rfl

theorem frs_receive (w : World) (h : Nat) (e : Env) : FrS w (w.receive h e).2 := by
  unfold receive
  simp only
  split
  · split
    · exact (frs_dropSyn _ _).trans (frs_tag _ _)
    · split
      · exact FrS.trans (frs_ite _ (frs_panic _ _) (FrS.refl _)) (frs_setHost_eq _ h _ rfl rfl)
      · exact ((frs_ite _ (frs_panic _ _) (FrS.refl _)).trans (frs_dropSyn _ _)).trans (frs_tag _ _)
  · split
    · exact frs_sockBuffer _ _ _ _ _
    · exact frs_tag _ _
  · split
    · exact frs_sockBuffer _ _ _ _ _
    · exact frs_tag _ _
  · exact (frs_removeSock _ _ _ _).trans (frs_tag _ _)
  · next p _ =>
    refine FrS.trans (frs_setHost w h (fun _ => (udpReceive w.cfg.udpCap (w.host! h) e.src e.dst p).1)
      (ats_udpReceive _ _ _ _ _)) ?_
    exact frs_ite _ (FrS.refl _) (frs_tag _ _)

theorem frs_deliverTo (w : World) (h : Nat) : FrS w (w.deliverTo h).2 := by
  unfold deliverTo
  simp only
  generalize (List.filter _ _) = idxs
  suffices H : ∀ (l : List Nat) (acc : List Env × World), FrS w acc.2 →
      FrS w (l.foldl (fun (acc : List Env × World) li =>
        match acc.2.links[li]? with
        | none => (acc.1, acc.2)
        | some l =>
          (acc.1 ++ (l.drain (w.host! h).ipnum).2.map (·.msg),
           (l.drain (w.host! h).ipnum).2.foldl (fun w (s : Sent Env) =>
              if (w.receive h s.msg).1 = true then
                (w.receive h s.msg).2.linkEnqueue li s.dst s.src { src := s.msg.dst, dst := s.msg.src, msg := .rst }
              else (w.receive h s.msg).2)
            { acc.2 with links := setAt acc.2.links li (fun _ => (l.drain (w.host! h).ipnum).1) })) acc).2 from
    H idxs ([], w) (FrS.refl w)
  intro l
  induction l with
  | nil => intro acc ha; exact ha
  | cons li ls ih =>
    intro acc ha
    simp only [List.foldl_cons]
    apply ih
    split
    · exact ha
    · refine ha.trans (FrS.trans (frs_of_eq rfl rfl rfl) (frs_foldl _ (fun w s => ?_) _ _))
      split
      · exact (frs_receive _ _ _).trans (frs_linkEnqueue _ _ _ _ _)
      · exact frs_receive _ _ _

/-! ### destructors (as frames: they only remove entries / lower counts) -/

theorem frs_mgLeaveAll (w : World) (m : Addr) : FrS w (w.mgLeaveAll m) := frs_of_eq rfl rfl rfl

theorem frs_udpUnbind (w : World) (h port : Nat) : FrS w (w.udpUnbind h port) := by
  unfold udpUnbind
  exact FrS.trans (frs_ite _ (FrS.refl _) (frs_panic _ _)) (frs_setHost_eq _ h _ rfl rfl)

theorem frs_foldl_dropSyn (l : List SynReq) (w : World) : FrS w (l.foldl (fun w s => w.dropSyn s.id) w) :=
  frs_foldl _ (fun w s => frs_dropSyn w s.id) l w

theorem frs_tcpUnbind (w : World) (h port : Nat) : FrS w (w.tcpUnbind h port) := by
  unfold tcpUnbind
  split
  · exact frs_panic _ _
  · exact FrS.trans (frs_setHost_eq _ h _ rfl rfl) (frs_foldl_dropSyn _ _)

theorem frs_dropRead (w : World) (h : Nat) (r : RdH) : FrS w (w.dropRead h r) := by
  unfold dropRead
  simp only
  refine FrS.trans (frs_setChan w r.chan _) (frs_ite _ ?_ (frs_closeStreamHalf _ _ _ _))
  exact ((frs_netSend _ _ _).trans (frs_removeSock _ _ _ _)).trans (frs_tag _ _)

theorem frs_dropWrite (w : World) (h : Nat) (x : WrH) : FrS w (w.dropWrite h x) := by
  unfold dropWrite
  refine FrS.trans ?_ (frs_closeStreamHalf _ _ _ _)
  split
  · split
    · exact (frs_setHost w h _ (ats_bumpSeq _ _)).trans (frs_netSend _ _ _)
    · exact FrS.refl w
  · exact FrS.refl w

theorem frs_dropObj (w : World) (h : Nat) (o : Obj) : FrS w (w.dropObj h o) := by
  unfold dropObj
  cases o with
  | udp loc stash => exact (frs_mgLeaveAll w _).trans (frs_udpUnbind _ _ _)
  | listener loc => exact frs_tcpUnbind w _ _
  | connecting id loc rem chan fcW =>
    simp only
    have h1 : FrS w { w with syns := setAt w.syns id fun c => { c with rxAlive := false } } := frs_of_eq rfl rfl rfl
    have h3 := (h1.trans (frs_setChan _ chan fun c => { c with rxAlive := false })).trans (frs_tag _ "connectdropped")
    split
    · exact h3.trans (frs_removeSock _ _ _ _)
    · exact h3
  | stream rd wr =>
    simp only
    have h1 : FrS w (match rd with | some r => w.dropRead h r | none => w) := by
      cases rd with
      | some r => exact frs_dropRead w h r
      | none => exact FrS.refl w
    cases wr with
    | some x => exact h1.trans (frs_dropWrite _ h x)
    | none => exact h1

theorem frs_foldl_dropObj (h : Nat) (objs : List (Nat × Obj)) (w : World) :
    FrS w (objs.foldl (fun w p => w.dropObj h p.2) w) :=
  frs_foldl _ (fun w p => frs_dropObj w h p.2) objs w

/-! ### host-level calls that are frames -/

theorem frs_udpFanout (h : Nat) (src : Addr) (p : Hex) (loopOk : Addr → Bool) (ds : List Addr) (w : World) :
    FrS w (udpFanout w h src p loopOk ds).1 := by
  induction ds generalizing w with
  | nil => exact FrS.refl w
  | cons d ds ih =>
    unfold udpFanout
    split
    · exact FrS.trans (frs_ite _ (frs_sendLoopback _ _ _) (FrS.refl _)) (ih _)
    · simp only
      split
      · exact (frs_sendMessage _ _).trans (ih _)
      · exact frs_sendMessage _ _

theorem frs_opUdpSend (w : World) (h s : Nat) (dst : Addr) (p : Hex) : FrS w (w.opUdpSend h s dst p).1 := by
  unfold opUdpSend
  simp only
  repeat' split
  all_goals first
    | exact FrS.refl w
    | exact (frs_tag w _).trans (frs_udpFanout _ _ _ _ _ _)
    | exact frs_netSend _ _ _

theorem frs_opUdpConnect (w : World) (h s : Nat) (dst : Addr) : FrS w (w.opUdpConnect h s dst).1 := by
  unfold opUdpConnect
  split
  · exact frs_setHost_eq w h _ rfl rfl
  · exact FrS.refl w

theorem frs_opUdpSetBcast (w : World) (h s : Nat) (on : Bool) : FrS w (w.opUdpSetBcast h s on).1 := by
  unfold opUdpSetBcast
  split
  · exact frs_setHost_eq w h _ rfl rfl
  · exact FrS.refl w

theorem frs_opUdpSetMloop (w : World) (h s : Nat) (on : Bool) : FrS w (w.opUdpSetMloop h s on).1 := by
  unfold opUdpSetMloop
  split
  · exact frs_setHost_eq w h _ rfl rfl
  · exact FrS.refl w

theorem frs_opUdpJoin (w : World) (h s : Nat) (g iface : Ip) : FrS w (w.opUdpJoin h s g iface).1 := by
  unfold opUdpJoin
  repeat' split
  all_goals exact frs_of_eq rfl rfl rfl

theorem frs_opUdpLeave (w : World) (h s : Nat) (g iface : Ip) : FrS w (w.opUdpLeave h s g iface).1 := by
  unfold opUdpLeave
  simp only
  repeat' split
  all_goals exact frs_of_eq rfl rfl rfl

theorem frs_tryWrite (w : World) (h : Nat) (x : WrH) (p : Hex) : FrS w (w.tryWrite h x p).1 := by
  unfold tryWrite
  simp only
  have h1 : FrS w { w with fcs := setAt w.fcs x.fc (· - 1) } := frs_of_eq rfl rfl rfl
  repeat' split
  all_goals first
    | exact FrS.refl w
    | exact frs_tag w _
    | exact h1
    | exact (h1.trans (frs_setHost _ h _ (ats_bumpSeq _ _))).trans (frs_netSend _ _ _)

theorem frs_opTcpWrite (w : World) (h s : Nat) (p : Hex) (poll : Bool) : FrS w (w.opTcpWrite h s p poll).1 := by
  unfold opTcpWrite
  simp only
  repeat' split
  all_goals first
    | exact FrS.refl w
    | exact frs_tryWrite _ _ _ _

theorem frs_redrain (w : World) (h : Nat) (r : RdH) : FrS w (w.redrain h r) := by
  unfold redrain
  split
  · exact FrS.refl w
  · split
    · exact FrS.refl w
    · simp only
      exact (frs_setHost _ h _ (ats_setBuf _ _ _ _)).trans (frs_setChan _ _ _)

theorem frs_acceptLoop (w : World) (h port : Nat) : FrS w (w.acceptLoop h port).1 := by
  unfold acceptLoop
  split
  · exact frs_panic _ _
  · next bi _ =>
    simp only
    have h1 : FrS w (w.setHost h fun hs => { hs with tcpBinds := setAt hs.tcpBinds bi fun b =>
        { b with deque := (acceptPick w.synAlive ((w.host! h).tcpBinds.getD bi default).deque).2 } }) :=
      frs_setHost_eq w h _ rfl rfl
    have h2 := h1.trans (frs_ite (((w.host! h).tcpBinds.getD bi default).deque.length -
        (acceptPick w.synAlive ((w.host! h).tcpBinds.getD bi default).deque).2.length -
        (if (acceptPick w.synAlive ((w.host! h).tcpBinds.getD bi default).deque).1.isSome = true then 1 else 0) > 0)
        (frs_tag _ "skipdead") (FrS.refl _))
    split
    · exact h2.trans (frs_of_eq rfl rfl rfl)
    · exact h2

theorem frs_onLink (w : World) (x y : Nat) (f : Link Env → Link Env × List (Sent Env)) : FrS w (w.onLink x y f) := by
  unfold onLink
  simp only
  split
  · exact frs_panic _ _
  · split
    · exact FrS.refl w
    · exact FrS.trans (frs_of_eq rfl rfl rfl) (frs_dropEnvs _ _)

theorem frs_netCtl (op : NetCtl) (w : World) (x y : Nat) : FrS w (op.apply w x y) := by
  cases op <;> exact frs_onLink w x y _

theorem frs_forPairs (w : World) (xs ys : List Nat) (f : World → Nat → Nat → World) (hf : ∀ w x y, FrS w (f w x y)) :
    FrS w (w.forPairs xs ys f) := by
  unfold forPairs
  refine frs_foldl _ (fun w x => frs_foldl _ (fun w y => ?_) _ _) _ _
  exact frs_ite _ (hf _ _ _) (FrS.refl _)

theorem frs_ctlDeliver (w : World) (x y i : Nat) : FrS w (w.ctlDeliver x y i) := frs_onLink w x y _
theorem frs_ctlDeliverAll (w : World) (x y : Nat) : FrS w (ctlDeliverAll w x y) := frs_onLink w x y _
theorem frs_stepBegin (w : World) : FrS w w.stepBegin := frs_of_eq rfl rfl rfl
theorem frs_dnsLookup (w : World) (name : String) : FrS w (w.dnsLookup name).2 := frs_of_eq rfl rfl rfl

theorem frs_turnBegin (w : World) (h : Nat) : FrS w (w.turnBegin h) := by
  unfold turnBegin
  refine frs_setHost w h _ ?_
  unfold hostTurnBegin
  simp only
  repeat' split
  all_goals exact AtS.of_eq rfl rfl

theorem frs_turnStep (w : World) (h : Nat) : FrS w (turnStep w h).2 := by
  unfold turnStep
  exact ((frs_turnBegin w h).trans (frs_deliverTo _ h)).trans (frs_of_eq rfl rfl rfl)

theorem frs_loStep (w : World) (h i : Nat) : FrS w (loStep w h i).1 := by
  unfold loStep
  simp only
  have h1 := (frs_setHost_eq w h (fun hs => { hs with lo := hs.lo.eraseIdx i }) rfl rfl).trans
    (frs_receive _ h ((w.host! h).lo.getD i default))
  split
  · exact h1.trans (frs_receive _ _ _)
  · exact h1

theorem ats_setHnow (hs : Host) (W : Nat) (b : Bool) : AtS hs (({ hs with hnow := W }, b) : Host × Bool).1 :=
  AtS.of_eq rfl rfl
theorem ats_setWake (hs : Host) (W : Option Nat) (b : Bool) : AtS hs (({ hs with wake := W }, b) : Host × Bool).1 :=
  AtS.of_eq rfl rfl
theorem ats_ite_fst {c : Prop} [Decidable c] {hs : Host} {a b : Host × Bool} (ha : AtS hs a.1) (hb : AtS hs b.1) :
    AtS hs (if c then a else b).1 := by split <;> assumption

/-- (see the remark at `shrink_setHnow`) -/
theorem ats_hostSleep (A : Nat) (hs : Host) (ms : Nat) : AtS hs (hostSleep A hs ms).1 := by
  unfold hostSleep
  exact ats_ite_fst (ats_setHnow _ _ _) (ats_setWake _ _ _)

theorem frs_hopSleep (w : World) (h ms : Nat) : FrS w (hopSleep w h ms).1 := by
  rw [hopSleep, fst_mk]
  exact frs_setHost w h _ (ats_hostSleep _ _ _)

theorem frs_stepEnd (w : World) : FrS w w.stepEnd := by
  refine ⟨⟨rfl, fun h => h⟩, by simp [stepEnd], fun i => ?_⟩
  unfold stepEnd host!
  simp only [List.getD_eq_getElem?_getD, List.getElem?_map]
  cases w.hosts[i]? with
  | none => exact AtS.refl _
  | some a => exact AtS.of_eq rfl rfl

end TV.C04
