import TvCore.Proofs.C12WorldLemmas
/-
  Helper lemmas for the connector's side of `Props/C12World.lean`: `opTcpConnect` split at the point
  where the ephemeral port is known (`connectTail`), frame facts about `assignPort` / `netSend`, and the
  link-level reason why a SYN sent into a partitioned direction is refused.
-/
namespace TV.C12
open TV TV.World TV.C04

@[simp] theorem syns_popFail (w : World) : (w.popFail).2.syns = w.syns := by unfold popFail; split <;> rfl
@[simp] theorem syns_popRepair (w : World) : (w.popRepair).2.syns = w.syns := by unfold popRepair; split <;> rfl
@[simp] theorem syns_popDelay (w : World) : (w.popDelay).2.syns = w.syns := by unfold popDelay; split <;> rfl

@[simp] theorem synsLen_dropEnvs (w : World) (es : List Env) : (w.dropEnvs es).syns.length = w.syns.length := by
  unfold dropEnvs
  induction es generalizing w with
  | nil => rfl
  | cons e es ih =>
    simp only [List.foldl_cons]
    rw [ih]
    cases e.msg <;> simp [dropSyn]

@[simp] theorem synsLen_linkEnqueue (w : World) (li s d : Nat) (e : Env) :
    (w.linkEnqueue li s d e).syns.length = w.syns.length := by
  unfold linkEnqueue
  split
  · rfl
  · simp only
    repeat' split
    all_goals simp

@[simp] theorem synsLen_sendMessage (w : World) (e : Env) : (w.sendMessage e).2.syns.length = w.syns.length := by
  unfold sendMessage
  repeat' split
  all_goals simp

@[simp] theorem synsLen_netSend (w : World) (h : Nat) (e : Env) : (w.netSend h e).2.syns.length = w.syns.length := by
  unfold netSend sendLoopback
  split <;> simp

@[simp] theorem syns_assignPort (w : World) (h : Nat) : (w.assignPort h).2.syns = w.syns := by
  unfold assignPort
  simp only
  repeat' split
  all_goals simp

@[simp] theorem hostsLen_assignPort (w : World) (h : Nat) : (w.assignPort h).2.hosts.length = w.hosts.length := by
  unfold assignPort
  simp only
  repeat' split
  all_goals simp [setHost]


/-- the address `TcpStream::connect` binds locally. -/
def connectLocal (h : Nat) (dst : Addr) (p : Nat) : Addr :=
  { ip := if dst.ip.isLoopback then dst.ip else .host h, port := p }

theorem clientHost_connectLocal (h : Nat) (dst : Addr) (p : Nat) : clientHost h (connectLocal h dst p) = some h := by
  unfold clientHost connectLocal
  cases hd : dst.ip <;> simp [Ip.isLoopback]


/-- the world right before the SYN is handed to the network: half-open entry created, fresh one-shot
    cell appended. -/
def connectPre (w1 : World) (h p : Nat) (dst : Addr) : World :=
  { (w1.newStream h (connectLocal h dst p) dst).2 with
    syns := (w1.newStream h (connectLocal h dst p) dst).2.syns ++ [({} : SynCell)] }

/-- `opTcpConnect` once the ephemeral port `p` has been assigned (the model's text, folded). -/
def connectTail (w1 : World) (h s p : Nat) (dst : Addr) : World × String :=
  if connectLocal h dst p == dst then (w1.panic "assert_ne", "panic") else
  let cf := (w1.newStream h (connectLocal h dst p) dst).1
  let id := (w1.newStream h (connectLocal h dst p) dst).2.syns.length
  let r := (connectPre w1 h p dst).netSend h { src := connectLocal h dst p, dst := dst, msg := .syn id }
  if !r.1 then
    let w := r.2.setChan cf.1 (fun c => { c with rxAlive := false })
    let w := if w.cfg.fixConnectLeak then w.removeSock h (connectLocal h dst p) dst else w.tag "connectleak"
    (w.tag "refused", "err refused")
  else
    (r.2.setObj h s (.connecting id (connectLocal h dst p) dst cf.1 cf.2)).connectPoll h s

theorem opTcpConnect_eq (w : World) (h s : Nat) (dst : Addr) :
    w.opTcpConnect h s dst =
      match (w.assignPort h).1 with
      | none => ((w.assignPort h).2, "panic")
      | some p => connectTail (w.assignPort h).2 h s p dst := by
  unfold opTcpConnect
  cases hap : w.assignPort h with
  | mk port? w1 => cases port? <;> rfl

theorem connectPre_world (w1 : World) (h p : Nat) (dst : Addr) :
    ∃ pn, connectPre w1 h p dst =
      { w1 with
        hosts := setAt w1.hosts h (fun hs => { hs with socks := hs.socks ++
          [{ loc := connectLocal h dst p, rem := dst, chan := w1.chans.length, fcW := w1.fcs.length }] })
        chans := w1.chans ++ [{ cap := w1.cfg.tcpCap }]
        fcs := w1.fcs ++ [w1.cfg.tcpCap, w1.cfg.tcpCap]
        syns := w1.syns ++ [({} : SynCell)]
        panicked := pn } ∧
      (w1.newStream h (connectLocal h dst p) dst).1 = (w1.chans.length, w1.fcs.length) ∧
      (w1.newStream h (connectLocal h dst p) dst).2.syns.length = w1.syns.length := by
  unfold connectPre
  obtain ⟨pn, hN⟩ := newStream_world w1 h (connectLocal h dst p) dst
  rw [hN]
  exact ⟨pn, rfl, rfl, rfl⟩

theorem connectPoll_pending (w : World) (h s id : Nat) (loc rem : Addr) (chan fcW : Nat)
    (ho : w.getObj h s = some (.connecting id loc rem chan fcW))
    (hp : (w.connectPoll h s).2 = "pending") :
    (w.syns.getD id default).st = .pending ∧ w.connectPoll h s = (w, "pending") := by
  unfold connectPoll at hp ⊢
  simp only [ho] at hp ⊢
  cases hst : (w.syns.getD id default).st with
  | pending => exact ⟨rfl, rfl⟩
  | acked => simp only [hst] at hp; exact absurd hp (ok_ne_pending _ _)
  | dropped => simp only [hst] at hp; exact absurd hp (by decide)

theorem connectTail_pending (w1 : World) (h s p : Nat) (dst : Addr) (hh : h < w1.hosts.length)
    (hp : (connectTail w1 h s p dst).2 = "pending") :
    ∃ chan fcW,
      (connectTail w1 h s p dst).1.getObj h s =
        some (.connecting w1.syns.length (connectLocal h dst p) dst chan fcW) ∧
      connectLocal h dst p ≠ dst ∧
      (findSock ((connectTail w1 h s p dst).1.host! h) (connectLocal h dst p) dst).isSome ∧
      (connectTail w1 h s p dst).1.syns.length = w1.syns.length + 1 ∧
      ((connectTail w1 h s p dst).1.syns.getD w1.syns.length default).st = .pending := by
  obtain ⟨pn, hpre, hcf, hlen⟩ := connectPre_world w1 h p dst
  unfold connectTail at hp ⊢
  by_cases hne : (connectLocal h dst p == dst) = true
  · simp only [hne, if_true] at hp; exact absurd hp (by decide)
  · simp only [hne, Bool.false_eq_true, if_false] at hp ⊢
    rw [hlen, hcf] at hp ⊢
    simp only at hp ⊢
    cases hok : ((connectPre w1 h p dst).netSend h
        { src := connectLocal h dst p, dst := dst, msg := .syn w1.syns.length }).1 with
    | false =>
      simp only [hok, Bool.not_false, if_true] at hp
      exact absurd hp (by decide)
    | true =>
      simp only [hok] at hp ⊢
      simp only [Bool.not_true, Bool.false_eq_true, if_false] at hp ⊢
      generalize hw4 : ((connectPre w1 h p dst).netSend h
        { src := connectLocal h dst p, dst := dst, msg := .syn w1.syns.length }).2 = w4 at hp ⊢
      have hl3 : h < (connectPre w1 h p dst).hosts.length := by rw [hpre]; simpa using hh
      have hl4 : h < w4.hosts.length := by rw [← hw4, len_netSend]; exact hl3
      have hobj := getObj_setObj_self w4 h s
        (.connecting w1.syns.length (connectLocal h dst p) dst w1.chans.length w1.fcs.length) hl4
      obtain ⟨hst, hun⟩ := connectPoll_pending _ h s _ _ _ _ _ hobj hp
      rw [hun]
      refine ⟨_, _, hobj, by simpa using hne, ?_, ?_, hst⟩
      · -- the half-open entry
        have hs4 : ((w4.setObj h s
            (.connecting w1.syns.length (connectLocal h dst p) dst w1.chans.length w1.fcs.length)).host! h).socks =
            (w1.host! h).socks ++ [{ loc := connectLocal h dst p, rem := dst, chan := w1.chans.length, fcW := w1.fcs.length }] := by
          unfold setObj
          rw [host!_setHost_self _ _ _ hl4]
          simp only
          have := keepsS_netSend h (connectPre w1 h p dst) { src := connectLocal h dst p, dst := dst, msg := .syn w1.syns.length }
          unfold KeepsS at this
          rw [hw4] at this
          rw [this, hpre, host!_of_setAt rfl hh]
        unfold findSock
        rw [hs4, List.findIdx?_isSome]
        simp
      · show w4.syns.length = _
        rw [← hw4, synsLen_netSend, hpre]
        simp


theorem ipnumOf_none_of_len {w w' : World} (hl : w'.hosts.length = w.hosts.length) (ip : Ip)
    (hn : w.ipnumOf ip = none) : w'.ipnumOf ip = none := by
  unfold ipnumOf at hn ⊢
  cases ip with
  | host i =>
    simp only [Option.map_eq_none_iff, List.getElem?_eq_none_iff] at hn ⊢
    omega
  | _ => rfl


/-- a direction that is explicitly partitioned is still closed (explicit, or failed at random) after
    the random step of `enqueue_message`, whatever the coins — provided the opposite direction is not
    in the randomly-failed state (the faithful random repair would `release` both directions). -/
theorem randStep_keeps_closed {M : Type} (cfg : Cfg) (l : Link M) (cf cr : Bool) (s d : Nat) (hsd : s ≠ d)
    (hst : l.stateFor s d = .explicit) (hother : l.stateFor d s ≠ .rand) :
    (Link.randStep cfg l cf cr).1.stateFor s d = .explicit ∨ (Link.randStep cfg l cf cr).1.stateFor s d = .rand := by
  unfold Link.stateFor at hst hother ⊢
  unfold Link.randStep Link.anyHealthy Link.anyRand Link.release
  rcases Nat.lt_or_gt_of_ne hsd with hlt | hgt
  · have h2 : ¬ d < s := by omega
    simp only [hlt, h2, if_true, if_false] at hst hother ⊢
    cases hba : l.stBA <;> cases cf <;> cases cr <;> cases hfx : cfg.fixRand <;> simp_all
  · have h2 : ¬ s < d := by omega
    simp only [hgt, h2, if_true, if_false] at hst hother ⊢
    cases hab : l.stAB <;> cases cf <;> cases cr <;> cases hfx : cfg.fixRand <;> simp_all

theorem linkEnqueue_syns (w : World) (li s d : Nat) (e : Env) (l : Link Env) (hl : w.links[li]? = some l) :
    ∃ (cfg : Cfg) (cf cr : Bool) (dl : Nat) (w' : World), w'.syns = w.syns ∧
      w.linkEnqueue li s d e =
        w'.dropEnvs (((Link.randStep cfg l cf cr).2 ++
          ((Link.randStep cfg l cf cr).1.enqueueRaw dl s d e).2.toList).map (·.msg)) := by
  unfold linkEnqueue
  simp only [hl]
  cases hpf : w.popFail with
  | mk cf wa =>
    have hsa : wa.syns = w.syns := by have := syns_popFail w; rw [hpf] at this; exact this
    simp only
    generalize hwb : (if l.wantsRepairCoin cf = true then wa.popRepair else (false, wa)) = rb
    obtain ⟨cr, wb⟩ := rb
    have hsb : wb.syns = w.syns := by
      split at hwb
      · have := syns_popRepair wa; rw [hwb] at this; exact this.trans hsa
      · injection hwb with _ h2; rw [← h2]; exact hsa
    simp only
    generalize hwc : (if (Link.randStep wb.cfg.link l cf cr).1.wantsDelay s d = true then wb.popDelay else (0, wb)) = rc
    obtain ⟨dl, wc⟩ := rc
    have hsc : wc.syns = w.syns := by
      split at hwc
      · have := syns_popDelay wb; rw [hwc] at this; exact this.trans hsb
      · injection hwc with _ h2; rw [← h2]; exact hsb
    refine ⟨wb.cfg.link, cf, cr, dl, _, ?_, rfl⟩
    repeat' split
    all_goals simp [hsc]

/-- a SYN sent into an explicitly partitioned direction is handed back by the link and its one-shot
    dropped, whatever the oracle says. -/
theorem linkEnqueue_partitioned_drops (w : World) (li s d : Nat) (e : Env) (id : Nat) (l : Link Env)
    (hl : w.links[li]? = some l) (hsd : s ≠ d)
    (hst : l.stateFor s d = .explicit) (hother : l.stateFor d s ≠ .rand)
    (he : e.msg = .syn id) (hid : id < w.syns.length) (hp : (w.syns.getD id default).st = .pending) :
    ((w.linkEnqueue li s d e).syns.getD id default).st = .dropped := by
  obtain ⟨cfg, cf, cr, dl, w', hs, heq⟩ := linkEnqueue_syns w li s d e l hl
  rw [heq]
  have hc := randStep_keeps_closed cfg l cf cr s d hsd hst hother
  obtain ⟨x, hx1, hx2, _⟩ := partitioned_send_dropped (Link.randStep cfg l cf cr).1 dl s d e hc
  apply dropEnvs_drops _ w' id (by rw [hs]; exact hid) (by rw [hs]; exact hp)
  refine ⟨e, ?_, he⟩
  rw [hx1]
  simp [hx2]

@[simp] theorem links_assignPort (w : World) (h : Nat) : (w.assignPort h).2.links = w.links := by
  unfold assignPort
  simp only
  repeat' split
  all_goals simp

theorem ipnum_assignPort (w : World) (h i : Nat) : ((w.assignPort h).2.host! i).ipnum = (w.host! i).ipnum := by
  have key : ∀ f : Host → Host, (∀ a, (f a).ipnum = a.ipnum) → ((w.setHost h f).host! i).ipnum = (w.host! i).ipnum := by
    intro f hf
    by_cases hi : i = h
    · subst hi
      rw [host!_setHost]
      split
      · exact hf _
      · rfl
    · rw [host!_setHost_ne _ _ _ _ hi]
  unfold assignPort
  simp only
  repeat' split
  all_goals simp [key]

theorem ipnumOf_host (w : World) (i : Nat) (hi : i < w.hosts.length) : w.ipnumOf (.host i) = some (w.host! i).ipnum := by
  unfold ipnumOf host!
  simp only [List.getD_eq_getElem?_getD]
  rw [List.getElem?_eq_getElem hi]
  rfl

end TV.C12
