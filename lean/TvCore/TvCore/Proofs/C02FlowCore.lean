import TvCore.Proofs.C02FlowRecv
/-
  C02, flow control — the three transitions of the direction: a write by its write half, an arrival at
  its socket, a read by its read half.  Each keeps `tot` (= the left-hand side of the balance).
-/
namespace TV.C02
open TV TV.World

/-- the left-hand side of the balance. -/
def tot (D : Dir) (w : World) : Nat := w.credits D.f + netFl D w + loFl D w + parked D w + queued D w

theorem tot_of_view {D : Dir} {w w' : World} (hv : view D w' = view D w) : tot D w' = tot D w := by
  have h := bal_of_view (cap := tot D w) hv rfl
  exact h

theorem tot_q {D : Dir} {w w' : World} (h : Q D w w') (hp : Pre D w) : tot D w' = tot D w := tot_of_view (h.view hp)

/-- `tot` read off a view. -/
theorem tot_eq_of_view (D : Dir) (w : World) (cr nf lf : Nat) (b : List (Nat × Seg)) (rs c : Nat) (items : List Seg)
    (cap : Nat) (al : Bool) (hv : view D w = (cr, nf, lf, some (b, rs, c), items, cap, al)) :
    tot D w = cr + nf + lf + parkedData b + dataSegs items := by
  unfold view at hv
  simp only [Prod.mk.injEq] at hv
  obtain ⟨h1, h2, h3, h4, h5, _, _⟩ := hv
  unfold tot queued
  rw [parked_eq, h1, h2, h3, h4, h5]

theorem b_lt_of_pre {D : Dir} {w : World} (hp : Pre D w) : D.b < w.hosts.length := by
  apply Classical.byContradiction
  intro hge
  have : w.host! D.b = default := by
    unfold World.host!
    rw [List.getD_eq_getElem?_getD, List.getElem?_eq_none (by omega)]; rfl
  have h2 := hp.2
  rw [this] at h2
  cases h2

/-- the index of the reader's socket. -/
theorem idx_of_pre {D : Dir} {w : World} (hp : Pre D w) : ∃ i, (w.host! D.b).socks.findIdx? (sockP D) = some i := by
  have h2 := hp.2
  unfold skv at h2
  cases hf : (w.host! D.b).socks.find? (sockP D) with
  | none => rw [hf] at h2; cases h2
  | some s =>
    cases hi : (w.host! D.b).socks.findIdx? (sockP D) with
    | some i => exact ⟨i, rfl⟩
    | none =>
      have := List.findIdx?_eq_none_iff.mp hi s (List.mem_of_find?_eq_some hf)
      rw [List.find?_some hf] at this
      cases this

/-- standing facts about the reader's end: the receiver of the channel is alive, the socket's channel is
    the direction's, sequence numbers in its reorder buffer are distinct. -/
def RdOk (D : Dir) (w : World) : Prop :=
  (w.chan! D.c).rxAlive = true ∧
  ∀ v, skv D (w.host! D.b).socks = some v → v.2.2 = D.c ∧ (v.1.map (·.1)).Nodup

theorem RdOk.of_view {D : Dir} {w w' : World} (hv : view D w' = view D w) (h : RdOk D w) : RdOk D w' := by
  unfold view at hv
  simp only [Prod.mk.injEq] at hv
  obtain ⟨_, _, _, h4, _, _, h7⟩ := hv
  unfold RdOk
  rw [h4, h7]
  exact h

/-- **the reader's socket after a drain from buffer `buf0` / queue `items0`**: `tot` is the count before. -/
theorem tot_setRx_drain (D : Dir) (w : World) (i : Nat) (hp : Pre D w)
    (hi : (w.host! D.b).socks.findIdx? (sockP D) = some i) (hch : (sockAt w D.b i).chan = D.c)
    (fuel : Nat) (buf0 : List (Nat × Seg)) (rs0 : Nat) (items0 : List Seg) (hn : (buf0.map (·.1)).Nodup) :
    tot D (setRx w D.b i D.c (drainBuf (w.chan! D.c).cap true fuel buf0 rs0 items0).1
        (drainBuf (w.chan! D.c).cap true fuel buf0 rs0 items0).2.1
        (drainBuf (w.chan! D.c).cap true fuel buf0 rs0 items0).2.2.1) =
      w.credits D.f + netFl D w + loFl D w + parkedData buf0 + dataSegs items0 := by
  rw [tot_eq_of_view D _ _ _ _ _ _ _ _ _ _ (view_setRx_ours D w i _ _ _ hp hi hch)]
  have := (drainBuf_conserves (w.chan! D.c).cap fuel buf0 rs0 items0 hn).1
  omega

theorem skv_found {D : Dir} {w : World} {i : Nat} (hi : (w.host! D.b).socks.findIdx? (sockP D) = some i) :
    skv D (w.host! D.b).socks = some ((sockAt w D.b i).buf, (sockAt w D.b i).recvSeq, (sockAt w D.b i).chan) :=
  (skv_setAt_found D (fun s => s) (fun _ => rfl) _ i hi).2

theorem tot_found {D : Dir} {w : World} {i : Nat} (hi : (w.host! D.b).socks.findIdx? (sockP D) = some i) :
    tot D w = w.credits D.f + netFl D w + loFl D w + parkedData (sockAt w D.b i).buf + dataSegs (w.chan! D.c).items := by
  unfold tot queued
  rw [parked_eq, skv_found hi]

/-! ### an arrival at the reader's socket -/

theorem view_bk {D : Dir} {w W : World} (hb : Bk w W) : view D W = view D w := by
  obtain ⟨cov, p, rfl⟩ := hb
  rfl

/-- **arrival**: `sockBuffer` on the reader's socket (receiver alive, no duplicate recorded) adds exactly the
    arriving segment to buffer + queue. -/
theorem tot_sockBuffer_ours (D : Dir) (w : World) (i seq : Nat) (seg : Seg) (hp : Pre D w) (hr : RdOk D w)
    (hi : (w.host! D.b).socks.findIdx? (sockP D) = some i)
    (hnp : (w.sockBuffer D.b i seq seg).2.panicked = none) :
    tot D (w.sockBuffer D.b i seq seg).2 = tot D w + (if seg.isData then 1 else 0) ∧
    Pre D (w.sockBuffer D.b i seq seg).2 ∧ RdOk D (w.sockBuffer D.b i seq seg).2 := by
  have hsk := skv_found hi
  have hch : (sockAt w D.b i).chan = D.c := (hr.2 _ hsk).1
  have hnd : ((sockAt w D.b i).buf.map (·.1)).Nodup := (hr.2 _ hsk).2
  have hnew := sockBuffer_nodup w D.b i seq seg hnp
  have hnd2 : (((sockAt w D.b i).buf ++ [(seq, seg)]).map (·.1)).Nodup := by
    rw [List.map_append, List.nodup_append]
    refine ⟨hnd, by simp, ?_⟩
    intro a ha b hb
    simp only [List.map_cons, List.map_nil, List.mem_singleton] at hb
    subst hb
    intro e
    subst e
    obtain ⟨pr, hpr, hpe⟩ := List.mem_map.mp ha
    have : ((sockAt w D.b i).buf.any fun p => p.1 == a) = true := List.any_eq_true.mpr ⟨pr, hpr, by simpa using hpe⟩
    rw [hnew] at this
    cases this
  have hco : chanOf w D.b i = w.chan! D.c := by unfold chanOf; rw [hch]
  rcases hd : drainBuf (chanOf w D.b i).cap (chanOf w D.b i).rxAlive (((sockAt w D.b i).buf ++ [(seq, seg)]).length + 1)
      ((sockAt w D.b i).buf ++ [(seq, seg)]) (sockAt w D.b i).recvSeq (chanOf w D.b i).items with ⟨b, rs, items, rst⟩
  obtain ⟨W, hbk, he⟩ := sockBuffer_eq w D.b i seq seg b rs items rst hd
  rw [he]
  simp only
  rw [hch]
  have hvW := view_bk (D := D) hbk
  have hpW : Pre D W := by
    obtain ⟨cov, p, rfl⟩ := hbk
    exact hp
  have hiW : (W.host! D.b).socks.findIdx? (sockP D) = some i := by rw [hbk.host!]; exact hi
  have hchW : (sockAt W D.b i).chan = D.c := by rw [hbk.sockAt]; exact hch
  rw [hco, hr.1] at hd
  have hcapW : (W.chan! D.c).cap = (w.chan! D.c).cap := by rw [hbk.chan!]
  have key := tot_setRx_drain D W i hpW hiW hchW (((sockAt w D.b i).buf ++ [(seq, seg)]).length + 1)
    ((sockAt w D.b i).buf ++ [(seq, seg)]) (sockAt w D.b i).recvSeq (w.chan! D.c).items hnd2
  rw [hcapW, hd] at key
  simp only at key
  have hview := view_setRx_ours D W i b rs items hpW hiW hchW
  refine ⟨?_, ?_, ?_⟩
  · rw [key, tot_found hi]
    have e1 : W.credits D.f = w.credits D.f := by obtain ⟨cov, p, rfl⟩ := hbk; rfl
    have e2 : netFl D W = netFl D w := by obtain ⟨cov, p, rfl⟩ := hbk; rfl
    have e3 : loFl D W = loFl D w := by obtain ⟨cov, p, rfl⟩ := hbk; rfl
    rw [e1, e2, e3]
    unfold parkedData
    simp only [List.countP_append, List.countP_cons, List.countP_nil]
    omega
  · refine ⟨⟨?_, ?_, ?_⟩, ?_⟩
    · obtain ⟨cov, p, rfl⟩ := hbk; exact hp.noFail
    · obtain ⟨cov, p, rfl⟩ := hbk; exact hp.fIn
    · show D.c < (setRx W D.b i D.c b rs items).chans.length
      rw [chans_setRx_length]; exact hpW.cIn
    · have := skv_of_view (D := D) (w := setRx W D.b i D.c b rs items) (w' := setRx W D.b i D.c b rs items) rfl
      unfold view at hview
      simp only [Prod.mk.injEq] at hview
      rw [hview.2.2.2.1]
      rfl
  · unfold view at hview
    simp only [Prod.mk.injEq] at hview
    obtain ⟨_, _, _, h4, _, _, h7⟩ := hview
    refine ⟨by rw [h7, hbk.chan!]; exact hr.1, ?_⟩
    intro v hv
    rw [h4] at hv
    cases hv
    refine ⟨rfl, ?_⟩
    have := (drainBuf_conserves (w.chan! D.c).cap (((sockAt w D.b i).buf ++ [(seq, seg)]).length + 1)
      ((sockAt w D.b i).buf ++ [(seq, seg)]) (sockAt w D.b i).recvSeq (w.chan! D.c).items hnd2).2
    rw [hd] at this
    exact this

end TV.C02
