import TvCore.Props.LinksWorld
import TvCore.Proofs.C09WorldRecv
/-
  C09 end to end, part 2 — vocabulary of the run-level theorems of `TvCore/Props/C09World.lean`.

  Where a UDP envelope can be:
    * `Place`             `.lo i`: on the loopback queue of host `i`; `.net d`: on a link, addressed to the
                          host whose ip number is `d` (the `dst` field of the link message),
    * `Key`               a place and an envelope,
    * `linkKeys l`        `(dst, envelope)` of every message link `l` holds (in flight or deliverable),
    * `netKeys w`         … of all links,
    * `flightCount w k`   how often the keyed envelope `k` is queued somewhere in world `w`.
  What a send addresses (`SendRec`, `sentRecs`, `sentBy`, `sentLog`), what a host queues (`Arrival`,
  `udpPut`, `arrivalsOf`, `arrived`, `arrivedOn`), and the relation `TR N w w'` that every transition which
  is not a delivery satisfies ("at most the keyed envelopes `N` are newly queued; socket queues only
  shrink; host numbers stay").
-/
namespace TV.C09
open TV TV.World TV.C04 TV.LW

/-- a UDP datagram envelope? -/
def isUdp (e : Env) : Bool := match e.msg with | .udp _ => true | _ => false

/-- where an envelope is queued: the loopback queue of host `i`, or a link — addressed to ip number `d`. -/
inductive Place
  | lo (i : Nat)
  | net (d : Nat)
  deriving DecidableEq, Repr

abbrev Key := Place × Env

/-- destination ip number and envelope of a link message. -/
def kf (s : Sent Env) : Nat × Env := (s.dst, s.msg)

/-- every message a link holds: in flight (`sent`) or deliverable (`toA`, `toB`). -/
def allMsgs (l : Link Env) : List (Sent Env) := l.sent ++ l.toA ++ l.toB

def linkKeys (l : Link Env) : List (Nat × Env) := (allMsgs l).map kf

def netKeys (w : World) : List (Nat × Env) := w.links.flatMap linkKeys

/-- how often the keyed envelope `k` is queued in world `w`. -/
def flightCount (w : World) (k : Key) : Nat :=
  match k.1 with
  | .lo i => (w.host! i).lo.count k.2
  | .net d => (netKeys w).count (d, k.2)

/-! ### what a send addresses -/

/-- one envelope a `send_to` addressed: the sending host, where it is queued, the envelope. -/
structure SendRec where
  host : Nat
  place : Place
  env : Env
  deriving DecidableEq, Repr

def SendRec.key (r : SendRec) : Key := (r.place, r.env)

/-- `World::send_message` as far as routing goes: a link exists only between two different ip numbers. -/
def netRecs (w : World) (h : Nat) (e : Env) : List SendRec :=
  match w.ipnumOf e.src.ip, w.ipnumOf e.dst.ip with
  | some s, some d => if s == d then [] else [⟨h, .net d, e⟩]
  | _, _ => []

/-- one destination of the fan-out (`try_for_each` body of udp.rs). -/
def fanRec (w : World) (h : Nat) (src : Addr) (p : Hex) (loopOk : Addr → Bool) (d : Addr) : List SendRec :=
  if src.ip == d.ip then (if loopOk d then [⟨h, .lo h, mkEnv src p d⟩] else [])
  else netRecs w h (mkEnv src p d)

/-- what `send_to(dst, p)` on the socket in slot `s` of host `h` addresses, in order: one record per
    destination (unicast: the one; broadcast with the flag on: the hosts with the port bound; multicast:
    the current members, minus the same-host ones the loop flag rejects), minus the destinations for which
    no route exists at all (unknown address, or the host's own number). -/
def sentRecs (w : World) (h s : Nat) (dst : Addr) (p : Hex) : List SendRec :=
  match w.getObj h s with
  | some (.udp loc _) =>
    if dst.ip.isBroadcast then
      if bcastOn (w.host! h) loc.port then
        (bcastDsts w dst.port).flatMap (fanRec w h (udpSrc h loc dst) p (fun _ => true))
      else []
    else if dst.ip.isMulticast then
      (members w dst).flatMap (fanRec w h (udpSrc h loc dst) p (mloopOn (w.host! h)))
    else if isSame (udpSrc h loc dst) dst then [⟨h, .lo h, mkEnv (udpSrc h loc dst) p dst⟩]
    else netRecs w h (mkEnv (udpSrc h loc dst) p dst)
  | _ => []

/-- the records a step adds to the log: only a `send_to` call adds any. -/
def sentBy (w : World) : Step → List SendRec
  | .host h (.udpSend s dst p) => sentRecs w h s dst p
  | _ => []

/-- the ghost log of a run: every record of every `send_to`, in order. -/
def sentLog (w : World) : List Step → List SendRec
  | [] => []
  | st :: sts => sentBy w st ++ sentLog (applyStep w st) sts

/-! ### what a host queues -/

/-- one datagram queued on a socket: the receiving host, where the envelope came from, the envelope,
    and the bind that took it as it was at that moment. -/
structure Arrival where
  host : Nat
  place : Place
  env : Env
  bind : UdpBind

def Arrival.key (a : Arrival) : Key := (a.place, a.env)

/-- a host of which only the bind table matters. -/
def tableHost (u : List UdpBind) : Host := { (default : Host) with udp := u }

/-- `udpReceive` on the bind table alone. -/
def udpPut (cap : Nat) (u : List UdpBind) (e : Env) : List UdpBind :=
  match e.msg with
  | .udp p => (udpReceive cap (tableHost u) e.src e.dst p).1.udp
  | _ => u

/-- the bind that queues envelope `e`, if one does. -/
def taker (cap : Nat) (u : List UdpBind) (e : Env) : Option UdpBind :=
  match e.msg with
  | .udp p =>
    if (udpReceive cap (tableHost u) e.src e.dst p).2 = "" then
      u.find? (fun b => b.port == e.dst.port)
    else none
  | _ => none

/-- the arrivals when host `h` (bind table `u`) is handed the keyed envelopes `es`, in order. -/
def arrivalsOf (cap h : Nat) : List UdpBind → List (Place × Env) → List Arrival
  | _, [] => []
  | u, (pl, e) :: es =>
    (match taker cap u e with | some b => [⟨h, pl, e, b⟩] | none => []) ++ arrivalsOf cap h (udpPut cap u e) es

/-- the bind table after the envelopes `es` were handed over, in order. -/
def tableAfter (cap : Nat) (u : List UdpBind) (es : List Env) : List UdpBind := es.foldl (udpPut cap) u

/-- what the links hand to host `h` when its turn begins, keyed: link by link in table order. -/
def handedKeys (w : World) (h : Nat) : List (Place × Env) :=
  ((List.range w.links.length).flatMap (fun j => handed w j (.turn h))).map (fun x => (Place.net x.dst, x.msg))

/-- the envelope a `loDeliver h i` step delivers, keyed (nothing if `i` is out of range). -/
def loKeys (w : World) (h i : Nat) : List (Place × Env) :=
  match (w.host! h).lo[i]? with
  | some e => [(Place.lo h, e)]
  | none => []

/-- the datagrams queued on sockets by a step. -/
def arrived (w : World) : Step → List Arrival
  | .turn h => arrivalsOf w.cfg.udpCap h (w.host! h).udp (handedKeys w h)
  | .loDeliver h i => arrivalsOf w.cfg.udpCap h (w.host! h).udp (loKeys w h i)
  | _ => []

/-- the ghost arrival log of a run. -/
def arrivedOn (w : World) : List Step → List Arrival
  | [] => []
  | st :: sts => arrived w st ++ arrivedOn (applyStep w st) sts

theorem sentLog_append (w : World) (xs ys : List Step) :
    sentLog w (xs ++ ys) = sentLog w xs ++ sentLog (run w xs) ys := by
  induction xs generalizing w with
  | nil => simp [sentLog]
  | cons x xs ih => simp only [List.cons_append, sentLog, run_cons, ih, List.append_assoc]

theorem arrivedOn_append (w : World) (xs ys : List Step) :
    arrivedOn w (xs ++ ys) = arrivedOn w xs ++ arrivedOn (run w xs) ys := by
  induction xs generalizing w with
  | nil => simp [arrivedOn]
  | cons x xs ih => simp only [List.cons_append, arrivedOn, run_cons, ih, List.append_assoc]

/-! ### socket queues only shrink -/

/-- every queued datagram of table `u'` sits in the queue of a bind of `u` with the same port and bind
    address: no queue gained anything, binds that are new have empty queues. -/
def QSub (u u' : List UdpBind) : Prop :=
  ∀ b' ∈ u', ∀ x ∈ b'.queue, ∃ b ∈ u, b.port = b'.port ∧ b.bindAddr = b'.bindAddr ∧ x ∈ b.queue

theorem QSub.refl (u : List UdpBind) : QSub u u := fun b hb _ hx => ⟨b, hb, rfl, rfl, hx⟩

theorem QSub.trans {a b c : List UdpBind} (h1 : QSub a b) (h2 : QSub b c) : QSub a c := by
  intro b3 hb3 x hx
  obtain ⟨b2, hb2, p2, a2, x2⟩ := h2 b3 hb3 x hx
  obtain ⟨b1, hb1, p1, a1, x1⟩ := h1 b2 hb2 x x2
  exact ⟨b1, hb1, p1.trans p2, a1.trans a2, x1⟩

theorem QSub.of_eq {u u' : List UdpBind} (h : u' = u) : QSub u u' := h ▸ QSub.refl u

theorem qsub_filter (u : List UdpBind) (q : UdpBind → Bool) : QSub u (u.filter q) :=
  fun b hb _ hx => ⟨b, (List.mem_filter.mp hb).1, rfl, rfl, hx⟩

theorem qsub_append_empty (u : List UdpBind) (b : UdpBind) (hb : b.queue = []) : QSub u (u ++ [b]) := by
  intro b' hb' x hx
  rcases List.mem_append.mp hb' with h | h
  · exact ⟨b', h, rfl, rfl, hx⟩
  · simp only [List.mem_singleton] at h
    subst h
    rw [hb] at hx
    cases hx

theorem qsub_map (u : List UdpBind) (g : UdpBind → UdpBind)
    (hg : ∀ b, (g b).port = b.port ∧ (g b).bindAddr = b.bindAddr ∧ (g b).queue = b.queue) : QSub u (u.map g) := by
  intro b' hb' x hx
  obtain ⟨b, hb, rfl⟩ := List.mem_map.mp hb'
  exact ⟨b, hb, (hg b).1.symm, (hg b).2.1.symm, by rw [← (hg b).2.2]; exact hx⟩

theorem qsub_setAt (u : List UdpBind) (i : Nat) (g : UdpBind → UdpBind)
    (hg : ∀ b, (g b).port = b.port ∧ (g b).bindAddr = b.bindAddr ∧ ∀ x ∈ (g b).queue, x ∈ b.queue) :
    QSub u (setAt u i g) := by
  intro b' hb' x hx
  rcases mem_setAt u i g b' hb' with h | ⟨b, hb, rfl⟩
  · exact ⟨b', h, rfl, rfl, hx⟩
  · exact ⟨b, hb, (hg b).1.symm, (hg b).2.1.symm, (hg b).2.2 x hx⟩

/-! ### the relation every transition that is not a delivery satisfies -/

/-- a host update that keeps the host number, queues no loopback datagram and lets socket queues only shrink. -/
structure HR (hs hs' : Host) : Prop where
  ipnum : hs'.ipnum = hs.ipnum
  lo : ∀ x, isUdp x = true → hs'.lo.count x ≤ hs.lo.count x
  qs : QSub hs.udp hs'.udp

theorem HR.refl (hs : Host) : HR hs hs := ⟨rfl, fun _ _ => Nat.le_refl _, QSub.refl _⟩

theorem HR.of_eq {hs hs' : Host} (hi : hs'.ipnum = hs.ipnum) (hl : hs'.lo = hs.lo) (hu : hs'.udp = hs.udp) : HR hs hs' :=
  ⟨hi, fun _ _ => by rw [hl]; exact Nat.le_refl _, QSub.of_eq hu⟩

/-- **`TR N w w'`** — going from `w` to `w'` no UDP envelope is newly queued anywhere (on a link, on a
    loopback queue) but — at most once per position — the keyed envelopes `N`; no socket queue gains a
    datagram; host numbers and the configuration stay. -/
structure TR (N : List Key) (w w' : World) : Prop where
  fl : ∀ k : Key, isUdp k.2 = true → flightCount w' k ≤ flightCount w k + N.count k
  nums : w'.hosts.map (·.ipnum) = w.hosts.map (·.ipnum)
  qs : ∀ i, QSub (w.host! i).udp (w'.host! i).udp
  cfg : w'.cfg = w.cfg

theorem TR.refl (w : World) : TR [] w w :=
  ⟨fun _ _ => Nat.le_refl _, rfl, fun _ => QSub.refl _, rfl⟩

theorem TR.trans {a b c : World} {N M : List Key} (h1 : TR N a b) (h2 : TR M b c) : TR (N ++ M) a c := by
  refine ⟨fun k hk => ?_, h2.nums.trans h1.nums, fun i => (h1.qs i).trans (h2.qs i), h2.cfg.trans h1.cfg⟩
  have e1 := h1.fl k hk
  have e2 := h2.fl k hk
  rw [List.count_append]
  omega

/-- `N` may be replaced by any list that counts every UDP key at least as often. -/
theorem TR.mono {w w' : World} {N M : List Key} (h : TR N w w')
    (hc : ∀ k : Key, isUdp k.2 = true → N.count k ≤ M.count k) : TR M w w' :=
  ⟨fun k hk => Nat.le_trans (h.fl k hk) (Nat.add_le_add_left (hc k hk) _), h.nums, h.qs, h.cfg⟩

theorem TR.nil_trans {a b c : World} {M : List Key} (h1 : TR [] a b) (h2 : TR M b c) : TR M a c := by
  simpa using h1.trans h2

theorem TR.trans_nil {a b c : World} {N : List Key} (h1 : TR N a b) (h2 : TR [] b c) : TR N a c := by
  simpa using h1.trans h2

/-- envelopes that are no datagrams do not count. -/
theorem TR.drop {w w' : World} {N : List Key} (h : TR N w w') (hn : ∀ k ∈ N, isUdp k.2 = false) : TR [] w w' := by
  refine h.mono (fun k hk => ?_)
  have : N.count k = 0 := List.count_eq_zero.mpr (fun hm => by rw [hn k hm] at hk; cases hk)
  omega

theorem TR.ite {w a b : World} {N : List Key} (c : Prop) [Decidable c] (ha : TR N w a) (hb : TR N w b) :
    TR N w (if c then a else b) := by split <;> assumption

theorem TR.foldl {α : Type} (f : World → α → World) (hf : ∀ w x, TR [] w (f w x)) (l : List α) (w : World) :
    TR [] w (l.foldl f w) := by
  induction l generalizing w with
  | nil => exact TR.refl w
  | cons x xs ih => exact (hf w x).nil_trans (ih _)

/-- the part of the hosts `TR` reads. -/
def hview (w : World) : List (Nat × List Env × List UdpBind) := w.hosts.map (fun hs => (hs.ipnum, hs.lo, hs.udp))

theorem hview_host {w w' : World} (h : hview w' = hview w) (i : Nat) :
    (w'.host! i).ipnum = (w.host! i).ipnum ∧ (w'.host! i).lo = (w.host! i).lo ∧ (w'.host! i).udp = (w.host! i).udp := by
  have e := congrArg (fun l => l[i]?) h
  simp only [hview, List.getElem?_map] at e
  unfold host!
  simp only [List.getD_eq_getElem?_getD]
  cases h1 : w'.hosts[i]? <;> cases h2 : w.hosts[i]? <;> simp [h1, h2] at e ⊢
  exact e

theorem hview_nums {w w' : World} (h : hview w' = hview w) : w'.hosts.map (·.ipnum) = w.hosts.map (·.ipnum) := by
  have := congrArg (fun l => l.map (·.1)) h
  simpa [hview, List.map_map, Function.comp_def] using this

/-- same links, same configuration, hosts the same as far as `TR` looks. -/
theorem TR.of_same {w w' : World} (hl : w'.links = w.links) (hc : w'.cfg = w.cfg) (hv : hview w' = hview w) :
    TR [] w w' := by
  refine ⟨fun k _ => ?_, hview_nums hv, fun i => QSub.of_eq (hview_host hv i).2.2, hc⟩
  have : flightCount w' k = flightCount w k := by
    unfold flightCount netKeys
    rw [hl]
    cases k.1 with
    | lo i => simp only; rw [(hview_host hv i).2.1]
    | net d => rfl
  omega

theorem TR.of_hosts {w w' : World} (hl : w'.links = w.links) (hc : w'.cfg = w.cfg) (hh : w'.hosts = w.hosts) :
    TR [] w w' := TR.of_same hl hc (by unfold hview; rw [hh])

theorem tr_tag (w : World) (t : String) : TR [] w (w.tag t) :=
  TR.of_hosts (WorldLinks.links_tag w t) (cfg_tag w t) (hosts_tag w t)

theorem tr_panic (w : World) (t : String) : TR [] w (w.panic t) :=
  TR.of_hosts (C12.links_panic w t) (cfg_panic w t) (hosts_panic w t)

theorem TR.tag {w w' : World} {N : List Key} (h : TR N w w') (t : String) : TR N w (w'.tag t) :=
  h.trans_nil (tr_tag _ _)

theorem tr_setChan (w : World) (c : Nat) (f : Chan → Chan) : TR [] w (w.setChan c f) := TR.of_hosts rfl rfl rfl
theorem tr_dropSyn (w : World) (id : Nat) : TR [] w (w.dropSyn id) := TR.of_hosts rfl rfl rfl
theorem tr_dropEnvs (w : World) (es : List Env) : TR [] w (w.dropEnvs es) :=
  TR.of_hosts (WorldLinks.links_dropEnvs w es) (cfg_dropEnvs w es) (hosts_dropEnvs w es)

theorem map_setAt_at {α β : Type} (l : List α) (i : Nat) (f : α → α) (g : α → β) (d : α)
    (h : g (f (l.getD i d)) = g (l.getD i d)) : (setAt l i f).map g = l.map g := by
  induction l generalizing i with
  | nil => rfl
  | cons x xs ih =>
    cases i with
    | zero => simp only [setAt, List.map_cons]; rw [show g (f x) = g x from h]
    | succ k => simp only [setAt, List.map_cons]; rw [ih k (by simpa using h)]

/-- a host update. -/
theorem tr_setHost (w : World) (h : Nat) (f : Host → Host) (hr : HR (w.host! h) (f (w.host! h))) :
    TR [] w (w.setHost h f) := by
  have hhost : ∀ i, HR (w.host! i) ((w.setHost h f).host! i) := by
    intro i
    rw [host!_setHost_eq]
    split
    · next c => obtain ⟨rfl, _⟩ := c; exact hr
    · exact HR.refl _
  refine ⟨fun k hk => ?_, map_setAt_at _ _ _ _ default hr.ipnum, fun i => (hhost i).qs, rfl⟩
  unfold flightCount
  cases k.1 with
  | lo i => simp only [List.count_nil, Nat.add_zero]; exact (hhost i).lo k.2 hk
  | net d => simp only [List.count_nil, Nat.add_zero]; exact Nat.le_refl _

/-- a host update that touches neither the host number, the loopback queue nor the UDP table. -/
theorem tr_setHost_eq (w : World) (h : Nat) (f : Host → Host) (hi : ∀ hs, (f hs).ipnum = hs.ipnum)
    (hl : ∀ hs, (f hs).lo = hs.lo) (hu : ∀ hs, (f hs).udp = hs.udp) : TR [] w (w.setHost h f) :=
  tr_setHost w h f (HR.of_eq (hi _) (hl _) (hu _))

theorem tr_setObj (w : World) (h s : Nat) (o : Obj) : TR [] w (w.setObj h s o) :=
  tr_setHost_eq w h _ (fun _ => rfl) (fun _ => rfl) (fun _ => rfl)

theorem tr_delObj (w : World) (h s : Nat) : TR [] w (w.delObj h s) :=
  tr_setHost_eq w h _ (fun _ => rfl) (fun _ => rfl) (fun _ => rfl)

end TV.C09
